/-
  Prim.lean  --  the cut-property lemma behind C17 (checked with `lean lean/Prim.lean`,
  Lean 4 + Mathlib; only the Mathlib modules listed below are imported).

  WHAT THE THEOREM SAYS (plain words)
  -----------------------------------
  Take finitely many points V and a symmetric, nonnegative "length" w a b for every pair.
  Somebody hands us a rooted tree on V in the form of a parent table `par` together with the
  order `pos` in which the points were attached to the tree, and promises
    (inj)            no two points have the same attachment position,
    (parents-first)  every non-root point was attached after its parent,
    (greedy)         when the point v was attached, the edge (par v, v) that attached it was a
                     lightest edge among ALL edges that go from a point attached before v to a
                     point not attached before v   (the cut {before v} | {the rest}).
  Then the total length of the tree,  sum over v != root of w (par v) v,  is at most the total
  length of EVERY connected graph G on V  --  in particular of every spanning tree
  (`prim_tree_is_minimum`).  Since the tree given by the parent table is itself a connected
  graph on V (`prim_tree_connected`) whose edge-length sum is exactly that number
  (`prim_tree_weight_eq`), the number is the minimum over all connected spanning graphs, i.e.
  the total length of a minimum spanning tree.

  About hypothesis (first), "pos root = 0" / "the root has the smallest position": it is NOT
  needed.  The main theorem never uses it, and its order form
  `forall v != root, pos root < pos v` is a consequence of (parents-first); this is proved
  below as `prim_root_first`.  So the statements here carry only (inj), (parents-first),
  (greedy); having (first) in addition on the SMT side does no harm.

  HOW IT IS USED
  --------------
  C17 (PointsToCuntzMST.__call__ with bf = 0 and no branching limit): the contract proves
  postconditions `attachment-order-is-a-bijection-with-parents-first` and
  `each-point-was-attached-by-a-cheapest-admissible-edge`, which are exactly
  (inj)/(first)/(parents-first)/(greedy) for w = Euclidean distance; this theorem turns them
  into 'total length = that of a minimum spanning tree'.  The link is by inspection
  (instantiation of V := Fin n, w := dis).

  PROOF IDEA (exchange argument; neither acyclicity nor edge counts are needed because the
  lengths are nonnegative)
  -----------------------------------------------------------------------------------------
  By induction on a bound t we build a connected graph H_t with  weight H_t <= weight G  that
  contains the tree edge s(par v, v) of every non-root v with pos v < t
  (`exists_graph_with_tree_edges`).  Step t -> t+1: let v be the non-root point with
  pos v = t (unique by (inj); if there is none, or its tree edge is already in H_t, keep H_t).
  Put S = {u | pos u < pos v}; par v is in S, v is not.  Take a simple path in H_t from par v
  to v; walking along it, the first edge f = s(x, y) that leaves S (x in S, y not in S) has
  the property that par v reaches x and y reaches v without using f
  (`exists_crossing_edge`).  By (greedy) w (par v) v <= w x y.  H_{t+1} := H_t - f + s(par v, v)
  (`swapEdge`).  It is connected, because every use of f can be rerouted
  x ~> par v -- v ~> y (`swapEdge_connected`); it is not heavier (`wt_swapEdge_le`); and it
  still contains the earlier tree edges, because both end points of those lie in S whereas y
  does not, so f is none of them.  For t beyond the largest position all tree edges are
  edges of one connected graph H of weight <= weight G; they are pairwise different
  (`treeEdge_injOn`: v is the end point of s(par v, v) with the larger position), so their
  total length is a sub-sum of weight H, and nonnegativity finishes the proof.
-/
import Mathlib.Combinatorics.SimpleGraph.Connectivity.Connected
import Mathlib.Combinatorics.SimpleGraph.DeleteEdges
import Mathlib.Combinatorics.SimpleGraph.Finite
import Mathlib.Algebra.Order.BigOperators.Group.Finset
import Mathlib.Data.Real.Basic

namespace PrimC17

open Finset

variable {V : Type*}

/-! ### 1. The first edge of a simple path that leaves a vertex set -/

/-- If a simple path of `H` starts inside `S` and ends outside `S`, then it contains an edge
`s(x, y)` with `x ∈ S`, `y ∉ S` such that the start reaches `x` and `y` reaches the end
without using that edge (namely along the two pieces of the path). -/
theorem exists_crossing_edge (H : SimpleGraph V) (S : Set V) :
    ∀ {a b : V} (p : H.Walk a b), p.IsPath → a ∈ S → b ∉ S →
      ∃ x y, x ∈ S ∧ y ∉ S ∧ H.Adj x y ∧
        (H.deleteEdges {s(x, y)}).Reachable a x ∧ (H.deleteEdges {s(x, y)}).Reachable y b := by
  intro a b p
  induction p with
  | nil => intro _ ha hb; exact absurd ha hb
  | @cons a c b h p ih =>
    intro hp ha hb
    rw [SimpleGraph.Walk.cons_isPath_iff] at hp
    obtain ⟨hp', hnot⟩ := hp
    by_cases hc : c ∈ S
    · -- the first step stays inside `S`: use the crossing edge of the rest of the path
      obtain ⟨x, y, hx, hy, hxy, h1, h2⟩ := ih hp' hc hb
      refine ⟨x, y, hx, hy, hxy, ?_, h2⟩
      refine SimpleGraph.Reachable.trans (SimpleGraph.Adj.reachable ?_) h1
      rw [SimpleGraph.deleteEdges_adj]
      refine ⟨h, ?_⟩
      simp only [Set.mem_singleton_iff, Sym2.eq_iff]
      rintro (⟨rfl, rfl⟩ | ⟨rfl, rfl⟩)
      · exact hy hc
      · exact hy ha
    · -- the first step leaves `S`: it is the crossing edge; the rest of the path never
      -- comes back to `a`, hence never uses the edge `s(a, c)`
      refine ⟨a, c, ha, hc, h, SimpleGraph.Reachable.refl _, ?_⟩
      exact ⟨p.toDeleteEdge _ (fun he => hnot (p.fst_mem_support_of_mem_edges he))⟩

/-! ### 2. Exchanging one edge for another -/

/-- `H` with the edge `f` removed and the edge `e` added. -/
def swapEdge (H : SimpleGraph V) (f e : Sym2 V) : SimpleGraph V :=
  H.deleteEdges {f} ⊔ SimpleGraph.fromEdgeSet {e}

theorem swapEdge_adj {H : SimpleGraph V} {f e : Sym2 V} {a b : V} :
    (swapEdge H f e).Adj a b ↔ (H.Adj a b ∧ s(a, b) ≠ f) ∨ (s(a, b) = e ∧ a ≠ b) := by
  simp [swapEdge]

theorem mem_edgeSet_swapEdge {H : SimpleGraph V} {f e e' : Sym2 V} :
    e' ∈ (swapEdge H f e).edgeSet ↔ (e' ∈ H.edgeSet ∧ e' ≠ f) ∨ (e' = e ∧ ¬ e'.IsDiag) := by
  induction e' using Sym2.ind with
  | _ a b => simp [swapEdge_adj]

/-- Removing `s(x, y)` and adding `s(p, v)` keeps a connected graph connected, provided that
`p` reaches `x` and `y` reaches `v` without the removed edge. -/
theorem swapEdge_connected {H : SimpleGraph V} (hH : H.Connected) {x y p v : V} (hpv : p ≠ v)
    (h1 : (H.deleteEdges {s(x, y)}).Reachable p x)
    (h2 : (H.deleteEdges {s(x, y)}).Reachable y v) :
    (swapEdge H s(x, y) s(p, v)).Connected := by
  have hle : H.deleteEdges {s(x, y)} ≤ swapEdge H s(x, y) s(p, v) := le_sup_left
  have hxy : (swapEdge H s(x, y) s(p, v)).Reachable x y :=
    ((h1.mono hle).symm.trans
      (SimpleGraph.Adj.reachable (swapEdge_adj.2 (Or.inr ⟨rfl, hpv⟩)))).trans (h2.mono hle).symm
  have := hH.nonempty
  refine ⟨fun a b => ?_⟩
  obtain ⟨q⟩ := hH a b
  induction q with
  | nil => exact SimpleGraph.Reachable.refl _
  | @cons a c b h q ih =>
    refine SimpleGraph.Reachable.trans ?_ ih
    by_cases hf : s(a, c) = s(x, y)
    · rcases Sym2.eq_iff.1 hf with ⟨rfl, rfl⟩ | ⟨rfl, rfl⟩
      exacts [hxy, hxy.symm]
    · exact SimpleGraph.Adj.reachable (swapEdge_adj.2 (Or.inl ⟨h, hf⟩))

open Classical in
/-- Total weight of a graph: the sum of `w'` over its edges (the same number as
`∑ e ∈ H.edgeFinset, w' e`, see `wt_eq_sum_edgeFinset`, but without the need for a
`Fintype H.edgeSet` instance). -/
noncomputable def wt [Fintype V] (w' : Sym2 V → ℝ) (H : SimpleGraph V) : ℝ :=
  ∑ e ∈ univ.filter (fun e => e ∈ H.edgeSet), w' e

theorem wt_eq_sum_edgeFinset [Fintype V] (w' : Sym2 V → ℝ) (H : SimpleGraph V)
    [Fintype H.edgeSet] : wt w' H = ∑ e ∈ H.edgeFinset, w' e := by
  classical
  unfold wt
  congr 1
  ext e
  simp

/-- Exchanging an edge `f` of `H` for a non-edge `e` that is not heavier does not increase the
total weight. -/
theorem wt_swapEdge_le [Fintype V] (w' : Sym2 V → ℝ) {H : SimpleGraph V} {f e : Sym2 V}
    (hf : f ∈ H.edgeSet) (he : e ∉ H.edgeSet) (hd : ¬ e.IsDiag) (hle : w' e ≤ w' f) :
    wt w' (swapEdge H f e) ≤ wt w' H := by
  classical
  unfold wt
  have hset : univ.filter (fun e' => e' ∈ (swapEdge H f e).edgeSet)
      = insert e ((univ.filter (fun e' => e' ∈ H.edgeSet)).erase f) := by
    ext e'
    simp only [mem_filter, mem_univ, true_and, mem_insert, mem_erase, mem_edgeSet_swapEdge]
    constructor
    · rintro (⟨h1, h2⟩ | ⟨h1, _⟩)
      · exact Or.inr ⟨h2, h1⟩
      · exact Or.inl h1
    · rintro (h1 | ⟨h2, h1⟩)
      · exact Or.inr ⟨h1, h1 ▸ hd⟩
      · exact Or.inl ⟨h1, h2⟩
  have hnot : e ∉ (univ.filter (fun e' => e' ∈ H.edgeSet)).erase f := by
    simp [he]
  have hfm : f ∈ univ.filter (fun e' => e' ∈ H.edgeSet) := by simp [hf]
  rw [hset, sum_insert hnot, ← add_sum_erase _ _ hfm]
  exact add_le_add_left hle _

/-! ### 3. The exchange argument -/

/-- For every bound `t` there is a connected graph, not heavier than `G`, that contains the tree
edge `s(par v, v)` of every non-root vertex `v` with `pos v < t`. -/
theorem exists_graph_with_tree_edges [Fintype V] (w : V → V → ℝ) (hsymm : ∀ a b, w a b = w b a)
    (root : V) (par : V → V) (pos : V → ℕ)
    (hinj : Function.Injective pos)
    (hpar : ∀ v, v ≠ root → pos (par v) < pos v)
    (hgreedy : ∀ v, v ≠ root → ∀ a b, pos a < pos v → pos v ≤ pos b → w (par v) v ≤ w a b)
    (G : SimpleGraph V) (hG : G.Connected) (t : ℕ) :
    ∃ H : SimpleGraph V, H.Connected ∧
      wt (Sym2.lift ⟨w, hsymm⟩) H ≤ wt (Sym2.lift ⟨w, hsymm⟩) G ∧
      ∀ v, v ≠ root → pos v < t → H.Adj (par v) v := by
  induction t with
  | zero => exact ⟨G, hG, le_refl _, fun v _ h => absurd h (Nat.not_lt_zero _)⟩
  | succ t ih =>
    obtain ⟨H, hHc, hHw, hHt⟩ := ih
    by_cases hex : ∃ v, v ≠ root ∧ pos v = t ∧ ¬ H.Adj (par v) v
    · obtain ⟨v, hv, hvt, hnadj⟩ := hex
      have hpv : pos (par v) < pos v := hpar v hv
      have hne : par v ≠ v := fun h => by rw [h] at hpv; exact lt_irrefl _ hpv
      obtain ⟨p, hp⟩ := (hHc (par v) v).exists_isPath
      obtain ⟨x, y, hx, hy, hxy, h1, h2⟩ :=
        exists_crossing_edge H {u | pos u < pos v} p hp hpv (lt_irrefl (pos v))
      have hx' : pos x < pos v := hx
      have hy' : pos v ≤ pos y := not_lt.1 hy
      refine ⟨swapEdge H s(x, y) s(par v, v), swapEdge_connected hHc hne h1 h2, ?_, ?_⟩
      · refine le_trans (wt_swapEdge_le _ ?_ ?_ ?_ ?_) hHw
        · exact (SimpleGraph.mem_edgeSet H).2 hxy
        · exact fun h => hnadj ((SimpleGraph.mem_edgeSet H).1 h)
        · exact fun h => hne (Sym2.mk_isDiag_iff.1 h)
        · simpa using hgreedy v hv x y hx' hy'
      · intro u hu hut
        rw [swapEdge_adj]
        rcases Nat.lt_succ_iff_lt_or_eq.1 hut with hlt | heq
        · -- an earlier tree edge: both end points lie before `v`, `y` does not
          left
          refine ⟨hHt u hu hlt, ?_⟩
          rw [hvt] at hy'
          have h3 : pos (par u) < pos u := hpar u hu
          intro h
          rcases Sym2.eq_iff.1 h with ⟨_, h5⟩ | ⟨h4, _⟩
          · rw [h5] at hlt; exact absurd hlt (not_lt.2 hy')
          · rw [h4] at h3; exact absurd (h3.trans hlt) (not_lt.2 hy')
        · -- the new tree edge
          right
          have : u = v := hinj (heq.trans hvt.symm)
          subst this
          exact ⟨rfl, hne⟩
    · refine ⟨H, hHc, hHw, ?_⟩
      intro u hu hut
      rcases Nat.lt_succ_iff_lt_or_eq.1 hut with hlt | heq
      · exact hHt u hu hlt
      · by_contra hcon
        exact hex ⟨u, hu, heq, hcon⟩

/-- Different non-root vertices have different tree edges (`v` is the end point of
`s(par v, v)` with the larger position). -/
theorem treeEdge_injOn (root : V) (par : V → V) (pos : V → ℕ)
    (hpar : ∀ v, v ≠ root → pos (par v) < pos v) :
    ∀ u, u ≠ root → ∀ v, v ≠ root → s(par u, u) = s(par v, v) → u = v := by
  intro u hu v hv h
  have h1 := hpar u hu
  have h2 := hpar v hv
  rcases Sym2.eq_iff.1 h with ⟨_, h4⟩ | ⟨h3, h4⟩
  · exact h4
  · rw [h3, h4] at h1
    exact absurd (h1.trans h2) (lt_irrefl _)

/-! ### 4. The main theorem -/

/-- **Cut property / correctness of Prim's greedy rule.**  If every non-root vertex `v` was
attached (at position `pos v`, to the earlier vertex `par v`) by a lightest edge across the cut
{attached before `v`} | {the rest}, then the total length of the parent-table tree is at most
the total length of every connected graph on `V`, in particular of every spanning tree. -/
theorem prim_tree_is_minimum [Fintype V] [DecidableEq V]
    (w : V → V → ℝ) (hsymm : ∀ a b, w a b = w b a) (hnonneg : ∀ a b, 0 ≤ w a b)
    (root : V) (par : V → V) (pos : V → ℕ)
    (hinj : Function.Injective pos)
    (hpar : ∀ v, v ≠ root → pos (par v) < pos v)
    (hgreedy : ∀ v, v ≠ root → ∀ a b, pos a < pos v → pos v ≤ pos b → w (par v) v ≤ w a b)
    (G : SimpleGraph V) [Fintype G.edgeSet] (hG : G.Connected) :
    ∑ v ∈ univ.filter (fun v => v ≠ root), w (par v) v
      ≤ ∑ e ∈ G.edgeFinset, Sym2.lift ⟨w, hsymm⟩ e := by
  classical
  obtain ⟨H, _, hHw, hHt⟩ := exists_graph_with_tree_edges w hsymm root par pos hinj hpar hgreedy
    G hG (univ.sup pos + 1)
  rw [← wt_eq_sum_edgeFinset]
  refine le_trans ?_ hHw
  have hinjOn : Set.InjOn (fun v => s(par v, v)) (univ.filter (fun v => v ≠ root) : Finset V) := by
    intro u hu v hv h
    exact treeEdge_injOn root par pos hpar u (by simpa using hu) v (by simpa using hv) h
  have himg : ∑ v ∈ univ.filter (fun v => v ≠ root), w (par v) v
      = ∑ e ∈ (univ.filter (fun v => v ≠ root)).image (fun v => s(par v, v)),
          Sym2.lift ⟨w, hsymm⟩ e := by
    rw [sum_image hinjOn]
    simp
  rw [himg]
  unfold wt
  apply sum_le_sum_of_subset_of_nonneg
  · intro e he
    simp only [mem_image, mem_filter, mem_univ, true_and] at he ⊢
    obtain ⟨v, hv, rfl⟩ := he
    exact (SimpleGraph.mem_edgeSet H).2
      (hHt v hv (Nat.lt_succ_of_le (le_sup (f := pos) (mem_univ v))))
  · intro e _ _
    induction e using Sym2.ind with
    | _ a b => simpa using hnonneg a b

/-! ### 5. The tree is itself one of the competitors -/

/-- The graph of the parent table: its edges are `s(par v, v)` for `v ≠ root`. -/
def treeGraph (root : V) (par : V → V) : SimpleGraph V :=
  SimpleGraph.fromEdgeSet {e | ∃ v, v ≠ root ∧ e = s(par v, v)}

theorem treeGraph_adj {root : V} {par : V → V} {a b : V} :
    (treeGraph root par).Adj a b ↔ (∃ v, v ≠ root ∧ s(a, b) = s(par v, v)) ∧ a ≠ b := by
  unfold treeGraph
  rw [SimpleGraph.fromEdgeSet_adj]
  rfl

/-- Under (parents-first) the parent-table graph is connected: every vertex reaches the root
(strong induction on `pos`). -/
theorem prim_tree_connected (root : V) (par : V → V) (pos : V → ℕ)
    (hpar : ∀ v, v ≠ root → pos (par v) < pos v) :
    (treeGraph root par).Connected := by
  have key : ∀ n v, pos v = n → (treeGraph root par).Reachable v root := by
    intro n
    induction n using Nat.strongRecOn with
    | _ n ih =>
      intro v hv
      by_cases hvr : v = root
      · rw [hvr]
      · have hlt : pos (par v) < pos v := hpar v hvr
        have hne : par v ≠ v := fun h => by rw [h] at hlt; exact lt_irrefl _ hlt
        refine SimpleGraph.Reachable.trans (SimpleGraph.Adj.reachable ?_)
          (ih (pos (par v)) (hv ▸ hlt) (par v) rfl)
        rw [treeGraph_adj]
        exact ⟨⟨v, hvr, Sym2.eq_swap⟩, hne.symm⟩
  have : Nonempty V := ⟨root⟩
  exact ⟨fun a b => (key _ a rfl).trans (key _ b rfl).symm⟩

/-- The edge-length sum of the parent-table graph is the number bounded in
`prim_tree_is_minimum`. -/
theorem prim_tree_weight_eq [Fintype V] [DecidableEq V]
    (w : V → V → ℝ) (hsymm : ∀ a b, w a b = w b a)
    (root : V) (par : V → V) (pos : V → ℕ)
    (hpar : ∀ v, v ≠ root → pos (par v) < pos v)
    [Fintype (treeGraph root par).edgeSet] :
    ∑ e ∈ (treeGraph root par).edgeFinset, Sym2.lift ⟨w, hsymm⟩ e
      = ∑ v ∈ univ.filter (fun v => v ≠ root), w (par v) v := by
  have hset : (treeGraph root par).edgeFinset
      = (univ.filter (fun v => v ≠ root)).image (fun v => s(par v, v)) := by
    ext e
    induction e using Sym2.ind with
    | _ a b =>
      rw [SimpleGraph.mem_edgeFinset, SimpleGraph.mem_edgeSet, treeGraph_adj]
      simp only [mem_image, mem_filter, mem_univ, true_and]
      constructor
      · rintro ⟨⟨v, hv, h⟩, _⟩
        exact ⟨v, hv, h.symm⟩
      · rintro ⟨v, hv, h⟩
        refine ⟨⟨v, hv, h.symm⟩, ?_⟩
        have hlt : pos (par v) < pos v := hpar v hv
        rcases Sym2.eq_iff.1 h with ⟨h1, h2⟩ | ⟨h1, h2⟩
        · rw [← h1, ← h2]; intro h3; rw [h3] at hlt; exact lt_irrefl _ hlt
        · rw [← h1, ← h2]; intro h3; rw [← h3] at hlt; exact lt_irrefl _ hlt
  have hinjOn : Set.InjOn (fun v => s(par v, v)) (univ.filter (fun v => v ≠ root) : Finset V) := by
    intro u hu v hv h
    exact treeEdge_injOn root par pos hpar u (by simpa using hu) v (by simpa using hv) h
  rw [hset, sum_image hinjOn]
  simp

/-- Hypothesis (first) in its order form is a consequence of (parents-first): the root has the
smallest position. -/
theorem prim_root_first (root : V) (par : V → V) (pos : V → ℕ)
    (hpar : ∀ v, v ≠ root → pos (par v) < pos v) :
    ∀ v, v ≠ root → pos root < pos v := by
  have key : ∀ n v, pos v = n → v ≠ root → pos root < pos v := by
    intro n
    induction n using Nat.strongRecOn with
    | _ n ih =>
      intro v hv hvr
      have hlt : pos (par v) < pos v := hpar v hvr
      by_cases hp : par v = root
      · rw [← hp]; exact hlt
      · exact (ih (pos (par v)) (hv ▸ hlt) (par v) rfl hp).trans hlt
  exact fun v hv => key _ v rfl hv

/-- Summary: the parent-table tree is a connected graph on `V` and no connected graph on `V` has
a smaller total length, i.e. its total length is that of a minimum spanning tree. -/
theorem prim_tree_total_is_least [Fintype V] [DecidableEq V]
    (w : V → V → ℝ) (hsymm : ∀ a b, w a b = w b a) (hnonneg : ∀ a b, 0 ≤ w a b)
    (root : V) (par : V → V) (pos : V → ℕ)
    (hinj : Function.Injective pos)
    (hpar : ∀ v, v ≠ root → pos (par v) < pos v)
    (hgreedy : ∀ v, v ≠ root → ∀ a b, pos a < pos v → pos v ≤ pos b → w (par v) v ≤ w a b)
    [Fintype (treeGraph root par).edgeSet] :
    (treeGraph root par).Connected ∧
      ∀ (G : SimpleGraph V) [Fintype G.edgeSet], G.Connected →
        ∑ e ∈ (treeGraph root par).edgeFinset, Sym2.lift ⟨w, hsymm⟩ e
          ≤ ∑ e ∈ G.edgeFinset, Sym2.lift ⟨w, hsymm⟩ e := by
  refine ⟨prim_tree_connected root par pos hpar, fun G _ hG => ?_⟩
  rw [prim_tree_weight_eq w hsymm root par pos hpar]
  exact prim_tree_is_minimum w hsymm hnonneg root par pos hinj hpar hgreedy G hG

end PrimC17
