/-
  Soundness of the TRAVERSE CLIENT RULE (pyvc/traverse_rule.py), checked with `lean lean/TraverseRule.lean`
  (core Lean 4 only, no Mathlib).

  What contracts/C04.py proves about `_traverse_dfs` (for any tree, start node r and callbacks f = enter, g = leave) is a
  statement about the SEQUENCE OF CALLBACK CALLS: every call is an "enabled" event

     enter x pre : x lies in the subtree, x was not entered before, and either x = r and pre = none, or the parent p of x was
                   entered and not yet left and pre = the value p's enter call returned;
     leave x args: x was entered and not yet left, all children of x were left, and args = the values the children's leave
                   calls returned, in child order;

  nothing but these calls touches the client's state, and at the end every subtree node was entered and left and the result
  is the value of r's leave call.  `Step` below is exactly one such event (the client state σ is threaded through the real
  callbacks f and g), `Reach` is "reachable by a finite sequence of events".

  The client rule lets a caller reason WITHOUT the traversal: from
     init   J ∅ ∅ σ₀
     enter  for ANY state with J (and the structural facts LEFT ⊆ ENT ⊆ Sub, ENT closed under parents) and any enabled x
            whose incoming value satisfies Qe(parent, ·):   J (ENT + x) LEFT (state after f)  ∧  Qe x (value returned)
     leave  for ANY state with J and any enabled x whose children's values satisfy Ql:   J ENT (LEFT + x) (state after g)  ∧  Ql x (value)
  conclude, for the final state:   J Sub Sub σ  ∧  Ql r (result).
  Qe / Ql may read the client's state provided they are STABLE: once true of a node entered (left) and a value, they stay true
  through every later callback call (premises `∀ y v, E y → Qe σ y v → Qe σ' y v`, likewise Ql); predicates that do not read
  callback-modified state at all are the special case the rule implementation recognises syntactically.

  `traverse_rule_sound` is that statement.  The link between this schema and the first-order obligations the engine emits
  (init / enter-step / leave-step, conclusion assumed afterwards) is by inspection of pyvc/traverse_rule.py.
-/

namespace TraverseRule

variable {α V W S : Type} [DecidableEq α]

/-- ghost state of a traversal in progress: entered / left sets, the values returned so far, the client's state -/
structure St (α V W S : Type) where
  ent : α → Prop
  left : α → Prop
  vE : α → V
  vL : α → W
  σ : S

variable (parent : α → Option α) (kids : α → List α) (Sub : α → Prop) (r : α)
variable (f : S → α → Option V → S × V) (g : S → α → List W → S × W)

/-- one callback call made by the traversal (what the contract of `_traverse_dfs` allows) -/
inductive Step : St α V W S → St α V W S → Prop
  | enter (s : St α V W S) (x : α) (pre : Option V) :
      Sub x → ¬ s.ent x →
      ((x = r ∧ pre = none) ∨ (x ≠ r ∧ ∃ p, parent x = some p ∧ s.ent p ∧ ¬ s.left p ∧ pre = some (s.vE p))) →
      Step s { ent := fun y => y = x ∨ s.ent y, left := s.left,
               vE := fun y => if y = x then (f s.σ x pre).2 else s.vE y, vL := s.vL, σ := (f s.σ x pre).1 }
  | leave (s : St α V W S) (x : α) :
      s.ent x → ¬ s.left x → (∀ c, c ∈ kids x → s.left c) →
      Step s { ent := s.ent, left := fun y => y = x ∨ s.left y, vE := s.vE,
               vL := fun y => if y = x then (g s.σ x ((kids x).map s.vL)).2 else s.vL y,
               σ := (g s.σ x ((kids x).map s.vL)).1 }

/-- reachable from the initial state by finitely many callback calls -/
inductive Reach (s0 : St α V W S) : St α V W S → Prop
  | refl : Reach s0 s0
  | step {s t : St α V W S} : Reach s0 s → Step parent kids Sub r f g s t → Reach s0 t

/-- the invariant carried along the run -/
def Inv (J : (α → Prop) → (α → Prop) → S → Prop) (Qe : S → α → V → Prop) (Ql : S → α → W → Prop) (s : St α V W S) : Prop :=
  J s.ent s.left s.σ ∧
  (∀ x, s.left x → s.ent x) ∧
  (∀ x, s.ent x → Sub x) ∧
  (∀ x p, s.ent x → x ≠ r → parent x = some p → s.ent p) ∧
  (∀ x p, s.ent x → ¬ s.left x → x ≠ r → parent x = some p → ¬ s.left p) ∧
  (∀ x, s.ent x → Qe s.σ x (s.vE x)) ∧
  (∀ x, s.left x → Ql s.σ x (s.vL x))

/-- Soundness of the client rule: the three premises make `Inv` an invariant of every run the traversal contract allows. -/
theorem inv_of_reach
    (J : (α → Prop) → (α → Prop) → S → Prop) (Qe : S → α → V → Prop) (Ql : S → α → W → Prop)
    (s0 : St α V W S)
    -- structure of the tree: the children lists are consistent with the parent function inside the subtree
    (hkids : ∀ x p, Sub x → x ≠ r → parent x = some p → x ∈ kids p)
    -- initial state: nothing entered, nothing left
    (h0e : ∀ x, ¬ s0.ent x) (h0l : ∀ x, ¬ s0.left x)
    (hInit : J s0.ent s0.left s0.σ)
    -- enter step of the rule
    (hEnter : ∀ (E L : α → Prop) (σ : S) (x : α) (pre : Option V),
        J E L σ → (∀ c, L c → E c) → (∀ c, E c → Sub c) → (∀ c p, E c → c ≠ r → parent c = some p → E p) →
        Sub x → ¬ E x → ¬ L x →
        ((x = r ∧ pre = none) ∨ (x ≠ r ∧ ∃ p v, parent x = some p ∧ E p ∧ ¬ L p ∧ pre = some v ∧ Qe σ p v)) →
        J (fun y => y = x ∨ E y) L (f σ x pre).1 ∧ Qe (f σ x pre).1 x (f σ x pre).2 ∧
        (∀ y v, E y → Qe σ y v → Qe (f σ x pre).1 y v) ∧ (∀ y w, L y → Ql σ y w → Ql (f σ x pre).1 y w))
    -- leave step of the rule
    (hLeave : ∀ (E L : α → Prop) (σ : S) (x : α) (wv : α → W),
        J E L σ → (∀ c, L c → E c) → (∀ c, E c → Sub c) → (∀ c p, E c → c ≠ r → parent c = some p → E p) →
        E x → ¬ L x → (∀ c, c ∈ kids x → E c ∧ L c) →
        (∀ p, x ≠ r → parent x = some p → E p ∧ ¬ L p) →
        (∀ c, c ∈ kids x → Ql σ c (wv c)) →
        J E (fun y => y = x ∨ L y) (g σ x ((kids x).map wv)).1 ∧ Ql (g σ x ((kids x).map wv)).1 x (g σ x ((kids x).map wv)).2 ∧
        (∀ y v, E y → Qe σ y v → Qe (g σ x ((kids x).map wv)).1 y v) ∧ (∀ y w, L y → Ql σ y w → Ql (g σ x ((kids x).map wv)).1 y w))
    (s : St α V W S) (hr : Reach parent kids Sub r f g s0 s) :
    Inv parent Sub r J Qe Ql s := by
  induction hr with
  | refl =>
    refine ⟨hInit, ?_, ?_, ?_, ?_, ?_, ?_⟩
    · intro x hx; exact absurd hx (h0l x)
    · intro x hx; exact absurd hx (h0e x)
    · intro x p hx; exact absurd hx (h0e x)
    · intro x p hx; exact absurd hx (h0e x)
    · intro x hx; exact absurd hx (h0e x)
    · intro x hx; exact absurd hx (h0l x)
  | @step s t _ hstep ih =>
    obtain ⟨hJ, hLE, hES, hEP, hNL, hQe, hQl⟩ := ih
    cases hstep with
    | enter x pre hsub hnot hpre =>
      have hnl : ¬ s.left x := fun h => hnot (hLE x h)
      have hpre' : (x = r ∧ pre = none) ∨ (x ≠ r ∧ ∃ p v, parent x = some p ∧ s.ent p ∧ ¬ s.left p ∧ pre = some v ∧ Qe s.σ p v) := by
        cases hpre with
        | inl h => exact Or.inl h
        | inr h =>
          obtain ⟨hne, p, hp, hpe, hpl, hv⟩ := h
          exact Or.inr ⟨hne, p, s.vE p, hp, hpe, hpl, hv, hQe p hpe⟩
      have hstepJ := hEnter s.ent s.left s.σ x pre hJ hLE hES hEP hsub hnot hnl hpre'
      refine ⟨hstepJ.1, ?_, ?_, ?_, ?_, ?_, ?_⟩
      · intro y hy; exact Or.inr (hLE y hy)
      · intro y hy
        cases hy with
        | inl h => rw [h]; exact hsub
        | inr h => exact hES y h
      · intro y p hy hne hp
        cases hy with
        | inl h =>
          subst h
          cases hpre with
          | inl h' => exact absurd h'.1 hne
          | inr h' =>
            obtain ⟨_, q, hq, hqe, _, _⟩ := h'
            rw [hq] at hp
            cases hp
            exact Or.inr hqe
        | inr h => exact Or.inr (hEP y p h hne hp)
      · intro y p hy hnly hne hp
        cases hy with
        | inl h =>
          subst h
          cases hpre with
          | inl h' => exact absurd h'.1 hne
          | inr h' =>
            obtain ⟨_, q, hq, _, hql, _⟩ := h'
            rw [hq] at hp
            cases hp
            exact hql
        | inr h => exact hNL y p h hnly hne hp
      · intro y hy
        show Qe (f s.σ x pre).1 y (if y = x then (f s.σ x pre).2 else s.vE y)
        by_cases hyx : y = x
        · rw [if_pos hyx, hyx]; exact hstepJ.2.1
        · rw [if_neg hyx]
          cases hy with
          | inl h => exact absurd h hyx
          | inr h => exact hstepJ.2.2.1 y (s.vE y) h (hQe y h)
      · intro y hy; exact hstepJ.2.2.2 y (s.vL y) hy (hQl y hy)
    | leave x hent hnl hk =>
      have hkids' : ∀ c, c ∈ kids x → s.ent c ∧ s.left c := fun c hc => ⟨hLE c (hk c hc), hk c hc⟩
      have hpar : ∀ p, x ≠ r → parent x = some p → s.ent p ∧ ¬ s.left p :=
        fun p hne hp => ⟨hEP x p hent hne hp, hNL x p hent hnl hne hp⟩
      have hvals : ∀ c, c ∈ kids x → Ql s.σ c (s.vL c) := fun c hc => hQl c (hk c hc)
      have hstepJ := hLeave s.ent s.left s.σ x s.vL hJ hLE hES hEP hent hnl hkids' hpar hvals
      refine ⟨hstepJ.1, ?_, ?_, ?_, ?_, ?_, ?_⟩
      · intro y hy
        cases hy with
        | inl h => rw [h]; exact hent
        | inr h => exact hLE y h
      · exact hES
      · exact hEP
      · intro y p hy hnly hne hp hpl
        have hnly' : ¬ s.left y := fun h => hnly (Or.inr h)
        cases hpl with
        | inl h =>
          -- the node being left is y's parent: then y is one of its children, all of which are left already
          subst h
          have : y ∈ kids p := hkids y p (hES y hy) hne hp
          exact hnly' (hk y this)
        | inr h => exact hNL y p hy hnly' hne hp h
      · intro y hy; exact hstepJ.2.2.1 y (s.vE y) hy (hQe y hy)
      · intro y hy
        show Ql (g s.σ x ((kids x).map s.vL)).1 y (if y = x then (g s.σ x ((kids x).map s.vL)).2 else s.vL y)
        by_cases hyx : y = x
        · rw [if_pos hyx, hyx]; exact hstepJ.2.1
        · rw [if_neg hyx]
          cases hy with
          | inl h => exact absurd h hyx
          | inr h => exact hstepJ.2.2.2 y (s.vL y) h (hQl y h)

/-- The conclusion the rule assumes after the call: when the run ends with every subtree node entered and left,
    `J Sub Sub σ` holds and the value of the start node's leave call satisfies `Ql`. -/
theorem traverse_rule_sound
    (J : (α → Prop) → (α → Prop) → S → Prop) (Qe : S → α → V → Prop) (Ql : S → α → W → Prop)
    (s0 : St α V W S)
    (hkids : ∀ x p, Sub x → x ≠ r → parent x = some p → x ∈ kids p)
    (h0e : ∀ x, ¬ s0.ent x) (h0l : ∀ x, ¬ s0.left x)
    (hInit : J s0.ent s0.left s0.σ)
    (hEnter : ∀ (E L : α → Prop) (σ : S) (x : α) (pre : Option V),
        J E L σ → (∀ c, L c → E c) → (∀ c, E c → Sub c) → (∀ c p, E c → c ≠ r → parent c = some p → E p) →
        Sub x → ¬ E x → ¬ L x →
        ((x = r ∧ pre = none) ∨ (x ≠ r ∧ ∃ p v, parent x = some p ∧ E p ∧ ¬ L p ∧ pre = some v ∧ Qe σ p v)) →
        J (fun y => y = x ∨ E y) L (f σ x pre).1 ∧ Qe (f σ x pre).1 x (f σ x pre).2 ∧
        (∀ y v, E y → Qe σ y v → Qe (f σ x pre).1 y v) ∧ (∀ y w, L y → Ql σ y w → Ql (f σ x pre).1 y w))
    (hLeave : ∀ (E L : α → Prop) (σ : S) (x : α) (wv : α → W),
        J E L σ → (∀ c, L c → E c) → (∀ c, E c → Sub c) → (∀ c p, E c → c ≠ r → parent c = some p → E p) →
        E x → ¬ L x → (∀ c, c ∈ kids x → E c ∧ L c) →
        (∀ p, x ≠ r → parent x = some p → E p ∧ ¬ L p) →
        (∀ c, c ∈ kids x → Ql σ c (wv c)) →
        J E (fun y => y = x ∨ L y) (g σ x ((kids x).map wv)).1 ∧ Ql (g σ x ((kids x).map wv)).1 x (g σ x ((kids x).map wv)).2 ∧
        (∀ y v, E y → Qe σ y v → Qe (g σ x ((kids x).map wv)).1 y v) ∧ (∀ y w, L y → Ql σ y w → Ql (g σ x ((kids x).map wv)).1 y w))
    (s : St α V W S) (hr : Reach parent kids Sub r f g s0 s)
    (hallE : ∀ x, s.ent x ↔ Sub x) (hallL : ∀ x, s.left x ↔ Sub x) (hroot : Sub r) :
    J Sub Sub s.σ ∧ Ql s.σ r (s.vL r) := by
  have hinv := inv_of_reach parent kids Sub r f g J Qe Ql s0 hkids h0e h0l hInit hEnter hLeave s hr
  obtain ⟨hJ, _, _, _, _, _, hQl⟩ := hinv
  have e1 : s.ent = Sub := funext (fun x => propext (hallE x))
  have e2 : s.left = Sub := funext (fun x => propext (hallL x))
  rw [e1, e2] at hJ
  exact ⟨hJ, hQl r ((hallL r).mpr hroot)⟩

end TraverseRule
