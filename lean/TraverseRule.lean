/-
  Soundness of the TRAVERSE CLIENT RULE (pyvc/traverse_rule.py), checked with `lean lean/TraverseRule.lean`
  (core Lean 4 only, no Mathlib; the file declares nothing it does not prove).

  WHAT IS PROVED HERE.  An abstract EVENT MODEL of a traversal: a tree given by `parent` / `kids` / `Sub` (subtree of the start
  node `r`), client callbacks `f` (enter) and `g` (leave) that thread a client state σ, and the relation

     Step s t     one callback call in ghost state s = (ent, left, vE, vL, σ):
       enter x pre : Sub x,  x not entered before,  and either  x = r ∧ pre = none
                     or  x ≠ r ∧ the parent p of x is entered and NOT YET LEFT ∧ pre = the value p's enter call returned;
       leave x     : x entered and not left before,  every child of x already left,  and the argument list is
                     (kids x).map vL  = the values the children's leave calls returned, in child order;
     Reach s0 s   s is reached from s0 by finitely many such calls.

  Theorems (all about this model, for arbitrary types, trees, callbacks and predicates):
     inv_of_reach                  the three premises of the client rule (init / enter step / leave step, with the structural
                                   facts LEFT ⊆ ENT ⊆ Sub, ENT parent-closed, and stability of Qe / Ql) make
                                   `Inv` = J ∧ structure ∧ "Qe of every entered node's value" ∧ "Ql of every left node's value"
                                   an invariant of every reachable state;
     traverse_rule_sound           hence, in a reachable state in which exactly the subtree is entered and left:
                                   J Sub Sub σ  ∧  Ql r (value of r's leave call)      -- the conclusion the rule assumes;
     traverse_rule_sound_no_enter  the same for a traversal without an enter callback (f := do nothing); the enter premise becomes
     traverse_rule_sound_no_leave  "J survives ENT + x in an unchanged state" (resp. LEFT + x): the SILENT-step obligations.

  WHAT IS NOT PROVED HERE, and where it is proved instead (`./check C04`, contracts/C04.py, on the real `_traverse_dfs`):
     * that every callback call the real function makes IS a `Step`:   obligations (kind `callback`, proved at the call from the
       loop invariants, for a table of symbolic size, any numbering, any start node)
          C04/_traverse_dfs/enter/called-for-a-node-of-the-subtree-not-entered-before
          C04/_traverse_dfs/enter/start-node-gets-None-any-other-node-the-value-its-parents-call-returned-and-the-parent-is-not-left-yet
          C04/_traverse_dfs/leave/called-for-an-entered-node-not-left-before-all-of-whose-children-are-left
          C04/_traverse_dfs/leave/receives-exactly-the-values-its-childrens-calls-returned-in-table-order
       = the premises of `Step.enter` / `Step.leave`, clause by clause (ent x / left x read as "the enter / leave callback was
       called with x": observation counters ecnt / lcnt; vE / vL = the observation arrays ev / lv; kids x = the rows naming x as
       parent in table order, rrow(x, 0 .. nch(x, n) - 1));
     * that nothing else touches the client's state between two callback calls: `_traverse_dfs` reads and writes only its own
       locals (children_map, stack, params, vals) - by inspection of the carrier, checked by the frame obligations (frozen inputs);
     * the end-state hypotheses hallE / hallL / result:   postconditions
          C04/_traverse_dfs/post/enter-exactly-once-per-subtree-node-and-never-outside,  .../leave-exactly-once-...,
          C04/_traverse_dfs/post/returns-the-start-nodes-value;
     * termination of the stack loop (needed for "the run ends"): NOT proved, bounded stand-in only.
  The link between the schema proved here and the first-order obligations pyvc/traverse_rule.py emits at a client's call site
  (hInit = .../traverse/init/..., hEnter = .../traverse/enter/invariant-preserved + returned-value-as-specified + stable/...,
  hLeave likewise, hSilent = .../invariant-preserved-where-no-...-callback-is-given; the hypotheses of hEnter / hLeave are exactly
  the facts `apply` assumes about the arbitrary ENT / LEFT / node / incoming values) is by inspection of that file: both are
  written from this text.  The client state σ of this model is the state named by `Rule(modifies=...)`: the rule havocs exactly that
  state before a step, and each step carries the frame obligation `.../callback-changes-only-the-state-the-rule-declares` (every
  other list / dict / array / object reachable from the carrier's frame, and every other local, is syntactically the same after
  the real callback and its ghost code; extension values of pyvc/ext_*.py that are not stock containers are not followed).
-/

namespace TraverseRule

variable {α V W S : Type} [DecidableEq α]

/-- ghost state of a traversal in progress: entered / left sets, the values returned so far, the client's state -/
structure St (α V W S : Type) where
  ent : α → Prop
  left : α → Prop
  vE : α → V
  vL : α → W
  σ : S

variable (parent : α → Option α) (kids : α → List α) (Sub : α → Prop) (r : α)
variable (f : S → α → Option V → S × V) (g : S → α → List W → S × W)

/-- one callback call made by the traversal (what the contract of `_traverse_dfs` allows) -/
inductive Step : St α V W S → St α V W S → Prop
  | enter (s : St α V W S) (x : α) (pre : Option V) :
      Sub x → ¬ s.ent x →
      ((x = r ∧ pre = none) ∨ (x ≠ r ∧ ∃ p, parent x = some p ∧ s.ent p ∧ ¬ s.left p ∧ pre = some (s.vE p))) →
      Step s { ent := fun y => y = x ∨ s.ent y, left := s.left,
               vE := fun y => if y = x then (f s.σ x pre).2 else s.vE y, vL := s.vL, σ := (f s.σ x pre).1 }
  | leave (s : St α V W S) (x : α) :
      s.ent x → ¬ s.left x → (∀ c, c ∈ kids x → s.left c) →
      Step s { ent := s.ent, left := fun y => y = x ∨ s.left y, vE := s.vE,
               vL := fun y => if y = x then (g s.σ x ((kids x).map s.vL)).2 else s.vL y,
               σ := (g s.σ x ((kids x).map s.vL)).1 }

/-- reachable from the initial state by finitely many callback calls -/
inductive Reach (s0 : St α V W S) : St α V W S → Prop
  | refl : Reach s0 s0
  | step {s t : St α V W S} : Reach s0 s → Step parent kids Sub r f g s t → Reach s0 t

/-- the invariant carried along the run -/
def Inv (J : (α → Prop) → (α → Prop) → S → Prop) (Qe : S → α → V → Prop) (Ql : S → α → W → Prop) (s : St α V W S) : Prop :=
  J s.ent s.left s.σ ∧
  (∀ x, s.left x → s.ent x) ∧
  (∀ x, s.ent x → Sub x) ∧
  (∀ x p, s.ent x → x ≠ r → parent x = some p → s.ent p) ∧
  (∀ x p, s.ent x → ¬ s.left x → x ≠ r → parent x = some p → ¬ s.left p) ∧
  (∀ x, s.ent x → Qe s.σ x (s.vE x)) ∧
  (∀ x, s.left x → Ql s.σ x (s.vL x))

/-- Soundness of the client rule: the three premises make `Inv` an invariant of every run the traversal contract allows. -/
theorem inv_of_reach
    (J : (α → Prop) → (α → Prop) → S → Prop) (Qe : S → α → V → Prop) (Ql : S → α → W → Prop)
    (s0 : St α V W S)
    -- structure of the tree: the children lists are consistent with the parent function inside the subtree
    (hkids : ∀ x p, Sub x → x ≠ r → parent x = some p → x ∈ kids p)
    -- initial state: nothing entered, nothing left
    (h0e : ∀ x, ¬ s0.ent x) (h0l : ∀ x, ¬ s0.left x)
    (hInit : J s0.ent s0.left s0.σ)
    -- enter step of the rule
    (hEnter : ∀ (E L : α → Prop) (σ : S) (x : α) (pre : Option V),
        J E L σ → (∀ c, L c → E c) → (∀ c, E c → Sub c) → (∀ c p, E c → c ≠ r → parent c = some p → E p) →
        Sub x → ¬ E x → ¬ L x →
        ((x = r ∧ pre = none) ∨ (x ≠ r ∧ ∃ p v, parent x = some p ∧ E p ∧ ¬ L p ∧ pre = some v ∧ Qe σ p v)) →
        J (fun y => y = x ∨ E y) L (f σ x pre).1 ∧ Qe (f σ x pre).1 x (f σ x pre).2 ∧
        (∀ y v, E y → Qe σ y v → Qe (f σ x pre).1 y v) ∧ (∀ y w, L y → Ql σ y w → Ql (f σ x pre).1 y w))
    -- leave step of the rule
    (hLeave : ∀ (E L : α → Prop) (σ : S) (x : α) (wv : α → W),
        J E L σ → (∀ c, L c → E c) → (∀ c, E c → Sub c) → (∀ c p, E c → c ≠ r → parent c = some p → E p) →
        E x → ¬ L x → (∀ c, c ∈ kids x → E c ∧ L c) →
        (∀ p, x ≠ r → parent x = some p → E p ∧ ¬ L p) →
        (∀ c, c ∈ kids x → Ql σ c (wv c)) →
        J E (fun y => y = x ∨ L y) (g σ x ((kids x).map wv)).1 ∧ Ql (g σ x ((kids x).map wv)).1 x (g σ x ((kids x).map wv)).2 ∧
        (∀ y v, E y → Qe σ y v → Qe (g σ x ((kids x).map wv)).1 y v) ∧ (∀ y w, L y → Ql σ y w → Ql (g σ x ((kids x).map wv)).1 y w))
    (s : St α V W S) (hr : Reach parent kids Sub r f g s0 s) :
    Inv parent Sub r J Qe Ql s := by
  induction hr with
  | refl =>
    refine ⟨hInit, ?_, ?_, ?_, ?_, ?_, ?_⟩
    · intro x hx; exact absurd hx (h0l x)
    · intro x hx; exact absurd hx (h0e x)
    · intro x p hx; exact absurd hx (h0e x)
    · intro x p hx; exact absurd hx (h0e x)
    · intro x hx; exact absurd hx (h0e x)
    · intro x hx; exact absurd hx (h0l x)
  | @step s t _ hstep ih =>
    obtain ⟨hJ, hLE, hES, hEP, hNL, hQe, hQl⟩ := ih
    cases hstep with
    | enter x pre hsub hnot hpre =>
      have hnl : ¬ s.left x := fun h => hnot (hLE x h)
      have hpre' : (x = r ∧ pre = none) ∨ (x ≠ r ∧ ∃ p v, parent x = some p ∧ s.ent p ∧ ¬ s.left p ∧ pre = some v ∧ Qe s.σ p v) := by
        cases hpre with
        | inl h => exact Or.inl h
        | inr h =>
          obtain ⟨hne, p, hp, hpe, hpl, hv⟩ := h
          exact Or.inr ⟨hne, p, s.vE p, hp, hpe, hpl, hv, hQe p hpe⟩
      have hstepJ := hEnter s.ent s.left s.σ x pre hJ hLE hES hEP hsub hnot hnl hpre'
      refine ⟨hstepJ.1, ?_, ?_, ?_, ?_, ?_, ?_⟩
      · intro y hy; exact Or.inr (hLE y hy)
      · intro y hy
        cases hy with
        | inl h => rw [h]; exact hsub
        | inr h => exact hES y h
      · intro y p hy hne hp
        cases hy with
        | inl h =>
          subst h
          cases hpre with
          | inl h' => exact absurd h'.1 hne
          | inr h' =>
            obtain ⟨_, q, hq, hqe, _, _⟩ := h'
            rw [hq] at hp
            cases hp
            exact Or.inr hqe
        | inr h => exact Or.inr (hEP y p h hne hp)
      · intro y p hy hnly hne hp
        cases hy with
        | inl h =>
          subst h
          cases hpre with
          | inl h' => exact absurd h'.1 hne
          | inr h' =>
            obtain ⟨_, q, hq, _, hql, _⟩ := h'
            rw [hq] at hp
            cases hp
            exact hql
        | inr h => exact hNL y p h hnly hne hp
      · intro y hy
        show Qe (f s.σ x pre).1 y (if y = x then (f s.σ x pre).2 else s.vE y)
        by_cases hyx : y = x
        · rw [if_pos hyx, hyx]; exact hstepJ.2.1
        · rw [if_neg hyx]
          cases hy with
          | inl h => exact absurd h hyx
          | inr h => exact hstepJ.2.2.1 y (s.vE y) h (hQe y h)
      · intro y hy; exact hstepJ.2.2.2 y (s.vL y) hy (hQl y hy)
    | leave x hent hnl hk =>
      have hkids' : ∀ c, c ∈ kids x → s.ent c ∧ s.left c := fun c hc => ⟨hLE c (hk c hc), hk c hc⟩
      have hpar : ∀ p, x ≠ r → parent x = some p → s.ent p ∧ ¬ s.left p :=
        fun p hne hp => ⟨hEP x p hent hne hp, hNL x p hent hnl hne hp⟩
      have hvals : ∀ c, c ∈ kids x → Ql s.σ c (s.vL c) := fun c hc => hQl c (hk c hc)
      have hstepJ := hLeave s.ent s.left s.σ x s.vL hJ hLE hES hEP hent hnl hkids' hpar hvals
      refine ⟨hstepJ.1, ?_, ?_, ?_, ?_, ?_, ?_⟩
      · intro y hy
        cases hy with
        | inl h => rw [h]; exact hent
        | inr h => exact hLE y h
      · exact hES
      · exact hEP
      · intro y p hy hnly hne hp hpl
        have hnly' : ¬ s.left y := fun h => hnly (Or.inr h)
        cases hpl with
        | inl h =>
          -- the node being left is y's parent: then y is one of its children, all of which are left already
          subst h
          have : y ∈ kids p := hkids y p (hES y hy) hne hp
          exact hnly' (hk y this)
        | inr h => exact hNL y p hy hnly' hne hp h
      · intro y hy; exact hstepJ.2.2.1 y (s.vE y) hy (hQe y hy)
      · intro y hy
        show Ql (g s.σ x ((kids x).map s.vL)).1 y (if y = x then (g s.σ x ((kids x).map s.vL)).2 else s.vL y)
        by_cases hyx : y = x
        · rw [if_pos hyx, hyx]; exact hstepJ.2.1
        · rw [if_neg hyx]
          cases hy with
          | inl h => exact absurd h hyx
          | inr h => exact hstepJ.2.2.2 y (s.vL y) h (hQl y h)

/-- The conclusion the rule assumes after the call: when the run ends with every subtree node entered and left,
    `J Sub Sub σ` holds and the value of the start node's leave call satisfies `Ql`. -/
theorem traverse_rule_sound
    (J : (α → Prop) → (α → Prop) → S → Prop) (Qe : S → α → V → Prop) (Ql : S → α → W → Prop)
    (s0 : St α V W S)
    (hkids : ∀ x p, Sub x → x ≠ r → parent x = some p → x ∈ kids p)
    (h0e : ∀ x, ¬ s0.ent x) (h0l : ∀ x, ¬ s0.left x)
    (hInit : J s0.ent s0.left s0.σ)
    (hEnter : ∀ (E L : α → Prop) (σ : S) (x : α) (pre : Option V),
        J E L σ → (∀ c, L c → E c) → (∀ c, E c → Sub c) → (∀ c p, E c → c ≠ r → parent c = some p → E p) →
        Sub x → ¬ E x → ¬ L x →
        ((x = r ∧ pre = none) ∨ (x ≠ r ∧ ∃ p v, parent x = some p ∧ E p ∧ ¬ L p ∧ pre = some v ∧ Qe σ p v)) →
        J (fun y => y = x ∨ E y) L (f σ x pre).1 ∧ Qe (f σ x pre).1 x (f σ x pre).2 ∧
        (∀ y v, E y → Qe σ y v → Qe (f σ x pre).1 y v) ∧ (∀ y w, L y → Ql σ y w → Ql (f σ x pre).1 y w))
    (hLeave : ∀ (E L : α → Prop) (σ : S) (x : α) (wv : α → W),
        J E L σ → (∀ c, L c → E c) → (∀ c, E c → Sub c) → (∀ c p, E c → c ≠ r → parent c = some p → E p) →
        E x → ¬ L x → (∀ c, c ∈ kids x → E c ∧ L c) →
        (∀ p, x ≠ r → parent x = some p → E p ∧ ¬ L p) →
        (∀ c, c ∈ kids x → Ql σ c (wv c)) →
        J E (fun y => y = x ∨ L y) (g σ x ((kids x).map wv)).1 ∧ Ql (g σ x ((kids x).map wv)).1 x (g σ x ((kids x).map wv)).2 ∧
        (∀ y v, E y → Qe σ y v → Qe (g σ x ((kids x).map wv)).1 y v) ∧ (∀ y w, L y → Ql σ y w → Ql (g σ x ((kids x).map wv)).1 y w))
    (s : St α V W S) (hr : Reach parent kids Sub r f g s0 s)
    (hallE : ∀ x, s.ent x ↔ Sub x) (hallL : ∀ x, s.left x ↔ Sub x) (hroot : Sub r) :
    J Sub Sub s.σ ∧ Ql s.σ r (s.vL r) := by
  have hinv := inv_of_reach parent kids Sub r f g J Qe Ql s0 hkids h0e h0l hInit hEnter hLeave s hr
  obtain ⟨hJ, _, _, _, _, _, hQl⟩ := hinv
  have e1 : s.ent = Sub := funext (fun x => propext (hallE x))
  have e2 : s.left = Sub := funext (fun x => propext (hallL x))
  rw [e1, e2] at hJ
  exact ⟨hJ, hQl r ((hallL r).mpr hroot)⟩

/-! ### Traversals with only one callback

`swc_utils.traverse(topology, leave=g)` passes no `enter`: the traversal still enters every node, it just runs no client code
there.  In the event model this is the enter callback that leaves the state alone and returns a unit value.  The enter premise
of the rule then shrinks to: `J` survives `ENT` growing by an enabled node in an UNCHANGED state - the obligation
`<carrier>/traverse/enter/invariant-preserved-where-no-enter-callback-is-given` of pyvc/traverse_rule.py (emitted whenever the
client's `J` reads `ENT`; a `J` that does not mention `ENT` satisfies it by reflexivity).  Symmetrically for a missing `leave`. -/

/-- the rule for a traversal WITHOUT an enter callback -/
theorem traverse_rule_sound_no_enter
    (J : (α → Prop) → (α → Prop) → S → Prop) (Ql : S → α → W → Prop)
    (s0 : St α Unit W S)
    (hkids : ∀ x p, Sub x → x ≠ r → parent x = some p → x ∈ kids p)
    (h0e : ∀ x, ¬ s0.ent x) (h0l : ∀ x, ¬ s0.left x)
    (hInit : J s0.ent s0.left s0.σ)
    (hSilent : ∀ (E L : α → Prop) (σ : S) (x : α),
        J E L σ → (∀ c, L c → E c) → (∀ c, E c → Sub c) → (∀ c p, E c → c ≠ r → parent c = some p → E p) →
        Sub x → ¬ E x → ¬ L x → (x = r ∨ (x ≠ r ∧ ∃ p, parent x = some p ∧ E p ∧ ¬ L p)) →
        J (fun y => y = x ∨ E y) L σ)
    (hLeave : ∀ (E L : α → Prop) (σ : S) (x : α) (wv : α → W),
        J E L σ → (∀ c, L c → E c) → (∀ c, E c → Sub c) → (∀ c p, E c → c ≠ r → parent c = some p → E p) →
        E x → ¬ L x → (∀ c, c ∈ kids x → E c ∧ L c) →
        (∀ p, x ≠ r → parent x = some p → E p ∧ ¬ L p) →
        (∀ c, c ∈ kids x → Ql σ c (wv c)) →
        J E (fun y => y = x ∨ L y) (g σ x ((kids x).map wv)).1 ∧ Ql (g σ x ((kids x).map wv)).1 x (g σ x ((kids x).map wv)).2 ∧
        (∀ y w, L y → Ql σ y w → Ql (g σ x ((kids x).map wv)).1 y w))
    (s : St α Unit W S) (hr : Reach parent kids Sub r (fun σ _ _ => (σ, ())) g s0 s)
    (hallE : ∀ x, s.ent x ↔ Sub x) (hallL : ∀ x, s.left x ↔ Sub x) (hroot : Sub r) :
    J Sub Sub s.σ ∧ Ql s.σ r (s.vL r) := by
  refine traverse_rule_sound parent kids Sub r (fun σ _ _ => (σ, ())) g J (fun _ _ _ => True) Ql s0 hkids h0e h0l hInit ?_ ?_ s hr hallE hallL hroot
  · intro E L σ x pre hJ hLE hES hEP hsub hne hnl hpre
    refine ⟨?_, trivial, fun _ _ _ _ => trivial, fun _ _ _ h => h⟩
    apply hSilent E L σ x hJ hLE hES hEP hsub hne hnl
    cases hpre with
    | inl h => exact Or.inl h.1
    | inr h =>
      obtain ⟨hx, p, _, hp, hpe, hpl, _, _⟩ := h
      exact Or.inr ⟨hx, p, hp, hpe, hpl⟩
  · intro E L σ x wv hJ hLE hES hEP hent hnl hk hpar hvals
    have h := hLeave E L σ x wv hJ hLE hES hEP hent hnl hk hpar hvals
    exact ⟨h.1, h.2.1, fun _ _ _ _ => trivial, h.2.2⟩

/-- the rule for a traversal WITHOUT a leave callback (the traversal then returns nothing: only `J Sub Sub` is concluded) -/
theorem traverse_rule_sound_no_leave
    (J : (α → Prop) → (α → Prop) → S → Prop) (Qe : S → α → V → Prop)
    (s0 : St α V Unit S)
    (hkids : ∀ x p, Sub x → x ≠ r → parent x = some p → x ∈ kids p)
    (h0e : ∀ x, ¬ s0.ent x) (h0l : ∀ x, ¬ s0.left x)
    (hInit : J s0.ent s0.left s0.σ)
    (hEnter : ∀ (E L : α → Prop) (σ : S) (x : α) (pre : Option V),
        J E L σ → (∀ c, L c → E c) → (∀ c, E c → Sub c) → (∀ c p, E c → c ≠ r → parent c = some p → E p) →
        Sub x → ¬ E x → ¬ L x →
        ((x = r ∧ pre = none) ∨ (x ≠ r ∧ ∃ p v, parent x = some p ∧ E p ∧ ¬ L p ∧ pre = some v ∧ Qe σ p v)) →
        J (fun y => y = x ∨ E y) L (f σ x pre).1 ∧ Qe (f σ x pre).1 x (f σ x pre).2 ∧
        (∀ y v, E y → Qe σ y v → Qe (f σ x pre).1 y v))
    (hSilent : ∀ (E L : α → Prop) (σ : S) (x : α),
        J E L σ → (∀ c, L c → E c) → (∀ c, E c → Sub c) → (∀ c p, E c → c ≠ r → parent c = some p → E p) →
        E x → ¬ L x → (∀ c, c ∈ kids x → E c ∧ L c) → (∀ p, x ≠ r → parent x = some p → E p ∧ ¬ L p) →
        J E (fun y => y = x ∨ L y) σ)
    (s : St α V Unit S) (hr : Reach parent kids Sub r f (fun σ _ _ => (σ, ())) s0 s)
    (hallE : ∀ x, s.ent x ↔ Sub x) (hallL : ∀ x, s.left x ↔ Sub x) (hroot : Sub r) :
    J Sub Sub s.σ := by
  refine (traverse_rule_sound parent kids Sub r f (fun σ _ _ => (σ, ())) J Qe (fun _ _ _ => True) s0 hkids h0e h0l hInit ?_ ?_ s hr hallE hallL hroot).1
  · intro E L σ x pre hJ hLE hES hEP hsub hne hnl hpre
    have h := hEnter E L σ x pre hJ hLE hES hEP hsub hne hnl hpre
    exact ⟨h.1, h.2.1, h.2.2, fun _ _ _ _ => trivial⟩
  · intro E L σ x wv hJ hLE hES hEP hent hnl hk hpar _
    exact ⟨hSilent E L σ x hJ hLE hES hEP hent hnl hk hpar, trivial, fun _ _ _ h => h, fun _ _ _ _ => trivial⟩

end TraverseRule
