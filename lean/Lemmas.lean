/-
  Lemma library of /verif (checked with `lean lean/Lemmas.lean`, core Lean 4 only, no Mathlib).
  Each theorem is the induction schema behind one "assumed-lemma" instance that the SMT side uses
  (z3 does no induction).  The link between a theorem here and its first-order instance in a contract
  is by inspection: the instance is obtained by choosing the predicates named in the contract.
-/

/-- tree_induction: on a set S of nodes closed under `parent` (except at `root`) with a depth witness that
    strictly decreases along parent links, a property that holds at the root and is inherited by children
    holds on all of S.   Used by: C04 (`entered` covers the subtree), C05 (`visited` covers the table),
    C06 / traverse rule (every node lies in the subtree of node 0). -/
theorem tree_induction {α : Type} (parent : α → α) (depth : α → Nat) (root : α) (S P : α → Prop)
    (hdec : ∀ x, S x → x ≠ root → depth (parent x) < depth x)
    (hclosed : ∀ x, S x → x ≠ root → S (parent x))
    (base : P root)
    (step : ∀ x, S x → x ≠ root → P (parent x) → P x) :
    ∀ x, S x → P x := by
  intro x
  generalize hd : depth x = d
  induction d using Nat.strongRecOn generalizing x with
  | _ d ih =>
    intro hS
    by_cases hx : x = root
    · subst hx; exact base
    · have hlt : depth (parent x) < d := by rw [← hd]; exact hdec x hS hx
      exact step x hS hx (ih (depth (parent x)) hlt (parent x) rfl (hclosed x hS hx))

/-- every node of a well-formed parent table (node 0 is the root, every other node's parent is a node,
    depth witness) lies in any set that contains 0 and is closed under "child of a member". -/
theorem all_nodes_below_root (n : Nat) (pid : Nat → Nat) (depth : Nat → Nat) (Sub : Nat → Prop)
    (hpar : ∀ x, x < n → x ≠ 0 → pid x < n)
    (hdec : ∀ x, x < n → x ≠ 0 → depth (pid x) < depth x)
    (h0 : 0 < n → Sub 0)
    (hchild : ∀ x, x < n → x ≠ 0 → Sub (pid x) → Sub x) :
    ∀ x, x < n → Sub x := by
  intro x hx
  have := tree_induction pid depth 0 (fun y => y < n) Sub
    (fun y hy hne => hdec y hy hne) (fun y hy hne => hpar y hy hne)
  by_cases hn : 0 < n
  · exact this (h0 hn) (fun y hy hne hp => hchild y hy hne hp) x hx
  · omega

/-- count_singleton: a counter that adds 1 exactly at the positions where `mask` holds counts 1 over [0, n)
    when `mask` holds at exactly one position p0 < n.   Used by: C05 (`np.count_nonzero(pid == -1) == 1`). -/
theorem count_singleton (f : Nat → Nat) (mask : Nat → Bool) (n p0 : Nat)
    (h0 : f 0 = 0)
    (hs : ∀ i, f (i + 1) = f i + (if mask i then 1 else 0))
    (hp : p0 < n)
    (hm : ∀ i, i < n → (mask i = true ↔ i = p0)) :
    f n = 1 := by
  have key : ∀ k, k ≤ n → f k = if p0 < k then 1 else 0 := by
    intro k
    induction k with
    | zero => intro _; simp [h0]
    | succ k ih =>
      intro hk
      have hk' : k ≤ n := by omega
      have hkn : k < n := by omega
      rw [hs k, ih hk']
      by_cases hkp : k = p0
      · have : mask k = true := (hm k hkn).mpr hkp
        subst hkp; simp [this]
      · have hmk : mask k = false := by
          cases hmk : mask k with
          | false => rfl
          | true => exact absurd ((hm k hkn).mp hmk) hkp
        by_cases hlt : p0 < k
        · have : p0 < k + 1 := by omega
          simp [hmk, hlt, this]
        · have : ¬ p0 < k + 1 := by omega
          simp [hmk, hlt, this]
  have := key n (Nat.le_refl n)
  simp [hp] at this
  exact this

/-- cumsum_monotone: prefix sums of non-negative numbers are non-decreasing.   Used by: C19 (`ChainTrees.cumsum`). -/
theorem cumsum_monotone (out src : Nat → Int)
    (hstep : ∀ k, out (k + 1) = out k + src (k + 1))
    (hnonneg : ∀ k, 0 ≤ src k) :
    ∀ k d, out k ≤ out (k + d) := by
  intro k d
  induction d with
  | zero => simp
  | succ d ih =>
    have h1 : out (k + (d + 1)) = out (k + d) + src (k + d + 1) := by
      have := hstep (k + d)
      simpa [Nat.add_assoc] using this
    have h2 := hnonneg (k + d + 1)
    omega

/-- count_monotone / count_two: a counter that adds 1 exactly where `mask` holds is non-decreasing, and counts at least 2
    over [0, n) when `mask` holds at two different positions a < b < n.
    Used by: C02 (`read_swc`: `np.count_nonzero(pid == -1) > 1` is false, so the table handed to `sort_nodes_` has at most one root row). -/
theorem count_monotone (f : Nat → Nat) (mask : Nat → Bool)
    (hs : ∀ i, f (i + 1) = f i + (if mask i then 1 else 0)) :
    ∀ k d, f k ≤ f (k + d) := by
  intro k d
  induction d with
  | zero => simp
  | succ d ih =>
    have h1 : f (k + (d + 1)) = f (k + d) + (if mask (k + d) then 1 else 0) := by
      have := hs (k + d)
      simpa [Nat.add_assoc] using this
    rw [h1]
    exact Nat.le_trans ih (Nat.le_add_right _ _)

theorem count_two (f : Nat → Nat) (mask : Nat → Bool) (n a b : Nat)
    (hs : ∀ i, f (i + 1) = f i + (if mask i then 1 else 0))
    (hab : a < b) (hbn : b < n) (ha : mask a = true) (hb : mask b = true) :
    2 ≤ f n := by
  have mono := count_monotone f mask hs
  have h1 : f (a + 1) = f a + 1 := by rw [hs a]; simp [ha]
  have h2 : f (b + 1) = f b + 1 := by rw [hs b]; simp [hb]
  have h3 : f (a + 1) ≤ f b := by
    have := mono (a + 1) (b - (a + 1))
    have e : a + 1 + (b - (a + 1)) = b := by omega
    rw [e] at this; exact this
  have h4 : f (b + 1) ≤ f n := by
    have := mono (b + 1) (n - (b + 1))
    have e : b + 1 + (n - (b + 1)) = n := by omega
    rw [e] at this; exact this
  omega
