/-
  Whitespace-token lemma of /verif (checked with `lean lean/Tokens.lean`, core Lean 4 only, no Mathlib).

  Texts are lists of characters of an arbitrary alphabet `α`; `ws` says which characters are blanks.
  `token_split_unique`: a text splits in AT MOST ONE way into   blanks ++ token ++ rest   where the token is a nonempty run of
  non-blanks and the rest is empty or starts with a blank.
  `tokens_unique`: hence a text has at most one decomposition into  blanks token blanks⁺ token ... token rest  with a given number
  of tokens (the row pattern `^\s*(G1)\s+(G2)...\s+(G7)(?=\s|$)...` of parse_swc has this form once the language facts
  C02/regex/column-*-is-a-nonempty-whitespace-free-token, separator-*-is-nonempty-whitespace,
  after-the-last-column-comes-whitespace-or-the-end are discharged): whichever way a regex matcher decomposes a row line, group i is
  the i-th whitespace-delimited token of the line.
-/

/-- the rest after a token: nothing, or something that starts with a blank -/
def EndsToken {α : Type} (ws : α → Prop) (b : List α) : Prop := b = [] ∨ ∃ c t, b = c :: t ∧ ws c

/-- a run of non-blanks followed by (end | blank ...) is determined by the text -/
theorem run_unique {α : Type} (ws : α → Prop) :
    ∀ (g g' b b' : List α), (∀ c, c ∈ g → ¬ ws c) → (∀ c, c ∈ g' → ¬ ws c) → EndsToken ws b → EndsToken ws b' →
      g ++ b = g' ++ b' → g = g' ∧ b = b' := by
  intro g
  induction g with
  | nil =>
    intro g' b b' _ hg' hb _ h
    cases g' with
    | nil => exact ⟨rfl, by simpa using h⟩
    | cons c t =>
      -- b = c :: (t ++ b') starts with a non-blank: impossible
      have hb0 : b = c :: (t ++ b') := by simpa using h
      cases hb with
      | inl e => rw [e] at hb0; cases hb0
      | inr e =>
        obtain ⟨d, u, e1, hd⟩ := e
        rw [e1] at hb0
        injection hb0 with h1 _
        exact absurd (h1 ▸ hd) (hg' c (List.mem_cons_self))
  | cons c t ih =>
    intro g' b b' hg hg' hb hb' h
    cases g' with
    | nil =>
      have hb0 : b' = c :: (t ++ b) := by simpa using h.symm
      cases hb' with
      | inl e => rw [e] at hb0; cases hb0
      | inr e =>
        obtain ⟨d, u, e1, hd⟩ := e
        rw [e1] at hb0
        injection hb0 with h1 _
        exact absurd (h1 ▸ hd) (hg c (List.mem_cons_self))
    | cons c' t' =>
      have h' : c :: (t ++ b) = c' :: (t' ++ b') := by simpa using h
      injection h' with h1 h2
      have := ih t' b b' (fun x hx => hg x (List.mem_cons_of_mem _ hx)) (fun x hx => hg' x (List.mem_cons_of_mem _ hx)) hb hb' h2
      exact ⟨by rw [h1, this.1], this.2⟩

theorem token_split_unique {α : Type} (ws : α → Prop) :
    ∀ (a a' g g' b b' : List α),
      (∀ c, c ∈ a → ws c) → (∀ c, c ∈ a' → ws c) →
      g ≠ [] → g' ≠ [] → (∀ c, c ∈ g → ¬ ws c) → (∀ c, c ∈ g' → ¬ ws c) →
      EndsToken ws b → EndsToken ws b' →
      a ++ (g ++ b) = a' ++ (g' ++ b') → a = a' ∧ g = g' ∧ b = b' := by
  intro a
  induction a with
  | nil =>
    intro a' g g' b b' _ ha' hgne _ hg hg' hb hb' h
    cases a' with
    | nil =>
      have := run_unique ws g g' b b' hg hg' hb hb' (by simpa using h)
      exact ⟨rfl, this.1, this.2⟩
    | cons c t =>
      -- the text starts with the first character of g (no blank) and with c (a blank)
      cases g with
      | nil => exact absurd rfl hgne
      | cons d u =>
        have h' : d :: (u ++ b) = c :: (t ++ (g' ++ b')) := by simpa using h
        injection h' with h1 _
        exact absurd (h1 ▸ ha' c (List.mem_cons_self)) (hg d (List.mem_cons_self))
  | cons c t ih =>
    intro a' g g' b b' ha ha' hgne hgne' hg hg' hb hb' h
    cases a' with
    | nil =>
      cases g' with
      | nil => exact absurd rfl hgne'
      | cons d u =>
        have h' : c :: (t ++ (g ++ b)) = d :: (u ++ b') := by simpa using h
        injection h' with h1 _
        exact absurd (h1 ▸ ha c (List.mem_cons_self)) (hg' d (List.mem_cons_self))
    | cons c' t' =>
      have h' : c :: (t ++ (g ++ b)) = c' :: (t' ++ (g' ++ b')) := by simpa using h
      injection h' with h1 h2
      have := ih t' g g' b b' (fun x hx => ha x (List.mem_cons_of_mem _ hx)) (fun x hx => ha' x (List.mem_cons_of_mem _ hx))
        hgne hgne' hg hg' hb hb' h2
      exact ⟨by rw [h1, this.1], this.2.1, this.2.2⟩

/-- `Parse ws ts s r`: the text `s` is  blanks tok₁ blanks⁺ tok₂ ... tokₙ r  with ts = [tok₁, …, tokₙ]; every token a nonempty run of
    non-blanks, what follows a token is empty or starts with a blank (so separators are nonempty runs of blanks). -/
inductive Parse {α : Type} (ws : α → Prop) : List (List α) → List α → List α → Prop
  | done (r : List α) : Parse ws [] r r
  | tok (a g s r : List α) (ts : List (List α)) :
      (∀ c, c ∈ a → ws c) → g ≠ [] → (∀ c, c ∈ g → ¬ ws c) → EndsToken ws s → Parse ws ts s r →
      Parse ws (g :: ts) (a ++ (g ++ s)) r

/-- two decompositions of the same text with the same number of tokens have the same tokens (and the same rest) -/
theorem tokens_unique {α : Type} (ws : α → Prop) :
    ∀ (ts ts' : List (List α)) (s r r' : List α), Parse ws ts s r → Parse ws ts' s r' → ts.length = ts'.length →
      ts = ts' ∧ r = r' := by
  intro ts
  induction ts with
  | nil =>
    intro ts' s r r' p p' hl
    cases ts' with
    | nil =>
      cases p; cases p'; exact ⟨rfl, rfl⟩
    | cons _ _ => simp at hl
  | cons g ts ih =>
    intro ts' s r r' p p' hl
    cases ts' with
    | nil => simp at hl
    | cons g' ts' =>
      cases p with
      | tok a _ s1 _ _ ha hgne hg hs1 p1 =>
        generalize hs : a ++ (g ++ s1) = s0 at p'
        cases p' with
        | tok a' _ s1' _ _ ha' hgne' hg' hs1' p1' =>
          have u := token_split_unique ws a a' g g' s1 s1' ha ha' hgne hgne' hg hg' hs1 hs1' hs
          have hl' : ts.length = ts'.length := by simpa using hl
          have e : s1 = s1' := u.2.2
          subst e
          have := ih ts' s1 r r' p1 p1' hl'
          exact ⟨by rw [u.2.1, this.1], this.2⟩
