/-
  Counting lemma of /verif (checked with `lean lean/Count.lean`, core Lean 4 only, no Mathlib).

  A counter `c` over the lines of a file is DEFINED by primitive recursion  c (k+1) = c k + (if p k then 1 else 0)  (the ghost
  counters rows_before / hash_lines_before of contracts/C02.py: p k = "line k is a row" / "line k is a comment line").
  `count_skips`: over a block of lines none of which satisfies p the counter does not move;
  `count_counts`: over a block of lines all of which satisfy p it counts them one by one.
  Instance (contracts/C01.py, round-trip lemma): the text to_swc writes is  m comment lines, the column header, n node lines;
  so rows_before is 0 up to line m+1 and then j after j node lines, hash_lines_before is j after j comment lines (the m comments and
  the column header) and stays m+1.  (comments_before, the counter of the KEPT comment lines, is defined from hash_lines_before without
  recursion; that it obeys the same recursion with p k = "line k is a kept comment" is the z3 lemma C02/lemma/comments/comments_before-counts-...)
-/

theorem count_skips (c : Nat → Nat) (p : Nat → Bool)
    (hs : ∀ k, c (k + 1) = c k + (if p k then 1 else 0)) (a n : Nat)
    (h : ∀ k, a ≤ k → k < a + n → p k = false) :
    ∀ j, j ≤ n → c (a + j) = c a := by
  intro j
  induction j with
  | zero => intro _; rfl
  | succ j ih =>
    intro hj
    have hj' : j ≤ n := Nat.le_of_succ_le hj
    have hp : p (a + j) = false := h (a + j) (Nat.le_add_right a j) (Nat.add_lt_add_left (Nat.lt_of_succ_le hj) a)
    have e : a + (j + 1) = (a + j) + 1 := by omega
    rw [e, hs (a + j), hp, ih hj']
    simp

theorem count_counts (c : Nat → Nat) (p : Nat → Bool)
    (hs : ∀ k, c (k + 1) = c k + (if p k then 1 else 0)) (a n : Nat)
    (h : ∀ k, a ≤ k → k < a + n → p k = true) :
    ∀ j, j ≤ n → c (a + j) = c a + j := by
  intro j
  induction j with
  | zero => intro _; rfl
  | succ j ih =>
    intro hj
    have hj' : j ≤ n := Nat.le_of_succ_le hj
    have hp : p (a + j) = true := h (a + j) (Nat.le_add_right a j) (Nat.add_lt_add_left (Nat.lt_of_succ_le hj) a)
    have e : a + (j + 1) = (a + j) + 1 := by omega
    rw [e, hs (a + j), hp, ih hj']
    simp
    omega
