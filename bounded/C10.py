"""C10 bounded stand-in: morphometrics equal their textbook definitions.

The oracle (`Oracle`) is a plain-Python implementation of the definitions over the
parent table and the float32-rounded coordinates held in float64; it never calls the
library.  Every library value is compared with it (relative tolerance 1e-4)."""
from __future__ import annotations

import math
import random

import numpy as np

from .common import all_sorted_tables_upto, coords_for, make_tree, random_sorted_table

RTOL = 1e-4
ANGLE_ATOL_DEG = 0.05  # arccos is ill-conditioned at 0/180 degrees for float32 vectors

UNCONDITIONAL_RAISERS = ["terminal_segment", "fractal_dim", "daughter_ratio", "parent_daughter_ratio", "last_parent_diam",
                         "diam_threshold", "hillman_threshold", "type", "bif_torque_local", "bif_torque_remote"]


# ----------------------------------------------------------------------------- oracle
class Oracle:
    """Definitions, computed with explicit loops.  pid: parent table (root = node 0,
    any numbering); xyz: (n,3) float64 (already rounded to float32 values); r: radii."""

    def __init__(self, pid, xyz, r=None):
        self.pid = [int(p) for p in pid]
        self.n = len(self.pid)
        self.xyz = np.asarray(xyz, dtype=np.float32).astype(np.float64)
        self.r = None if r is None else np.asarray(r, dtype=np.float32).astype(np.float64)
        self.ch = {i: [] for i in range(self.n)}
        for i, p in enumerate(self.pid):
            if p >= 0:
                self.ch[p].append(i)
        self.root = self.pid.index(-1)

    def d(self, i, j):
        a, b = self.xyz[i], self.xyz[j]
        return math.sqrt((a[0] - b[0]) ** 2 + (a[1] - b[1]) ** 2 + (a[2] - b[2]) ** 2)

    def edges(self):
        return [(self.pid[i], i) for i in range(self.n) if self.pid[i] >= 0]

    def length(self):
        return sum(self.d(p, i) for p, i in self.edges())

    def is_tip(self, i):
        return len(self.ch[i]) == 0

    def is_furc(self, i):
        return len(self.ch[i]) > 1

    def tips(self):
        return [i for i in range(self.n) if self.is_tip(i)]

    def furcations(self):
        return [i for i in range(self.n) if self.is_furc(i)]

    def root_path(self, i):
        out = [i]
        while self.pid[out[-1]] >= 0:
            out.append(self.pid[out[-1]])
        return out[::-1]

    def paths(self):
        return [self.root_path(t) for t in self.tips()]

    def branches(self):
        """Maximal unbranched node chains between critical nodes (root, furcations, tips)."""
        out = []
        for c in range(self.n):
            if c != self.root and (self.is_tip(c) or self.is_furc(c)):
                chain = [c]
                while True:
                    chain.append(self.pid[chain[-1]])
                    if chain[-1] == self.root or self.is_furc(chain[-1]):
                        break
                out.append(chain[::-1])
        return out

    def chain_length(self, nodes):
        return sum(self.d(a, b) for a, b in zip(nodes[:-1], nodes[1:]))

    def tortuosity(self, nodes):
        ln = self.chain_length(nodes)
        return 1.0 if ln == 0 else self.d(nodes[0], nodes[-1]) / ln

    def radial(self, i):
        return self.d(i, self.root)

    def critical_order(self):
        """Order of critical nodes: 0 at the root, +1 per root/furcation strictly above."""
        out = {}
        for c in range(self.n):
            if c == self.root:
                out[c] = 0
            elif self.is_tip(c) or self.is_furc(c):
                out[c] = sum(1 for a in self.root_path(c)[:-1] if a == self.root or self.is_furc(a))
        return out

    def sholl(self, r):
        k = 0
        for p, i in self.edges():
            rp, ri = self.radial(p), self.radial(i)
            if (rp <= r < ri) or (ri <= r < rp):
                k += 1
        return k

    def subtree(self, i):
        out, st = [], [i]
        while st:
            x = st.pop()
            out.append(x)
            st.extend(self.ch[x])
        return out

    def terminal_degree(self, i):
        return sum(1 for x in self.subtree(i) if self.is_tip(x))

    def lm_branch_order(self, i):
        return sum(1 for a in self.root_path(i) if self.is_furc(a))

    def path_distance(self, i):
        return self.chain_length(self.root_path(i))

    def remote_end(self, c):
        while not (self.is_tip(c) or self.is_furc(c)):
            c = self.ch[c][0]
        return c

    def angle_deg(self, u, v):
        nu, nv = math.sqrt(float(u @ u)), math.sqrt(float(v @ v))
        if nu == 0 or nv == 0:
            return None
        return math.degrees(math.acos(max(-1.0, min(1.0, float(u @ v) / (nu * nv)))))

    def is_binary(self):
        return all(len(c) <= 2 for c in self.ch.values())

    def sphere_sum(self):
        return sum(4.0 / 3.0 * math.pi * x ** 3 for x in self.r)

    def frusta_sum(self):
        return sum(math.pi / 3.0 * self.d(p, i) * (self.r[p] ** 2 + self.r[p] * self.r[i] + self.r[i] ** 2) for p, i in self.edges())


# ------------------------------------------------------------------------ feature table
# name -> (kind, fn) ; kind: 'pos' compared position-wise, 'multi' compared as multisets
def oracle_features(o, sholl_radii):
    rad = [o.radial(i) for i in range(o.n)]
    brs, pths = o.branches(), o.paths()
    return {
        "length": ("pos", [o.length()]),
        "volume": ("pos", [o.sphere_sum() + o.frusta_sum()]),
        "sholl": ("pos", [o.sholl(r) for r in sholl_radii]),
        "node_count": ("pos", [o.n]),
        "node_radial_distance": ("pos", rad),
        "node_branch_order": ("multi", list(o.critical_order().values())),
        "furcation_count": ("pos", [len(o.furcations())]),
        "furcation_radial_distance": ("pos", [rad[i] for i in o.furcations()]),
        "tip_count": ("pos", [len(o.tips())]),
        "tip_radial_distance": ("pos", [rad[i] for i in o.tips()]),
        "branch_length": ("multi", [o.chain_length(b) for b in brs]),
        "branch_tortuosity": ("multi", [o.tortuosity(b) for b in brs]),
        "path_length": ("multi", [o.chain_length(p) for p in pths]),
        "path_tortuosity": ("multi", [o.tortuosity(p) for p in pths]),
    }


FEATURE_KWARGS = {"volume": dict(accuracy=2)}
DEPRECATED_FEATURES = ("bifurcation_count", "bifurcation_radial_distance")


def sholl_radii_for(o):
    """Dyadic radii (exactly representable; ties with lattice distances such as 1, 2, 3 are
    therefore decided identically in float32 and float64) plus mid-points between radii."""
    rho = sorted(set(o.radial(i) for i in range(o.n)))
    top = int(math.ceil(rho[-1])) + 1
    rs = [k * 0.5 for k in range(0, 2 * top + 1)]
    rs += [float(np.float32((a + b) / 2)) for a, b in zip(rho[:-1], rho[1:]) if b - a > 1e-3]
    return sorted(set(rs))


def close(a, b, rtol=RTOL, atol=1e-6):
    a, b = np.asarray(a, dtype=np.float64).ravel(), np.asarray(b, dtype=np.float64).ravel()
    return a.shape == b.shape and bool(np.all(np.abs(a - b) <= atol + rtol * np.maximum(np.abs(a), np.abs(b))))


def close_kind(kind, got, want, **kw):
    if kind == "multi":
        got, want = np.sort(np.asarray(got, dtype=np.float64).ravel()), np.sort(np.asarray(want, dtype=np.float64).ravel())
    return close(got, want, **kw)


class Rep:
    """Caps reports per (carrier, clause) at 3 and makes values JSON-able."""

    def __init__(self, ctx, cap=3):
        self.ctx, self.cap, self.seen, self.count = ctx, cap, {}, 0

    def v(self, carrier, clause, spec, observed, expected):
        self.count += 1
        k = (carrier, clause)
        self.seen[k] = self.seen.get(k, 0) + 1
        if self.seen[k] <= self.cap:
            self.ctx.violation(carrier, clause, spec, _js(observed), _js(expected), spec)

    def guarded(self, carrier, spec, fn):
        try:
            return True, fn()
        except Exception as e:  # an in-domain call must not fail
            self.v(carrier, "operation-raises", spec, f"{type(e).__name__}: {e}", "no exception")
            return False, None


def _js(x):
    if isinstance(x, np.ndarray):
        return [round(float(v), 6) for v in x.ravel()]
    if isinstance(x, (list, tuple)):
        return [_js(v) for v in x]
    if isinstance(x, (np.floating, np.integer)):
        return float(x)
    return x


def spec_of(pid, xyz, r, types, **kw):
    return dict(pid=[int(p) for p in pid], xyz=[[float(a) for a in row] for row in np.asarray(xyz, dtype=np.float32)],
                r=[float(x) for x in np.asarray(r, dtype=np.float32)], type=[int(t) for t in types], **kw)


def default_r(n):
    return np.array([1.0 + 0.25 * (i % 3) for i in range(n)], dtype=np.float32)


def default_types(n):
    return np.array([1] + [3 if (i % 2) else 2 for i in range(1, n)], dtype=np.int32)


# ------------------------------------------------------------------------------ checks
def check_tree(rep, pid, xyz, notes=None):
    from swcgeom.analysis import extract_feature
    from swcgeom.analysis.features import BranchFeatures, FurcationFeatures, NodeFeatures, PathFeatures, TipFeatures
    from swcgeom.analysis.lmeasure import LMeasure
    from swcgeom.analysis.sholl import Sholl
    from swcgeom.core import Tree

    n = len(pid)
    r, types = default_r(n), default_types(n)
    spec = spec_of(pid, xyz, r, types, kind="tree")
    t = make_tree(pid, xyz, r, types)
    o = Oracle(pid, xyz, r)
    radii = sholl_radii_for(o)
    want = oracle_features(o, radii)
    brs, pths = o.branches(), o.paths()

    # -- Tree.length / branches / paths
    ok, L = rep.guarded("Tree.length", spec, lambda: t.length())
    if ok and not close(L, o.length()):
        rep.v("Tree.length", "tree-length-is-sum-of-edges", spec, L, o.length())
    ok, lb = rep.guarded("Tree.get_branches", spec, lambda: [b.length() for b in t.get_branches()])
    if ok:
        if not close(sum(lb), o.length()):
            rep.v("Tree.get_branches", "tree-length-equals-branch-lengths", spec, dict(sum_of_branch_lengths=sum(lb), n_branches=len(lb)), dict(tree_length=o.length(), n_branches=len(brs)))
        if not close_kind("multi", lb, want["branch_length"][1]):
            rep.v("BranchFeatures.get_length", "branch-length", spec, sorted(lb), sorted(want["branch_length"][1]))
    ok, got = rep.guarded("PathFeatures", spec, lambda: (PathFeatures(t).get_count(), PathFeatures(t).get_length(), PathFeatures(t).get_tortuosity()))
    if ok:
        if got[0] != len(pths) or not close_kind("multi", got[1], want["path_length"][1]):
            rep.v("Path.length", "path-length", spec, got[1], sorted(want["path_length"][1]))
        if not close_kind("multi", got[2], want["path_tortuosity"][1]):
            rep.v("Path.tortuosity", "tortuosity", spec, got[2], sorted(want["path_tortuosity"][1]))
    # Path objects built from the oracle's own node lists (isolates Path from get_paths/get_branches)
    for nodes in pths + brs:
        ok, got = rep.guarded("Path", spec, lambda: (Tree.Path(t, nodes).length(), Tree.Path(t, nodes).straight_line_distance(), Tree.Path(t, nodes).tortuosity()))
        if ok:
            if not close(got[0], o.chain_length(nodes)):
                rep.v("Path.length", "path-length", dict(spec, nodes=nodes), got[0], o.chain_length(nodes))
            if not close(got[1], o.d(nodes[0], nodes[-1])):
                rep.v("Path.straight_line_distance", "path-length", dict(spec, nodes=nodes), got[1], o.d(nodes[0], nodes[-1]))
            if not close(got[2], o.tortuosity(nodes)):
                rep.v("Path.tortuosity", "tortuosity", dict(spec, nodes=nodes), got[2], o.tortuosity(nodes))
    ok, got = rep.guarded("BranchFeatures", spec, lambda: (BranchFeatures(t).get_count(), BranchFeatures(t).get_tortuosity()))
    if ok:
        if got[0] != len(brs):
            rep.v("BranchFeatures.get_count", "counts", spec, got[0], len(brs))
        if not close_kind("multi", got[1], want["branch_tortuosity"][1]):
            rep.v("BranchFeatures.get_tortuosity", "tortuosity", spec, got[1], sorted(want["branch_tortuosity"][1]))

    # -- node level
    nf = NodeFeatures(t)
    ok, got = rep.guarded("NodeFeatures.get_radial_distance", spec, lambda: nf.get_radial_distance())
    if ok and not close(got, want["node_radial_distance"][1]):
        rep.v("NodeFeatures.get_radial_distance", "radial-distance", spec, got, want["node_radial_distance"][1])
    for i in range(n):
        ok, got = rep.guarded("Tree.Node.radial_distance", spec, lambda: t.node(i).radial_distance())
        if ok and not close(got, o.radial(i)):
            rep.v("Tree.Node.radial_distance", "radial-distance", dict(spec, node=i), got, o.radial(i))
    ok, got = rep.guarded("NodeFeatures.get_branch_order", spec, lambda: nf.get_branch_order())
    if ok and not close_kind("multi", got, want["node_branch_order"][1]):
        rep.v("NodeFeatures.get_branch_order", "branch-order", spec, sorted(int(x) for x in got), sorted(want["node_branch_order"][1]))
    ok, got = rep.guarded("counts", spec, lambda: (float(nf.get_count()[0]), float(TipFeatures(nf).get_count()[0]), float(FurcationFeatures(nf).get_count()[0]),
                                                   len(t.get_tips()), len(t.get_furcations()), t.number_of_nodes()))
    wantc = (n, len(o.tips()), len(o.furcations()), len(o.tips()), len(o.furcations()), n)
    if ok and tuple(got) != tuple(float(x) for x in wantc):
        rep.v("NodeFeatures/TipFeatures/FurcationFeatures.get_count", "counts", spec, got, wantc)
    ok, got = rep.guarded("TipFeatures.get_radial_distance", spec, lambda: (TipFeatures(nf).get_radial_distance(), FurcationFeatures(nf).get_radial_distance()))
    if ok and not (close(got[0], want["tip_radial_distance"][1]) and close(got[1], want["furcation_radial_distance"][1])):
        rep.v("_SubsetNodesFeatures.get_radial_distance", "radial-distance", spec, got, (want["tip_radial_distance"][1], want["furcation_radial_distance"][1]))

    # -- Sholl
    # A one-node tree has no segment; Sholl(t) documents it as "invalid tree" (ValueError).  The property's
    # Sholl clause is about intersection counts of segments, so single-node trees are outside its scope here.
    ok, sh = rep.guarded("Sholl.__init__", spec, lambda: Sholl(t)) if n >= 2 else (False, None)
    if ok:
        ok, got = rep.guarded("Sholl.get", spec, lambda: (sh.get(steps=radii), [sh.intersect(x) for x in radii]))
        if ok and not (list(map(int, got[0])) == want["sholl"][1] and list(map(int, got[1])) == want["sholl"][1]):
            rep.v("Sholl.get", "sholl-count", dict(spec, radii=radii), (list(map(int, got[0])), list(map(int, got[1]))), want["sholl"][1])
        rmax = max(o.radial(i) for i in range(o.n))
        if not close(sh.rmax, rmax):
            rep.v("Sholl.__init__", "sholl-count", spec, dict(rmax=float(sh.rmax)), dict(rmax=rmax))
        for steps in (1, 3, 20):
            ok, got = rep.guarded("Sholl.get", dict(spec, steps=steps), lambda: sh.get(steps=steps))
            if not ok or rmax == 0:
                continue
            if len(got) != steps:
                rep.v("Sholl.get", "sholl-step-count", dict(spec, steps=steps), dict(n_values=len(got)), dict(n_values=steps))
                continue
            rs = [rmax * k / (steps + 1) for k in range(1, steps + 1)]
            lo = [o.sholl(x * (1 - 2e-6)) for x in rs]  # the float32 radius k*rmax/(steps+1) is only known to ~1e-6:
            hi = [o.sholl(x * (1 + 2e-6)) for x in rs]  # where that matters either reading is accepted
            if any(int(g) not in (a, b) for g, a, b in zip(got, lo, hi)):
                rep.v("Sholl.get", "sholl-count", dict(spec, steps=steps), list(map(int, got)), dict(below=lo, above=hi))

    # -- L-Measure
    lm = LMeasure()
    ok, got = rep.guarded("LMeasure.n_stems", spec, lambda: lm.n_stems(t))
    if ok and got != len(o.ch[o.root]):
        rep.v("LMeasure.n_stems", "lmeasure-n_stems", spec, got, len(o.ch[o.root]))
    ok, got = rep.guarded("LMeasure.n_tips", spec, lambda: lm.n_tips(t))
    if ok and got != len(o.tips()):
        rep.v("LMeasure.n_tips", "lmeasure-n_tips", spec, got, len(o.tips()))
    ok, got = rep.guarded("LMeasure.n_branch", spec, lambda: lm.n_branch(t))
    if ok and got != len(brs):
        rep.v("LMeasure.n_branch", "lmeasure-n_branch", spec, got, len(brs))
    for i in range(n):
        nd = t.node(i)
        for name, fn, w in (("path_distance", lm.path_distance, o.path_distance(i)), ("euc_distance", lm.euc_distance, o.radial(i)),
                            ("branch_order", lm.branch_order, o.lm_branch_order(i)), ("terminal_degree", lm.terminal_degree, o.terminal_degree(i))):
            ok, got = rep.guarded("LMeasure." + name, dict(spec, node=i), lambda: fn(nd))
            if ok and not close(got, w):
                rep.v("LMeasure." + name, "lmeasure-" + name, dict(spec, node=i), got, w)
    for nodes in brs:
        br = Tree.Branch(t, np.array(nodes, dtype=np.int32))
        ok, got = rep.guarded("LMeasure.fragmentation", dict(spec, nodes=nodes), lambda: (lm.fragmentation(br), lm.branch_pathlength(br)))
        if ok and (got[0] != len(nodes) - 1 or not close(got[1], o.chain_length(nodes))):
            rep.v("LMeasure.fragmentation", "lmeasure-fragmentation", dict(spec, nodes=nodes), got, (len(nodes) - 1, o.chain_length(nodes)))
        if o.chain_length(nodes) > 0:
            ok, got = rep.guarded("LMeasure.contraction", dict(spec, nodes=nodes), lambda: lm.contraction(br))
            if ok and not close(got, o.d(nodes[0], nodes[-1]) / o.chain_length(nodes)):
                rep.v("LMeasure.contraction", "lmeasure-contraction", dict(spec, nodes=nodes), got, o.d(nodes[0], nodes[-1]) / o.chain_length(nodes))
        elif notes is not None:
            notes.add("LMeasure.contraction is a ratio euclidean/path length: zero-length branches are outside its definition and were not evaluated")
    if o.is_binary():
        ok, got = rep.guarded("LMeasure.n_bifs", spec, lambda: lm.n_bifs(t))
        nb = sum(1 for i in range(n) if len(o.ch[i]) == 2)
        if ok and got != nb:
            rep.v("LMeasure.n_bifs", "lmeasure-n_bifs", spec, got, nb)
        for b in range(n):
            if len(o.ch[b]) != 2:
                continue
            c1, c2 = o.ch[b]
            n1, n2 = o.terminal_degree(c1), o.terminal_degree(c2)
            w = 0.0 if n1 == n2 else abs(n1 - n2) / (n1 + n2 - 2)
            ok, got = rep.guarded("LMeasure.partition_asymmetry", dict(spec, node=b), lambda: lm.partition_asymmetry(t.node(b)))
            if ok and not close(got, w):
                rep.v("LMeasure.partition_asymmetry", "lmeasure-partition_asymmetry", dict(spec, node=b), got, w)
            for name, fn, ends in (("bif_ampl_local", lm.bif_ampl_local, (c1, c2)), ("bif_ampl_remote", lm.bif_ampl_remote, (o.remote_end(c1), o.remote_end(c2)))):
                w = o.angle_deg(o.xyz[ends[0]] - o.xyz[b], o.xyz[ends[1]] - o.xyz[b])
                if w is None:
                    if notes is not None:
                        notes.add("bifurcation angles with a zero-length arm are undefined (the library raises ValueError there): not evaluated")
                    continue
                ok, got = rep.guarded("LMeasure." + name, dict(spec, node=b), lambda: fn(t.node(b)))
                if ok and not abs(float(got) - w) <= ANGLE_ATOL_DEG + RTOL * abs(w):
                    rep.v("LMeasure." + name, "lmeasure-" + name, dict(spec, node=b), got, w)

    # -- front end
    check_extractor(rep, t, o, want, radii, spec)
    return o


def check_extractor(rep, t, o, want, radii, spec):
    import typing

    from swcgeom.analysis import extract_feature
    from swcgeom.analysis.feature_extractor import Feature

    fe = extract_feature(t)
    for name in typing.get_args(Feature):
        if name in DEPRECATED_FEATURES:
            continue
        if name not in want:
            rep.v("extract_feature.get", "extractor-agrees", dict(spec, feature=name), "feature name without an oracle", "a known feature")
            continue
        kw = dict(FEATURE_KWARGS.get(name, {}))
        if name == "sholl":
            if o.n < 2:
                continue
            kw["steps"] = radii
        ok, got = rep.guarded("extract_feature.get", dict(spec, feature=name), lambda: fe.get(name, **kw))
        kind, w = want[name]
        if ok and not close_kind(kind, got, w):
            rep.v("extract_feature.get", "extractor-agrees", dict(spec, feature=name), got, w)
    # list / dict forms return the same numbers
    ok, got = rep.guarded("extract_feature.get", dict(spec, feature="list+dict"), lambda: (fe.get(["length", "tip_count"]), fe.get({"length": {}, "volume": {"accuracy": 1}})))
    if ok and not (close(got[0][0], want["length"][1]) and close(got[0][1], want["tip_count"][1]) and close(got[1]["length"], want["length"][1]) and close(got[1]["volume"], [o.sphere_sum()])):
        rep.v("extract_feature.get", "extractor-agrees", dict(spec, feature="list+dict"), got, "length, tip_count, volume(accuracy=1)")


def check_population(rep, tables):
    """tables: list of (pid, xyz).  One zero-padded row per tree."""
    import typing

    from swcgeom.analysis import extract_feature
    from swcgeom.analysis.feature_extractor import Feature
    from swcgeom.core import Population

    specs, trees, oracles = [], [], []
    for pid, xyz in tables:
        n = len(pid)
        specs.append(spec_of(pid, xyz, default_r(n), default_types(n)))
        trees.append(make_tree(pid, xyz, default_r(n), default_types(n)))
        oracles.append(Oracle(pid, xyz, default_r(n)))
    spec = dict(kind="population", trees=specs)
    rmax = max(max(o.radial(i) for i in range(o.n)) for o in oracles)
    radii = [k * 0.5 for k in range(0, 2 * (int(math.ceil(rmax)) + 1) + 1)]
    wants = [oracle_features(o, radii) for o in oracles]
    ok, fe = rep.guarded("extract_feature", spec, lambda: extract_feature(Population(trees)))
    if not ok:
        return
    for name in typing.get_args(Feature):
        if name in DEPRECATED_FEATURES or name not in wants[0]:
            continue
        kw = dict(FEATURE_KWARGS.get(name, {}))
        if name == "sholl":
            if any(o.n < 2 for o in oracles):
                continue
            kw["steps"] = radii
        sp = dict(spec, feature=name)
        ok, got = rep.guarded("PopulationFeatureExtractor.get", sp, lambda: fe.get(name, **kw))
        if not ok:
            continue
        got = np.asarray(got)
        lmax = max(len(w[name][1]) for w in wants)
        if got.shape != (len(trees), lmax):
            rep.v("PopulationFeatureExtractor.get", "population-zero-padded", sp, dict(shape=list(got.shape)), dict(shape=[len(trees), lmax]))
            continue
        for k, w in enumerate(wants):
            kind, vals = w[name]
            if not (close_kind(kind, got[k, :len(vals)], vals) and np.all(got[k, len(vals):] == 0)):
                rep.v("PopulationFeatureExtractor.get", "population-zero-padded", dict(sp, row=k), got[k], dict(values=vals, padded_to=lmax))
    # default Sholl of a population: common radii k*rmax/21 of the largest tree
    if any(o.n < 2 for o in oracles):
        return
    ok, got = rep.guarded("PopulationFeatureExtractor.get_sholl", dict(spec, feature="sholl"), lambda: np.asarray(fe.get("sholl")))
    if ok and rmax > 0:
        if got.shape != (len(trees), 20):
            rep.v("PopulationFeatureExtractor.get_sholl", "sholl-step-count", dict(spec, feature="sholl"), dict(shape=list(got.shape)), dict(shape=[len(trees), 20]))
        else:
            rs = [rmax * k / 21 for k in range(1, 21)]
            for k, o in enumerate(oracles):
                lo, hi = [o.sholl(x * (1 - 2e-6)) for x in rs], [o.sholl(x * (1 + 2e-6)) for x in rs]
                if any(int(g) not in (a, b) for g, a, b in zip(got[k], lo, hi)):
                    rep.v("PopulationFeatureExtractor.get_sholl", "population-zero-padded", dict(spec, feature="sholl", row=k), got[k], dict(below=lo, above=hi))


def tree_cases(tier, seed):
    """(pid, xyz, label) in order of increasing size."""
    nmax = 6 if tier == "quick" else 7
    for pid in all_sorted_tables_upto(nmax):
        for mode in ("lattice", "walk"):
            yield pid, coords_for(pid, mode=mode), mode
    rng = random.Random(seed)
    for k in range(60 if tier == "quick" else 300):
        n = rng.randint(7, 16)
        pid = random_sorted_table(rng, n)
        if k % 3 == 0:  # binary trees for the bifurcation-only measures
            pid = _random_binary(rng, n)
        yield pid, coords_for(pid, rng=rng, mode="walk"), "random"


def _random_binary(rng, n):
    pid, deg = [-1], [0]
    for i in range(1, n):
        p = rng.choice([j for j in range(i) if deg[j] < 2])
        pid.append(p)
        deg[p] += 1
        deg.append(0)
    return tuple(pid)


def check_populations(rep, layout):
    """layout: list of populations, each a list of (pid, xyz).  extract_feature(Populations(..)).get(name) is one zero-padded block
    (population, tree, value); compared with the single-tree front end of the library for three list-valued / scalar features."""
    from swcgeom.analysis import extract_feature
    from swcgeom.core import Population, Populations

    def tree_of(pid, xyz):
        n = len(pid)
        return make_tree(pid, xyz, default_r(n), default_types(n))

    spec = dict(kind="populations", layout=[[spec_of(pid, xyz, default_r(len(pid)), default_types(len(pid))) for pid, xyz in pop] for pop in layout])
    ok, fe = rep.guarded("extract_feature", spec, lambda: extract_feature(Populations([Population([tree_of(p, x) for p, x in pop]) for pop in layout])))
    if not ok:
        return
    nrow = max(len(pop) for pop in layout)  # every tree of every population gets its row; shorter populations are padded with zero rows
    for name in ("length", "node_radial_distance", "branch_length"):
        sp = dict(spec, feature=name)
        ok, got = rep.guarded("PopulationsFeatureExtractor.get", sp, lambda: np.asarray(fe.get(name)))
        if not ok:
            continue
        want_rows = [[np.atleast_1d(np.asarray(extract_feature(tree_of(p, x)).get(name), dtype=np.float32)) for p, x in pop[:nrow]] for pop in layout]
        lmax = max(len(v) for rows in want_rows for v in rows)
        if tuple(got.shape) != (len(layout), nrow, lmax):
            rep.v("PopulationsFeatureExtractor.get", "population-zero-padded", sp, dict(shape=list(got.shape)), dict(shape=[len(layout), nrow, lmax]))
            continue
        for i, rows in enumerate(want_rows):
            for j, v in enumerate(rows):
                if not (np.allclose(got[i, j, : len(v)], v, rtol=1e-5, atol=1e-6) and not np.any(got[i, j, len(v):])):
                    rep.v("PopulationsFeatureExtractor.get", "population-zero-padded", dict(sp, population=i, row=j), got[i, j], dict(values=v, padded_to=lmax))
            if np.any(got[i, len(rows):]):
                rep.v("PopulationsFeatureExtractor.get", "population-zero-padded", dict(sp, population=i), got[i, len(rows):], "zero rows beyond the population's last tree")


def run(ctx):
    rep = Rep(ctx)
    notes = set()
    pool = []
    for pid, xyz, mode in tree_cases(ctx.tier, ctx.seed):
        o = check_tree(rep, pid, xyz, notes)
        ctx.case("tree", dict(pid=list(pid), coords=mode if mode != "random" else [[round(float(a), 4) for a in row] for row in xyz]), nontrivial=len(pid) >= 2)
        if len(pid) <= 6:
            pool.append((pid, xyz))
    rng = random.Random(ctx.seed + 1)
    for k in range(40 if ctx.tier == "quick" else 300):
        trio = [pool[0]] + rng.sample(pool, 2) if k == 0 else rng.sample(pool, 3)
        check_population(rep, trio)
        ctx.case("population", dict(pids=[list(p) for p, _ in trio], k=k), nontrivial=True)
    for k, sizes in enumerate([[1], [2], [1, 1], [2, 1], [3, 3], [1, 2, 1]]):  # Populations front end, down to ONE tree in total
        layout = [[rng.choice(pool) for _ in range(m)] for m in sizes]
        check_populations(rep, layout)
        ctx.case("populations", dict(sizes=sizes, pids=[[list(p) for p, _ in pop] for pop in layout]), nontrivial=True)
    for s in sorted(notes):
        ctx.notes.append(s)
    ctx.notes.append("LMeasure methods that raise unconditionally (not evaluated): " + ", ".join(UNCONDITIONAL_RAISERS))
    ctx.notes.append("extract_feature names 'bifurcation_count'/'bifurcation_radial_distance' are rejected by design (DeprecationWarning) and are not evaluated; "
                     "'volume' is requested with accuracy=2 (plain sum, cf. C14)")
    ctx.notes.append("LMeasure.n_bifs, partition_asymmetry and bif_ampl_* are evaluated on binary trees only; list-valued branch/path features and node_branch_order are compared as multisets")
    if rep.count:
        ctx.notes.append(f"{rep.count} failing clause evaluations in total; at most 3 reported per (carrier, clause), smallest trees first")
    ctx.rule("every sorted parent table with <= %d nodes x {lattice coordinates with coincident points / zero-length segments, walk coordinates}, root type 1, "
             "plus seeded random trees of 7-16 nodes (one third binary) with jittered coordinates; every clause against an independent loop implementation of the "
             "definitions (Sholl at all half-integer radii up to rmax+1, mid-points between node radii, and step counts 1, 3, 20); seeded 3-tree populations; Populations of 1..3 populations x 1..3 trees. "
             "Non-trivial = at least one edge" % (6 if ctx.tier == "quick" else 7), exhaustive=False)


def replay(spec):
    class C:
        def __init__(self):
            self.violations, self.notes = [], []

        def violation(self, *a, **k):
            self.violations.append(a)

    c = C()
    rep = Rep(c, cap=10 ** 9)
    if spec.get("kind") == "populations":
        check_populations(rep, [[(s["pid"], np.array(s["xyz"])) for s in pop] for pop in spec["layout"]])
    elif spec.get("kind") == "population":
        check_population(rep, [(s["pid"], np.array(s["xyz"])) for s in spec["trees"]])
    else:
        check_tree(rep, spec["pid"], np.array(spec["xyz"]))
    for v in c.violations:
        print("  still failing:", v[:2], v[3:5])
    return not c.violations
