"""C07 bounded stand-in: re-rooting (redirect_tree) and concatenation (cat_tree).

Every input tree carries a unique extra column `tag` (100 + id for the first tree, 200 + id for the second);
the node correspondence of a result is read off that column and every clause is evaluated with plain loops
over the original tables.  Coordinates are small multiples of 0.25 so that float32 arithmetic is exact and
"coincident" is unambiguous (distance 0 or >= 0.25).
"""
from __future__ import annotations

import random

import numpy as np

from .common import same_snapshot, snapshot_tree, sorted_parent_tables

STEPS = [(1, 0, 0), (0, 1, 0), (0, 0, 1), (1, 1, 0), (0.5, 0, 1), (0, 1.5, 0.5), (2, 0, 0.25)]


class _Lim:
    def __init__(self, ctx, cap=3):
        self.ctx, self.cap, self.n = ctx, cap, {}

    def case(self, *a, **k):
        self.ctx.case(*a, **k)

    def violation(self, carrier, clause, input, observed, expected, replay=None):
        k = (carrier, clause)
        self.n[k] = self.n.get(k, 0) + 1
        if self.n[k] <= self.cap:
            self.ctx.violation(carrier, clause, input, observed, expected, replay)


def coords(pid, origin, salt):
    """Distinct exact coordinates: node = parent + a step depending on (node, salt)."""
    n = len(pid)
    xyz = np.zeros((n, 3))
    order = []
    ch = {i: [] for i in range(n)}
    for i, p in enumerate(pid):
        if p >= 0:
            ch[p].append(i)
    todo = [0]
    while todo:
        x = todo.pop()
        order.append(x)
        todo.extend(ch[x])
    for x in order:
        if pid[x] < 0:
            xyz[x] = origin
        else:
            xyz[x] = xyz[pid[x]] + np.array(STEPS[(2 * x + salt) % len(STEPS)]) * (1 + 0.25 * (x % 2))
    return xyz


def build(pid, which, shift=None):
    """which = 1 / 2: first / second tree (different tags, types, radii, origin)."""
    from swcgeom.core import Tree

    n = len(pid)
    if which == 1:
        xyz = coords(pid, (1.0, 2.0, 3.0), 0)
        types = [1] + [2 + i for i in range(1, n)]          # all distinct
        r = [1.0 + 0.25 * i for i in range(n)]
        tag = 100.0 + np.arange(n)
    else:
        xyz = coords(pid, (-7.5, 0.25, 11.0), 3)
        types = [11] + [12 + i for i in range(1, n)]
        r = [3.0 + 0.5 * i for i in range(n)]
        tag = 200.0 + np.arange(n)
    if shift is not None:
        xyz = xyz + np.array(shift)
    return Tree(
        n, id=np.arange(n, dtype=np.int32), type=np.array(types, dtype=np.int32), x=xyz[:, 0].astype(np.float32), y=xyz[:, 1].astype(np.float32),
        z=xyz[:, 2].astype(np.float32), r=np.array(r, dtype=np.float32), pid=np.array(pid, dtype=np.int32), tag=tag,
    )


def undirected(pid, label=lambda i: i):
    return {frozenset((label(i), label(p))) for i, p in enumerate(pid) if p >= 0}


def _fmt(edges):
    return sorted(tuple(sorted(map(str, e))) for e in edges)


# ---------------------------------------------------------------- redirect_tree
def renumber(tree, perm):
    """the same tree with node i stored at position perm[i] (ids = positions again, tags re-issued per position)"""
    from swcgeom.core import Tree

    n = tree.number_of_nodes()
    inv = [0] * n
    for i, q in enumerate(perm):
        inv[q] = i
    cols = {k: np.asarray(tree.get_ndata(k))[inv].copy() for k in tree.keys() if k not in ("id", "pid", "tag")}
    old_pid = [int(v) for v in tree.pid()]
    pid = [(-1 if old_pid[inv[q]] < 0 else perm[old_pid[inv[q]]]) for q in range(n)]
    return Tree(n, id=np.arange(n, dtype=np.int32), pid=np.array(pid, dtype=np.int32), tag=100.0 + np.arange(n), **cols)


def check_redirect(ctx, spec):
    from swcgeom.core import Tree, redirect_tree

    carrier = "redirect_tree"
    pid = [int(v) for v in spec["pid"]]
    n, new_root, sort = len(pid), int(spec["new_root"]), bool(spec["sort"])
    V = lambda clause, obs, exp: ctx.violation(carrier, clause, spec, obs, exp, spec)  # noqa: E731
    tree = build(pid, 1)
    if spec.get("perm") is not None:
        # any numbering: node i of the sorted table becomes node perm[i] (the root sits anywhere, parents need not precede their children)
        tree = renumber(tree, [int(v) for v in spec["perm"]])
        pid = [int(v) for v in tree.pid()]
    if spec.get("first") is not None:
        # two-step history: the input is itself a re-rooted tree kept unsorted (its root is NOT node 0)
        tree = redirect_tree(tree, int(spec["first"]), sort=False)
        pid = [int(v) for v in tree.pid()]
    old_root = pid.index(-1)
    orig = snapshot_tree(tree)
    try:
        res = redirect_tree(tree, new_root, sort=sort)
        if not same_snapshot(tree, orig):
            V("inputs-unchanged", "input tree modified", "input tree as before the call")
        if not isinstance(res, Tree) or "tag" not in list(res.keys()):
            V("nodes-and-attributes-kept", f"{type(res).__name__} with columns {sorted(res.keys()) if isinstance(res, Tree) else None}", f"a Tree with columns {sorted(orig)}")
        else:
            m = res.number_of_nodes()
            olds = [int(round(float(t) - 100)) for t in res.get_ndata("tag")]
            if sorted(olds) != list(range(n)) or m != n:
                V("nodes-and-attributes-kept", f"old ids {olds}", f"a permutation of {list(range(n))}")
            else:
                if set(res.keys()) != set(orig):
                    V("nodes-and-attributes-kept", f"columns {sorted(res.keys())}", f"columns {sorted(orig)}")
                for col in orig:
                    if col in ("id", "pid", "type") or col not in res.keys():
                        continue
                    got, want = res.get_ndata(col), orig[col][olds]
                    if not np.array_equal(got, want) or got.dtype != want.dtype:
                        V("nodes-and-attributes-kept", f"{col} = {got.tolist()}", f"{col} = {want.tolist()} (old ids {olds})")
                want_type = {i: int(orig["type"][i]) for i in range(n)}
                want_type[old_root], want_type[new_root] = int(orig["type"][new_root]), int(orig["type"][old_root])
                got_type = {o: int(res.type()[k]) for k, o in enumerate(olds)}
                other = {o for o in range(n) if o not in (old_root, new_root) and got_type[o] != want_type[o]}
                if other:
                    V("nodes-and-attributes-kept", f"types by old id {got_type}", f"{want_type}")
                elif got_type != want_type:
                    V("root-types-exchanged", f"types by old id {got_type}", f"{want_type} (old root {old_root} and new root {new_root} exchanged)")
                ids, pids = [int(v) for v in res.id()], [int(v) for v in res.pid()]
                pos = {int(i): k for k, i in enumerate(ids)}
                if len(pos) != n or (sort and ids != list(range(n))) or (not sort and olds != ids):
                    V("nodes-and-attributes-kept", f"ids {ids} (old ids {olds})", "ids 0..n-1" + ("" if sort else ", unchanged per node"))
                elif any(p != -1 and p not in pos for p in pids):
                    V("undirected-edges-kept", f"pids {pids}", "every parent id exists")
                else:
                    got_e = {frozenset((olds[k], olds[pos[p]])) for k, p in enumerate(pids) if p != -1}
                    n_e = sum(1 for p in pids if p != -1)
                    want_e = undirected(pid)
                    if got_e != want_e or n_e != len(want_e):
                        V("undirected-edges-kept", f"{_fmt(got_e)} ({n_e} parent links)", f"{_fmt(want_e)}")
                    roots = [olds[k] for k, p in enumerate(pids) if p == -1]
                    if roots != [new_root]:
                        V("unique-root-is-requested", f"roots (old ids) {roots}", f"[{new_root}]")
                    elif sort and (pids[0] != -1 or any(not (0 <= pids[k] < k) for k in range(1, n))):
                        V("unique-root-is-requested", f"pids {pids}", "sorted: root first, parents before children")
    except Exception as e:
        V("operation-raises", f"{type(e).__name__}: {e}", "no exception")
    ctx.case(carrier, spec, nontrivial=n >= 2 and new_root != old_root)


# ---------------------------------------------------------------- cat_tree
def check_cat(ctx, spec):
    from swcgeom.core import Tree, cat_tree

    carrier = "cat_tree"
    pid1, pid2 = [int(v) for v in spec["pid1"]], [int(v) for v in spec["pid2"]]
    n1, n2 = len(pid1), len(pid2)
    node1, node2, translate, placed = int(spec["node1"]), int(spec["node2"]), bool(spec["translate"]), bool(spec["coincident_input"])
    V = lambda clause, obs, exp: ctx.violation(carrier, clause, spec, obs, exp, spec)  # noqa: E731
    t1 = build(pid1, 1)
    t2 = build(pid2, 2)
    far = float(spec.get("far", 0.0))
    if far:  # second tree far from the origin, first tree off the quarter lattice: single precision cannot represent the translation exactly
        t1 = build(pid1, 1, shift=(0.3, 0.7, 0.1))
        t2 = build(pid2, 2, shift=(far + 0.123, 2 * far + 0.456, -3 * far - 0.789))
    if placed:  # second tree given such that the junction nodes already coincide
        t2 = build(pid2, 2, shift=(t1.xyz()[node1].astype(np.float64) - t2.xyz()[node2].astype(np.float64)) + np.array([float(spec.get("gap", 0.0)), 0.0, 0.0]))
    o1, o2 = snapshot_tree(t1), snapshot_tree(t2)
    xyz1, xyz2 = t1.xyz().astype(np.float64), t2.xyz().astype(np.float64)
    delta = (xyz1[node1] - xyz2[node2]) if translate else np.zeros(3)
    coincide = float(np.linalg.norm(xyz2[node2] + delta - xyz1[node1])) < 1e-5
    try:
        res = cat_tree(t1, t2, node1, node2, translate=translate)
        if not same_snapshot(t1, o1) or not same_snapshot(t2, o2):
            V("inputs-unchanged", "an input tree was modified", "both inputs as before the call")
        if not isinstance(res, Tree) or "tag" not in list(res.keys()):
            V("first-tree-unchanged", f"{type(res).__name__}", "a Tree with the columns of the first tree")
            raise _Done()
        tags = [float(t) for t in res.get_ndata("tag")]
        lab = [("a", int(round(t - 100))) if t < 150 else ("b", int(round(t - 200))) for t in tags]
        m = len(lab)
        pos_of = {}
        for k, l in enumerate(lab):
            pos_of.setdefault(l, []).append(k)
        # --- first tree
        a_nodes = sorted(l[1] for l in lab if l[0] == "a")
        if a_nodes != list(range(n1)):
            V("first-tree-unchanged", f"first-tree nodes in the result {a_nodes}", f"{list(range(n1))} once each")
            raise _Done()
        for col in o1:
            if col in ("id", "pid"):
                continue
            if col not in res.keys():
                V("first-tree-unchanged", f"column {col} missing", f"columns {sorted(o1)}")
                continue
            got = [res.get_ndata(col)[pos_of[("a", i)][0]] for i in range(n1)]
            if not np.array_equal(np.array(got), o1[col]):
                V("first-tree-unchanged", f"{col} of the first tree's nodes {np.array(got).tolist()}", f"{o1[col].tolist()}")
        ids, pids = [int(v) for v in res.id()], [int(v) for v in res.pid()]
        if ids != list(range(m)) or any(p != -1 and not (0 <= p < m) for p in pids):
            V("no-other-edge", f"ids {ids} pids {pids}", "ids 0..m-1 and existing parents")
            raise _Done()
        for i in range(n1):
            k = pos_of[("a", i)][0]
            want = ("a", pid1[i]) if pid1[i] >= 0 else None
            got = lab[pids[k]] if pids[k] != -1 else None
            if got != want:
                V("first-tree-unchanged", f"parent of first-tree node {i} is {got}", f"{want}")
                break
        if pids.count(-1) != 1:
            V("no-other-edge", f"pids {pids}", "exactly one root (the first tree's)")
        # --- second tree: which nodes, where
        b_nodes = sorted(l[1] for l in lab if l[0] == "b")
        want_b = [j for j in range(n2) if not (coincide and j == node2)]
        if coincide and node2 in b_nodes and sorted(set(b_nodes)) == list(range(n2)):
            V("coincident-junction-merged", f"second-tree nodes in the result {b_nodes} ({m} nodes)", f"{want_b}: junction node {node2} merged into first-tree node {node1} ({n1 + n2 - 1} nodes)")
            raise _Done()
        if b_nodes != want_b:
            V("second-tree-rigidly-translated" if not coincide else "coincident-junction-merged", f"second-tree nodes in the result {b_nodes}", f"{want_b} once each")
            raise _Done()
        for col, clause in (("x", "second-tree-rigidly-translated"), ("y", "second-tree-rigidly-translated"), ("z", "second-tree-rigidly-translated"),
                            ("r", "second-tree-attributes-kept"), ("type", "second-tree-attributes-kept")):
            got = np.array([res.get_ndata(col)[pos_of[("b", j)][0]] for j in want_b], dtype=np.float64)
            src = np.array(o2[col], dtype=np.float64)
            if col == "type" and pid2[node2] != -1:
                # joining at a non-root node re-roots the copy of the second tree there; the property's own
                # re-rooting clause exchanges the types of the old and the new root (DESIGN.md section 9)
                root2 = pid2.index(-1)
                src[root2], src[node2] = src[node2], src[root2]
            want = np.array([src[j] for j in want_b], dtype=np.float64)
            if col in "xyz":
                want = want + delta["xyz".index(col)]
            if len(want_b) and not np.allclose(got, want, rtol=0, atol=1e-6 + (4 * 1.2e-7 * 3 * far if col in "xyz" else 0.0)):
                V(clause, f"{col} of second-tree nodes {want_b}: {got.tolist()}", f"{want.tolist()}" + (f" (translated by {delta.tolist()})" if col in "xyz" else ""))
        # --- edges
        got_e = {frozenset((lab[k], lab[p])) for k, p in enumerate(pids) if p != -1}
        e1 = undirected(pid1, lambda i: ("a", i))
        rename = (lambda j: ("a", node1) if j == node2 else ("b", j)) if coincide else (lambda j: ("b", j))
        e2 = undirected(pid2, rename)
        junction = set() if coincide else {frozenset((("a", node1), ("b", node2)))}
        if coincide:  # the links of the merged node to the junction node's former neighbours realise the join
            junction = {e for e in e2 if ("a", node1) in e}
        expected = e1 | e2 | junction
        missing, extra = expected - got_e, got_e - expected
        if missing & e1:
            V("first-tree-unchanged", f"edges {_fmt(got_e)}", f"containing {_fmt(e1)}")
        if missing & junction:
            V("joined-at-node", f"edges {_fmt(got_e)}", f"containing {_fmt(junction)}")
        if extra or (missing - e1 - junction) or len(got_e) != m - 1:
            V("no-other-edge", f"edges {_fmt(got_e)}", f"exactly {_fmt(expected)}")
        if any(not (0 <= pids[k] < k) for k in range(1, m)) or pids[0] != -1:
            V("no-other-edge", f"pids {pids}", "a sorted tree (the result is renumbered)")
    except _Done:
        pass
    except Exception as e:
        V("operation-raises", f"{type(e).__name__}: {e}", "no exception")
    ctx.case(carrier, spec, nontrivial=True)


class _Done(Exception):
    pass


def run(ctx):
    random.Random(ctx.seed)
    lim = _Lim(ctx)
    thorough = ctx.tier != "quick"
    nr, na, nb = (6, 5, 4) if thorough else (5, 4, 3)
    for n in range(1, nr + 1):
        for pid in sorted_parent_tables(n):
            for new_root in range(n):
                for sort in (True, False):
                    check_redirect(lim, dict(pid=list(pid), new_root=new_root, sort=sort))
            if 3 <= n <= (5 if thorough else 4):
                for first in range(1, n):
                    for new_root in range(n):
                        check_redirect(lim, dict(pid=list(pid), first=first, new_root=new_root, sort=bool((first + new_root) % 2)))
    # every numbering: all relabellings of every tree <= 4 (thorough 5) nodes -- the root at any position, children before parents allowed
    import itertools

    nperm = 5 if thorough else 4
    for n in range(2, nperm + 1):
        for pid in sorted_parent_tables(n):
            for perm in itertools.permutations(range(n)):
                if list(perm) == list(range(n)):
                    continue
                for new_root in range(n):
                    for sort in (True, False):
                        check_redirect(lim, dict(pid=list(pid), perm=list(perm), new_root=new_root, sort=sort))
    ctx.rule(f"redirect_tree on every numbering: every relabelling (all n! permutations of the node positions) of every tree <= {nperm} nodes x every new root x sort on/off", exhaustive=True)
    t1s = [list(p) for n in range(1, na + 1) for p in sorted_parent_tables(n)]
    t2s = [list(p) for n in range(1, nb + 1) for p in sorted_parent_tables(n)]
    for p1 in t1s:
        for p2 in t2s:
            for node1 in range(len(p1)):
                for node2 in range(len(p2)):
                    for translate in (True, False):
                        for placed in (False, True):
                            check_cat(lim, dict(pid1=p1, pid2=p2, node1=node1, node2=node2, translate=translate, coincident_input=placed))
                        if translate and len(p1) <= 3 and len(p2) <= 3:
                            for far in (1e3, 1e4):  # translation requested: the junction nodes coincide by construction, wherever the second tree lies
                                check_cat(lim, dict(pid1=p1, pid2=p2, node1=node1, node2=node2, translate=True, coincident_input=False, far=far))
                        if not translate and len(p1) <= 3 and len(p2) <= 3:
                            for gap in (2e-3, 2.5e-4):  # close but NOT coincident junction nodes: linked, never merged
                                check_cat(lim, dict(pid1=p1, pid2=p2, node1=node1, node2=node2, translate=False, coincident_input=True, gap=gap))
    ctx.rule(
        f"redirect_tree: every sorted parent table <= {nr} nodes x every new root x sort on/off; cat_tree: every pair (first <= {na} nodes, second <= {nb} nodes) x every junction pair x "
        "translate on/off x second tree given apart / already coincident at the junction (so merge and plain link both occur in both modes) / 2e-3 and 2.5e-4 away from it (linked, not merged) / second tree 1e3 and 1e4 away from the origin with translation requested (single-precision coordinates; positions compared up to 4 ulp there); two-step re-rooting histories (first re-root unsorted, so the root is not node 0). Exact quarter-lattice coordinates, distinct types and radii. "
        "Non-trivial (redirect) = new root differs from the old one",
        exhaustive=True,
    )


class _Collect:
    def __init__(self):
        self.v = []
        self.notes = []

    def case(self, *a, **k):
        pass

    def violation(self, *a, **k):
        self.v.append(a)


def replay(spec):
    c = _Collect()
    (check_cat if "pid1" in spec else check_redirect)(c, spec)
    for v in c.v:
        print("  still failing:", v[:2], v[3:5])
    return not c.v
