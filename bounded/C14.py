"""C14 bounded stand-in: tree volume = union of node spheres and connecting frusta.

Levels 1 and 2 on every small tree against plain sums; levels 3..9 on collinear trees
(chains and two-armed roots) against numeric quadrature of pi * int max(profile)^2 along
the line (the quadrature of C13.py, which knows nothing about the library's formulas)."""
from __future__ import annotations

import itertools
import math
import random

import numpy as np

from .C13 import frustum_sq, revolve, sphere_sq
from .common import all_sorted_tables_upto, coords_for, make_tree, random_sorted_table

RTOL = 1e-5
ANALYTIC_LEVELS = [3, 4, 5, 6, 7, 8, 9]  # 10 is the Monte-Carlo-only level
NAMED = {"low": 3, "middle": 5, "high": 8}
AXES = [(1.0, 0.0, 0.0), (0.0, 0.0, 1.0), (1 / math.sqrt(3),) * 3, (-2 / 7, 3 / 7, 6 / 7)]
ORIGINS = [(0.0, 0.0, 0.0), (1.0, 2.0, 3.0), (-40.0, 12.5, 7.0), (100.0, -100.0, 50.0)]


class Rep:
    def __init__(self, ctx, cap=3):
        self.ctx, self.cap, self.seen, self.count = ctx, cap, {}, 0

    def v(self, carrier, clause, spec, observed, expected):
        self.count += 1
        k = (carrier, clause)
        self.seen[k] = self.seen.get(k, 0) + 1
        if self.seen[k] <= self.cap:
            self.ctx.violation(carrier, clause, spec, observed, expected, spec)


def close(a, b):
    return abs(float(a) - float(b)) <= RTOL * abs(float(b)) + 1e-9


def f32(a):
    return np.asarray(a, dtype=np.float32).astype(np.float64)


# ----------------------------------------------------------------------- levels 1 and 2
def check_sums(rep, spec):
    """spec: pid, xyz, r -- any tree.  Level 1 = sum of spheres, level 2 = + frusta."""
    from swcgeom.analysis import extract_feature, get_volume

    pid, xyz, r = spec["pid"], f32(spec["xyz"]), f32(spec["r"])
    t = make_tree(pid, np.array(spec["xyz"]), np.array(spec["r"]))
    spheres = sum(4.0 / 3.0 * math.pi * x ** 3 for x in r)
    frusta = 0.0
    for i, p in enumerate(pid):
        if p >= 0:
            h = math.dist(xyz[i], xyz[p])
            frusta += math.pi / 3.0 * h * (r[p] ** 2 + r[p] * r[i] + r[i] ** 2)
    for level, want, clause in ((1, spheres, "level1-sum-of-spheres"), (2, spheres + frusta, "level2-spheres-plus-frusta")):
        sp = dict(spec, level=level)
        try:
            got = get_volume(t, accuracy=level)
            got_fe = float(extract_feature(t).get("volume", accuracy=level)[0])
        except Exception as e:
            rep.v("get_volume", "operation-raises", sp, f"{type(e).__name__}: {e}", "no exception")
            continue
        if not close(got, want):
            rep.v("get_volume", clause, sp, float(got), want)
        if not close(got_fe, want):
            rep.v("extract_feature.get('volume')", clause, sp, got_fe, want)


# ------------------------------------------------------------------------- levels 3..9
def collinear_xyz(spec):
    o, u = np.array(spec["origin"], dtype=np.float64), np.array(spec["axis"], dtype=np.float64)
    if "lattice" in spec:  # exactly representable positions: origin + m_i * w / den with an integer vector w and integers m_i
        w, den = np.array(spec["lattice"]["w"], dtype=np.float64), float(spec["lattice"]["den"])
        return np.array([o + (m * w) / den for m in spec["lattice"]["m"]])
    return np.array([o + t * u for t in spec["t"]])


def union_volume(pid, xyz, r):
    """Quadrature of the union for a collinear tree: signed abscissa of every node along the
    line through the root (re-measured from the float32 coordinates the library sees)."""
    xyz, r = f32(xyz), f32(r)
    n = len(pid)
    far = max(range(n), key=lambda i: math.dist(xyz[i], xyz[0]))
    u = (xyz[far] - xyz[0]) / math.dist(xyz[far], xyz[0])
    s = [float((xyz[i] - xyz[0]) @ u) for i in range(n)]
    off = max(math.dist(xyz[i], xyz[0] + s[i] * u) for i in range(n))
    assert off <= 1e-5 * (1 + max(abs(v) for v in s)), "input is not collinear"
    solids = [sphere_sq(s[i], r[i]) for i in range(n)]
    for i, p in enumerate(pid):
        if p >= 0:
            a, b = (p, i) if s[p] < s[i] else (i, p)
            solids.append(frustum_sq(s[a], r[a], s[b], r[b]))
    return revolve(solids, "union")


def admissible(pid, s, r):
    """The property's precondition: each compartment at least as long as the radii at its
    ends; non-adjacent parts (spheres, frusta) do not overlap."""
    n = len(pid)
    for i, p in enumerate(pid):
        if p >= 0 and abs(s[i] - s[p]) < max(r[i], r[p]) - 1e-12:
            return False
    ext = [(s[i] - r[i], s[i] + r[i], {i}) for i in range(n)]
    ext += [(min(s[i], s[p]), max(s[i], s[p]), {i, p}) for i, p in enumerate(pid) if p >= 0]
    for (a1, b1, m1), (a2, b2, m2) in itertools.combinations(ext, 2):
        if m1 & m2:
            continue
        if len(m1) == 1 and len(m2) == 1 and (pid[min(m1)] == min(m2) or pid[min(m2)] == min(m1)):
            continue  # spheres of a parent-child pair are neighbours: they may overlap
        if min(b1, b2) - max(a1, a2) > 1e-12:  # overlap of positive length
            return False
    return True


def check_collinear(rep, spec):
    from swcgeom.analysis import get_volume

    pid, r = spec["pid"], spec["r"]
    xyz = collinear_xyz(spec)
    t = make_tree(pid, xyz, np.array(r))
    want = union_volume(pid, xyz, r)
    for level in spec["levels"]:
        sp = dict(spec, levels=[level])
        try:
            got = get_volume(t, accuracy=level)
        except Exception as e:
            rep.v("get_volume", "operation-raises", sp, f"{type(e).__name__}: {e}", "no exception")
            continue
        if not close(got, want):
            rep.v("get_volume", "level3plus-equals-union", sp, float(got), want)


def overlapping_neighbours(spec):
    return any(p >= 0 and abs(spec["t"][i] - spec["t"][p]) < spec["r"][i] + spec["r"][p] for i, p in enumerate(spec["pid"]))


RADII = [0.5, 1.0, 1.5]
FACTORS = [1.05, 1.5, 2.0, 2.5]


def chain_spec(radii, factors, k):
    t = [0.0]
    for i, f in enumerate(factors):
        t.append(t[-1] + f * max(radii[i], radii[i + 1]))
    return dict(kind="collinear", pid=[-1] + list(range(len(radii) - 1)), t=t, r=list(radii), origin=list(ORIGINS[k % 4]), axis=list(AXES[(k // 4) % 4]))


def two_arm_spec(r_root, left, right, k):
    """left/right: lists of (radius, factor) going outwards from the root."""
    pid, t, r = [-1], [0.0], [r_root]
    for sign, arm in ((1.0, right), (-1.0, left)):
        prev = 0
        for rad, f in arm:
            pid.append(prev)
            t.append(t[prev] + sign * f * max(r[prev], rad))
            r.append(rad)
            prev = len(pid) - 1
    return dict(kind="collinear", pid=pid, t=t, r=r, origin=list(ORIGINS[k % 4]), axis=list(AXES[(k // 4) % 4]))


def collinear_cases(tier, rng):
    """Yields specs (without 'levels'), smallest first."""
    k = 0
    for radii in itertools.product(RADII, repeat=2):
        for f in [1.0] + FACTORS:  # a 2-node chain may have d = max(r) exactly: nothing beyond to touch
            yield chain_spec(radii, (f,), k)
            k += 1
    full3 = [(rr, ff) for rr in itertools.product(RADII, repeat=3) for ff in itertools.product(FACTORS, repeat=2)]
    if tier == "quick":
        full3 = rng.sample(full3, 120)
    for rr, ff in full3:
        yield chain_spec(rr, ff, k)
        k += 1
    for n in (4, 5, 6):
        for _ in range(40 if tier == "quick" else 500):
            rr = [rng.choice(RADII + [0.75, 2.0]) for _ in range(n)]
            ff = [rng.choice(FACTORS + [1.2, 3.0]) for _ in range(n - 1)]
            yield chain_spec(rr, ff, k)
            k += 1
    for _ in range(20 if tier == "quick" else 300):  # continuous radii / spacings
        n = rng.randint(2, 6)
        rr = [round(rng.uniform(0.3, 2.5), 3) for _ in range(n)]
        ff = [round(rng.uniform(1.01, 3.0), 3) for _ in range(n - 1)]
        yield chain_spec(rr, ff, k)
        k += 1


def two_arm_cases(tier, rng):
    k = 0
    for r0, r1, r2 in itertools.product(RADII, repeat=3):
        for f1, f2 in ((1.05, 1.05), (1.5, 2.5), (2.0, 2.0), (2.5, 1.05)):
            yield two_arm_spec(r0, [(r1, f1)], [(r2, f2)], k)
            k += 1
    for _ in range(30 if tier == "quick" else 400):
        nl, nr = rng.randint(1, 3), rng.randint(1, 2)
        arm = lambda m: [(rng.choice(RADII + [0.75]), rng.choice(FACTORS + [1.2])) for _ in range(m)]  # noqa: E731
        yield two_arm_spec(rng.choice(RADII), arm(nl), arm(nr), k)
        k += 1


# ------------------------------------------------------------ far from the origin, short compartments
# Origins 4e4 .. 1e6 away from the coordinate origin (every coordinate a multiple of 1/16 below 2^20: exact in float32), lines along
# integer vectors w (axis-parallel in both directions, in a coordinate plane, oblique with three non-zero components), nodes at
# origin + m_i * w / 16.  Compartments are SHORT (0.2 .. 3 units, i.e. 1e-6 .. 1e-4 of the coordinates), radii taper both ways.
FAR_ORIGINS = [(983040.0, 0.0, 0.0), (0.0, 0.0, -524288.0), (65536.0, 131072.0, -262144.0), (-999424.0, 786432.0, 589824.0), (40000.0, -40000.0, 40000.0)]
LATTICE_DIRS = [(1, 0, 0), (0, 0, -1), (0, -1, 0), (3, 4, 0), (2, -3, 6), (1, 2, 2), (-1, -2, 2)]
DYADIC_RADII = [0.125, 0.1875, 0.25, 0.375, 0.5, 0.75, 1.0, 1.5]


def far_cases(tier, rng):
    den = 16
    per = 2 if tier == "quick" else 8
    for oi, o in enumerate(FAR_ORIGINS):
        for wi, w in enumerate(LATTICE_DIRS):
            unit = math.sqrt(sum(c * c for c in w)) / den  # distance between neighbouring lattice points of the line
            for j in range(per):
                two_arm = (j % 2 == 1)
                n_right, n_left = rng.randint(1, 3), (rng.randint(1, 2) if two_arm else 0)
                pid, m, r = [-1], [0], [None]
                for sign, count in ((1, n_right), (-1, n_left)):
                    prev = 0
                    for _ in range(count):
                        steps = max(1, round(rng.choice([0.25, 0.5, 0.75, 1.0, 1.5, 2.0, 3.0]) / unit))
                        pid.append(prev)
                        m.append(m[prev] + sign * steps)
                        r.append(None)
                        prev = len(pid) - 1
                t = [mi * unit for mi in m]
                for i in range(len(pid)):  # radii: dyadic, at most the length of every compartment that ends here
                    lim = min([abs(t[i] - t[pid[i]])] * (pid[i] >= 0) + [abs(t[c] - t[i]) for c in range(len(pid)) if pid[c] == i])
                    ok = [x for x in DYADIC_RADII if x <= lim] or [lim / 2]
                    r[i] = rng.choice(ok[-3:])
                u = [c / (unit * den) for c in w]
                yield dict(kind="collinear", pid=pid, t=t, r=r, origin=list(o), axis=u, lattice=dict(w=list(w), den=den, m=m))


# ------------------------------------------------------------------------------- driver
def small_tree_cases(tier, rng):
    nmax = 5 if tier == "quick" else 6
    for pid in all_sorted_tables_upto(nmax):
        n = len(pid)
        for mode in ("walk", "lattice"):
            xyz = coords_for(pid, mode=mode)
            for rset in (0, 1):
                r = [1.0 + 0.25 * (i % 3) for i in range(n)] if rset == 0 else [round(0.2 + 0.37 * ((i * 5 + 3) % 7), 3) for i in range(n)]
                yield dict(kind="tree", pid=list(pid), xyz=[[float(a) for a in row] for row in xyz], r=r)
    for _ in range(15 if tier == "quick" else 200):
        n = rng.randint(6, 14)
        pid = random_sorted_table(rng, n)
        xyz = coords_for(pid, rng=rng)
        yield dict(kind="tree", pid=list(pid), xyz=[[round(float(a), 4) for a in row] for row in xyz], r=[round(rng.uniform(0.1, 3.0), 3) for _ in range(n)])


def run(ctx):
    rep = Rep(ctx)
    rng = random.Random(ctx.seed)
    for spec in small_tree_cases(ctx.tier, rng):
        check_sums(rep, spec)
        for level in (1, 2):
            ctx.case("sums", dict(spec, level=level), nontrivial=len(spec["pid"]) >= 2)
    skipped = 0
    for spec in collinear_cases(ctx.tier, rng):
        if not admissible(spec["pid"], spec["t"], spec["r"]):
            skipped += 1
            continue
        spec["levels"] = list(ANALYTIC_LEVELS) + ["low", "middle", "high"] if len(spec["pid"]) <= 3 else [3, 4, 5, 9]
        check_collinear(rep, spec)
        for level in spec["levels"]:
            ctx.case("chain", dict(pid=spec["pid"], t=spec["t"], r=spec["r"], pose=[spec["origin"], spec["axis"]], level=level), nontrivial=overlapping_neighbours(spec))
        nfar = getattr(rep, "_nfar", 0)
        if nfar < (12 if ctx.tier == "quick" else 60) and all(float(v) == float(np.float32(1000000.0 + v)) - 1000000.0 for v in spec["t"]):
            # the same chain far from the origin along a coordinate axis (exactly representable, exactly collinear):
            # tolerance-based "is this sphere at that end" tests must not depend on where the neuron sits
            rep._nfar = nfar + 1
            for origin, axis in (((1000000.0, 0.0, 0.0), (1.0, 0.0, 0.0)), ((0.0, 0.0, -1000000.0), (0.0, 0.0, -1.0))):
                far = dict(spec, origin=list(origin), axis=list(axis), levels=[3, 4])
                check_collinear(rep, far)
                for level in far["levels"]:
                    ctx.case("chain-far", dict(pid=far["pid"], t=far["t"], r=far["r"], pose=[far["origin"], far["axis"]], level=level), nontrivial=overlapping_neighbours(far))
    for spec in far_cases(ctx.tier, rng):
        if not admissible(spec["pid"], spec["t"], spec["r"]):
            skipped += 1
            continue
        spec["levels"] = [3, 4] if sum(1 for p in spec["pid"] if p == 0) > 1 else [3, 5, 9]  # no Monte-Carlo term for a chain
        check_collinear(rep, spec)
        for level in spec["levels"]:
            ctx.case("far-short", dict(pid=spec["pid"], m=spec["lattice"]["m"], w=spec["lattice"]["w"], r=spec["r"], origin=spec["origin"], level=level),
                     nontrivial=len(set(spec["r"])) > 1)
    mc_budget = 2 if ctx.tier == "quick" else 12  # every two-armed root at level >= 5 costs a 1e6-sample Monte-Carlo term (exactly 0 here)
    for spec in two_arm_cases(ctx.tier, rng):
        if not admissible(spec["pid"], spec["t"], spec["r"]):
            skipped += 1
            continue
        spec["levels"] = [3, 4]
        if mc_budget > 0 and overlapping_neighbours(spec):
            spec["levels"] = [3, 4] + ([5, 9] if ctx.tier == "quick" else [5, 6, 7, 8, 9])
            mc_budget -= 1
        check_collinear(rep, spec)
        for level in spec["levels"]:
            ctx.case("two-arm", dict(pid=spec["pid"], t=spec["t"], r=spec["r"], pose=[spec["origin"], spec["axis"]], level=level), nontrivial=overlapping_neighbours(spec))
    if rep.count:
        ctx.notes.append(f"{rep.count} failing clause evaluations in total; at most 3 reported per (carrier, clause), smallest inputs first")
    ctx.notes.append(f"{skipped} generated collinear layouts were outside the precondition (non-adjacent parts overlapping) and were not evaluated")
    ctx.notes.append("accuracy 10 (Monte-Carlo only, 1e8 samples) is outside the property; two-armed roots at levels >= 5 involve a Monte-Carlo term of an empty set and are "
                     "evaluated on a small budget only (run time)")
    ctx.rule("levels 1, 2: every sorted parent table with <= %d nodes x {walk, lattice coordinates} x 2 radius patterns + seeded random trees, against plain sums; "
             "levels 3..9 and 'low'/'middle'/'high': chains of 2-6 nodes (all radii in {0.5,1,1.5}^n x spacing factors {1,1.05,1.5,2,2.5} x max(r) for n=2, sampled for n>=3, "
             "plus continuous random ones) and roots with two opposite arms, in 16 poses, restricted to the property's precondition, against quadrature of the union profile. "
             "Far from the origin: chains and two-armed roots with short compartments (0.2..3 units) on exactly representable lattice lines (7 directions: axis-parallel both ways, "
             "in a coordinate plane, oblique) through 5 origins 4e4..1e6 away, tapering both ways. "
             "Non-trivial = at least one pair of neighbouring spheres overlaps (d < r1 + r2); far family: radii differ; for levels 1, 2: at least one edge" % (5 if ctx.tier == "quick" else 6), exhaustive=False)


def replay(spec):
    class C:
        def __init__(self):
            self.violations = []

        def violation(self, *a, **k):
            self.violations.append(a)

    c = C()
    rep = Rep(c, cap=10 ** 9)
    if spec["kind"] == "tree":
        check_sums(rep, spec)
    else:
        check_collinear(rep, spec)
    for v in c.violations:
        print("  still failing:", v[:2], v[3:5])
    return not c.violations
