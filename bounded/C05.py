"""C05 bounded stand-in: renumbering (sorting) is a pure relabelling, parents first.

Carriers: sort_nodes_impl, sort_nodes, sort_nodes_, read_swc(sort_nodes=True), sort_tree, is_sorted.
Inputs: every labelled rooted tree on the rows of a table (= every permutation of the rows of every
sorted table), several injective id labellings (contiguous, permuted, non-contiguous), 0-2 extra columns.
Oracle: the bijection new->old is recovered from a unique column (x) — or, for the column-free
`sort_nodes_impl`, from the returned index map — and every clause is then evaluated with plain loops.

Fourth session: the input space is widened along the axes the property quantifies over ("any set of extra per-node columns",
"non-contiguous ids", "root anywhere"): extra columns of every dtype family (`PROFILES`: int64 of magnitude 2**62, uint64 above
2**63, float32, float64 with 17 significant digits, bool, object/str), ids far from 0 (10**12 + ...), duplicate coordinates (two nodes
at the same place: the node is then identified by its whole row), larger random tables with the root in the last / a middle row.
Every value is compared EXACTLY in its own type (no conversion to float).
"""
from __future__ import annotations

import itertools
import math
import os
import random
import shutil

import numpy as np

from .common import scratch_dir

BASE_COLS = ("type", "x", "y", "z", "r")
NONCONTIG = (3, 10, 11, 20, 21, 35, 36, 50)
EXTRA_NAMES = ("e1", "e2")


class _Lim:
    def __init__(self, ctx, cap=3):
        self.ctx, self.cap, self.n = ctx, cap, {}

    def case(self, *a, **k):
        self.ctx.case(*a, **k)

    def violation(self, carrier, clause, input, observed, expected, replay=None):
        k = (carrier, clause)
        self.n[k] = self.n.get(k, 0) + 1
        if self.n[k] <= self.cap:
            self.ctx.violation(carrier, clause, input, observed, expected, replay)


def rooted_structures(n, root0=False):
    """Every rooted labelled tree on rows 0..n-1 as a parent-row table (-1 for the root row)."""
    for pp in itertools.product(range(-1, n), repeat=n):
        if pp.count(-1) != 1 or (root0 and pp[0] != -1):
            continue
        ok = True
        for i in range(n):
            j, steps = i, 0
            while pp[j] != -1:
                j = pp[j]
                steps += 1
                if steps > n:
                    ok = False
                    break
            if not ok:
                break
        if ok:
            yield pp


def _extras(profile, n):
    """extra per-node columns by dtype family (numpy arrays; 0/1/2 = the original float64 columns)"""
    i = np.arange(n)
    if profile in (0, None):
        return {}
    if profile == 1:
        return dict(e1=0.5 * (i % 2))
    if profile == 2:
        return dict(e1=0.5 * (i % 2), e2=7.0 - i)
    if profile == "int64":  # odd values of magnitude 2**62: no float64 holds them
        return dict(e1=(np.int64(2) ** 62 + 1 + 2 * i).astype(np.int64), e2=((i + 1) / 7.0).astype(np.float64))
    if profile == "uint64":  # above the int64 range / negative int64 far below -2**53
        return dict(e1=(np.uint64(2) ** np.uint64(63) + np.uint64(5) + (7 * i).astype(np.uint64)).astype(np.uint64), e2=(-(np.int64(2) ** 61) - 11 * i - 1).astype(np.int64))
    if profile == "float32":  # float32 values that are no short decimals; float64 with all 17 digits in use
        return dict(e1=(0.1 * (i + 1)).astype(np.float32), e2=np.array([math.pi * 10.0 ** (int(k) % 5) + int(k) / 3.0 for k in i], dtype=np.float64))
    if profile == "bool-str":
        return dict(e1=(i % 3 == 0), e2=np.array([f"n{int(k):03d}" for k in i], dtype=object))
    if profile == "int32-float16":  # narrow types
        return dict(e1=(2 ** 31 - 1 - 5 * i).astype(np.int32), e2=(0.25 * i + 0.125).astype(np.float16))
    raise ValueError(profile)


PROFILES = ("int64", "uint64", "float32", "bool-str", "int32-float16")
FILE_PROFILES = (2, "float32")  # the file form parses every extra column as float
FAR = 10 ** 12


def _exact(v):
    """a cell as an exactly comparable python value of its own type"""
    if isinstance(v, (bool, np.bool_)):
        return bool(v)
    if isinstance(v, (int, np.integer)):
        return int(v)
    if isinstance(v, (float, np.floating)):
        return float(v)  # float16/32 -> float64 is exact
    return str(v)


def make_table(pp, lab, n_extra, dup=False):
    """Columns of the input table, row i = node with id lab[i].  dup: nodes 2k and 2k+1 share their coordinates (r stays unique)."""
    n = len(pp)
    cols = _make_core(pp, lab, n)
    if dup:
        cols["x"] = [10.0 + 1.5 * (i // 2) for i in range(n)]
        cols["y"] = [float((i // 2) % 2) for i in range(n)]
        cols["z"] = [-1.0 * (i // 2) for i in range(n)]
        cols["r"] = [1.0 + 0.25 * i for i in range(n)]
    cols.update(_extras(n_extra, n))
    return cols


def _make_core(pp, lab, n):
    cols = dict(
        id=[int(lab[i]) for i in range(n)],
        type=[1 if pp[i] == -1 else 2 + (i % 3) for i in range(n)],
        x=[10.0 + 1.5 * i for i in range(n)],  # unique per row: identifies the node
        y=[float(i % 2) for i in range(n)],
        z=[-1.0 * i for i in range(n)],
        r=[1.0 + 0.25 * (i % 3) for i in range(n)],
        pid=[-1 if pp[i] == -1 else int(lab[pp[i]]) for i in range(n)],
    )
    return cols


def _canon(pid, attrs):
    """Canonical form of an attributed rooted tree given as position-indexed parent table."""
    n = len(pid)
    ch = {i: [] for i in range(n)}
    roots = []
    for i, p in enumerate(pid):
        (roots if p == -1 else ch[int(p)]).append(i)

    def rec(i, depth=0):
        if depth > n:
            return ("cycle",)
        return (attrs[i], tuple(sorted(rec(c, depth + 1) for c in ch[i])))

    return tuple(sorted(rec(r) for r in roots))


def check_result(V, pp, inp, out, sigma=None):
    """Evaluate the clauses on one result.  inp/out: dict column -> sequence.  Returns (ok, sigma)."""
    n = len(pp)
    ok = True
    ids = [int(v) for v in out["id"]]
    pids = [int(v) for v in out["pid"]]
    if len(ids) != n or len(pids) != n:
        V("bijection-preserves-parents", f"{len(ids)} rows", f"{n} rows")
        return False, None
    if ids != list(range(n)):
        V("root-is-0", f"ids {ids}", f"ids {list(range(n))}")
        ok = False
    if pids[0] != -1 or pids.count(-1) != 1:
        V("root-is-0", f"pids {pids}", "pid[0] = -1 and no other root")
        ok = False
    if any(not (0 <= pids[k] < k) for k in range(1, n)):
        V("parents-before-children", f"pids {pids}", "0 <= pid[k] < k for every k > 0")
        ok = False
    if sigma is None:  # recover the bijection from the unique column
        if set(out) != set(inp):
            V("columns-follow-the-bijection", f"columns {sorted(out)}", f"columns {sorted(inp)}")
            ok = False
        xs = [_exact(v) for v in inp["x"]]
        if len(set(xs)) == n:
            where = {v: i for i, v in enumerate(xs)}
            sigma = [where.get(_exact(v)) for v in out["x"]]
            if None in sigma or sorted(sigma) != list(range(n)):
                V("columns-follow-the-bijection", f"x column {[_exact(v) for v in out['x']]}", f"a permutation of {xs}")
                return False, None
        else:  # two nodes at the same place: a node is identified by its whole row (rows are pairwise different)
            keys = [c for c in inp if c not in ("id", "pid") and c in out]
            where = {tuple(_exact(inp[c][i]) for c in keys): i for i in range(n)}
            sigma = [where.get(tuple(_exact(out[c][k]) for c in keys)) for k in range(n)]
            if None in sigma or sorted(sigma) != list(range(n)):
                bad = next((k for k in range(n) if sigma[k] is None), 0)
                V("columns-follow-the-bijection", f"row {bad} = {dict((c, _exact(out[c][bad])) for c in keys)}", "every row of the result is a row of the input, each exactly once")
                return False, None
        for col in inp:
            if col in ("id", "pid") or col not in out:
                continue
            got = [_exact(v) for v in out[col]]
            want = [_exact(inp[col][sigma[k]]) for k in range(n)]
            if got != want:
                V("columns-follow-the-bijection", f"{col} = {got}", f"{col} = {want} (rows {sigma} of the input)")
                ok = False
    else:
        sigma = [int(v) for v in sigma]
        if sorted(sigma) != list(range(n)):
            V("bijection-preserves-parents", f"index map {sigma}", f"a permutation of 0..{n - 1}")
            return False, None
    for k in range(n):
        want_row = pp[sigma[k]]
        if want_row == -1:
            good = pids[k] == -1
        else:
            good = 0 <= pids[k] < n and sigma[pids[k]] == want_row
        if not good:
            V("bijection-preserves-parents", f"new node {k} (old row {sigma[k]}) has parent {pids[k]}" + (f" = old row {sigma[pids[k]]}" if 0 <= pids[k] < n else ""),
              f"old row {want_row}")
            ok = False
            break
    return ok, sigma


def _attrs_of(out, n):
    cols = sorted(c for c in out if c not in ("id", "pid"))
    return [tuple(_exact(out[c][k]) for c in cols) for k in range(n)]


def _check_idempotent(V, out1, out2, attrs1, attrs2):
    n = len(attrs1)
    ids2, pids2 = [int(v) for v in out2["id"]], [int(v) for v in out2["pid"]]
    if ids2 != list(range(n)) or pids2[0] != -1 or any(not (0 <= pids2[k] < k) for k in range(1, n)):
        V("idempotent-up-to-sibling-order", f"second sort gives ids {ids2} pids {pids2}", "again a sorted table")
        return
    c1 = _canon([int(v) for v in out1["pid"]], attrs1)
    c2 = _canon(pids2, attrs2)
    if c1 != c2:
        V("idempotent-up-to-sibling-order", f"pids {pids2} attrs {attrs2}", f"the same attributed tree as pids {[int(v) for v in out1['pid']]} attrs {attrs1}")


def _df(cols):
    import pandas as pd

    return pd.DataFrame({k: (v.copy() if isinstance(v, np.ndarray) else np.array(v, dtype=(np.int64 if k in ("id", "pid", "type") else np.float64))) for k, v in cols.items()})


def _cols_of_df(df):
    return {c: df[c].to_numpy() for c in df.columns}


def _write_swc(path, cols):
    names = ["id", "type", "x", "y", "z", "r", "pid"] + [e for e in EXTRA_NAMES if e in cols]
    n = len(cols["id"])
    with open(path, "w") as f:
        f.write("# test\n")
        for i in range(n):
            f.write(" ".join((str(int(cols[k][i])) if k in ("id", "type", "pid") else repr(float(cols[k][i]))) for k in names) + "\n")


def check_case(ctx, carrier, pp, lab, n_extra, base=None, dup=False):
    pp, lab = tuple(int(v) for v in pp), tuple(int(v) for v in lab)
    n = len(pp)
    n_extra = n_extra if isinstance(n_extra, str) else int(n_extra)
    spec = dict(carrier=carrier, parent_row=list(pp), ids=list(lab), extra_columns=n_extra, duplicate_coordinates=bool(dup))
    inp = make_table(pp, lab, n_extra, dup)
    V = lambda clause, obs, exp: ctx.violation(carrier, clause, spec, obs, exp, spec)  # noqa: E731
    nontrivial = n >= 2
    if carrier not in ("sort_nodes_impl", "sort_nodes", "sort_nodes_", "read_swc", "sort_tree"):
        raise ValueError(carrier)
    if carrier == "sort_tree" and not (lab == tuple(range(n)) and pp[0] == -1):
        raise ValueError("a tree object has ids = positions and its root first")
    try:
        if carrier == "sort_nodes_impl":
            from swcgeom.core.swc_utils import sort_nodes_impl

            it = np.int32 if max(abs(v) for v in inp["id"]) < 2 ** 31 else np.int64
            ids, pids = np.array(inp["id"], dtype=it), np.array(inp["pid"], dtype=it)
            (nid, npid), idx = sort_nodes_impl((ids.copy(), pids.copy()))
            out1 = dict(id=nid, pid=npid)
            ok, sigma = check_result(V, pp, inp, out1, sigma=idx)
            if ok:
                (nid2, npid2), idx2 = sort_nodes_impl((np.array(nid, dtype=np.int32), np.array(npid, dtype=np.int32)))
                idx2 = [int(v) for v in idx2]
                if sorted(idx2) != list(range(n)):
                    V("idempotent-up-to-sibling-order", f"index map {idx2}", "a permutation")
                else:
                    a1 = [(sigma[k],) for k in range(n)]
                    a2 = [(sigma[idx2[k]],) for k in range(n)]
                    _check_idempotent(V, out1, dict(id=nid2, pid=npid2), a1, a2)
        elif carrier in ("sort_nodes", "sort_nodes_"):
            from swcgeom.core.swc_utils import sort_nodes, sort_nodes_

            def call(cols):
                df = _df(cols)
                if carrier == "sort_nodes":
                    return _cols_of_df(sort_nodes(df))
                r = sort_nodes_(df)
                if r is not None:
                    V("operation-raises", f"returned {type(r).__name__}", "None (in place)")
                return _cols_of_df(df)

            out1 = call(inp)
            ok, sigma = check_result(V, pp, inp, out1)
            if ok:
                out2 = call(dict(out1))
                _check_idempotent(V, out1, out2, _attrs_of(out1, n), _attrs_of(out2, n))
        elif carrier == "read_swc":
            from swcgeom.core.swc_utils import read_swc

            own = base is None
            if own:
                base = scratch_dir("c05r")
            try:
                extra = [e for e in EXTRA_NAMES if e in inp]
                p = os.path.join(base, "in.swc")
                _write_swc(p, inp)
                df, _ = read_swc(p, extra_cols=extra, sort_nodes=True)
                out1 = _cols_of_df(df)
                ok, sigma = check_result(V, pp, inp, out1)
                if ok:
                    p2 = os.path.join(base, "again.swc")
                    _write_swc(p2, out1)
                    df2, _ = read_swc(p2, extra_cols=extra, sort_nodes=True)
                    out2 = _cols_of_df(df2)
                    _check_idempotent(V, out1, out2, _attrs_of(out1, n), _attrs_of(out2, n))
            finally:
                if own:
                    shutil.rmtree(base, ignore_errors=True)
        elif carrier == "sort_tree":
            from swcgeom.core import Tree, sort_tree
            from swcgeom.core.swc_utils import is_sorted

            def mk(cols):
                kw = {k: (v.copy() if isinstance(v, np.ndarray) and k not in ("id", "pid", "type", "x", "y", "z", "r") else np.array(v, dtype=(np.int32 if k in ("id", "pid", "type") else np.float32))) for k, v in cols.items()}
                return Tree(n, **kw)

            t = mk(inp)
            want_sorted = all(pp[i] < i for i in range(n))
            got_sorted = is_sorted((t.id(), t.pid()))
            if bool(got_sorted) != want_sorted:
                ctx.violation("swc_utils.is_sorted", "parents-before-children", spec, got_sorted, want_sorted, spec)
            s1 = sort_tree(t)
            if not isinstance(s1, Tree):
                V("operation-raises", f"returned {type(s1).__name__}", "a Tree")
            out1 = {k: s1.get_ndata(k) for k in s1.keys()}
            ok, sigma = check_result(V, pp, inp, out1)
            if ok:
                if not is_sorted((s1.id(), s1.pid())):
                    ctx.violation("swc_utils.is_sorted", "parents-before-children", spec, False, "True on a sorted result", spec)
                s2 = sort_tree(s1)
                out2 = {k: s2.get_ndata(k) for k in s2.keys()}
                _check_idempotent(V, out1, out2, _attrs_of(out1, n), _attrs_of(out2, n))
    except Exception as e:
        V("operation-raises", f"{type(e).__name__}: {e}", "no exception")
    ctx.case(carrier, dict(parent_row=list(pp), ids=list(lab), extra_columns=n_extra, duplicate_coordinates=bool(dup)), nontrivial=nontrivial)


def check_custom_names(ctx, pp):
    """sort_tree on a tree whose columns carry user-chosen names (Tree(..., names=SWCNames(...))): same result as for the twin with
    the default names, column for column, and no column added."""
    from swcgeom.core import Tree, sort_tree
    from swcgeom.core.swc_utils import SWCNames

    n = len(pp)
    nm = SWCNames(id="ID", type="T", x="X", y="Y", z="Z", r="R", pid="PID")
    std = dict(id=np.arange(n, dtype=np.int32), type=np.array([1 + (i % 3) for i in range(n)], dtype=np.int32), x=np.arange(n, dtype=np.float32) * 1.5,
               y=np.arange(n, dtype=np.float32) - 2, z=np.zeros(n, dtype=np.float32), r=np.ones(n, dtype=np.float32) + np.arange(n, dtype=np.float32), pid=np.array(pp, dtype=np.int32))
    ren = dict(id="ID", type="T", x="X", y="Y", z="Z", r="R", pid="PID")
    spec = dict(parent_row=list(pp), names=list(nm))
    try:
        a = sort_tree(Tree(n, **{k: v.copy() for k, v in std.items()}))
        b = sort_tree(Tree(n, **{ren[k]: v.copy() for k, v in std.items()}, names=nm))
        if sorted(b.keys()) != sorted(ren.values()):
            ctx.violation("sort_tree", "columns-follow-the-bijection", spec, f"columns {sorted(b.keys())}", f"exactly the tree's own columns {sorted(ren.values())}", spec)
        elif any(not np.array_equal(a.get_ndata(k), b.get_ndata(ren[k])) for k in std) or not np.array_equal(b.id(), np.arange(n)):
            ctx.violation("sort_tree", "columns-follow-the-bijection", spec, {ren[k]: [float(x) for x in b.get_ndata(ren[k])] for k in ("id", "pid")},
                          {k: [float(x) for x in a.get_ndata(k)] for k in ("id", "pid")}, spec)
    except Exception as e:
        ctx.violation("sort_tree", "operation-raises", spec, f"{type(e).__name__}: {e}", "no exception", spec)
    ctx.case("sort_tree-custom-names", dict(parent_row=list(pp)), nontrivial=n >= 2)


def tree_shapes(n, rng):
    """(name, parent list in a canonical numbering: node 0 is the root, parent[k] < k) -- the SHAPE of the tree is part of the input space:
    deep path-like trees (a chain, a comb = a spine with one-node teeth, a caterpillar = a long spine with leaves), flat ones (a star) and
    random recursive trees; an operation whose cost or correctness depends on the depth / the fan-out meets each of them at every size"""
    chain = [-1] + list(range(n - 1))
    m = (n + 1) // 2  # comb: spine 0..m-1, tooth m+i hangs on spine node i
    comb = [-1] + list(range(m - 1)) + [i for i in range(n - m)]
    sp = max(1, n - max(1, n // 4))  # caterpillar: a long spine, the remaining nodes are leaves on random spine nodes
    cat = [-1] + list(range(sp - 1)) + [rng.randrange(sp) for _ in range(n - sp)]
    star = [-1] + [0] * (n - 1)
    rnd = [-1] + [rng.randrange(i) for i in range(1, n)]
    return [("chain", chain), ("comb", comb), ("caterpillar", cat), ("star", star), ("random", rnd)]


def place(parent, perm):
    """the tree `parent` (canonical numbering) with node i in row perm[i]: parent ROW of every row"""
    pp = [0] * len(parent)
    for i, q in enumerate(parent):
        pp[perm[i]] = -1 if q == -1 else perm[q]
    return pp


def labellings(n, rng, full):
    """Injective id labellings of the rows."""
    if full:
        return [tuple(p) for p in itertools.permutations(range(n))] + [NONCONTIG[:n]]
    nc = list(NONCONTIG[:n])
    sh = nc[:]
    rng.shuffle(sh)
    pm = list(range(n))
    rng.shuffle(pm)
    return [tuple(range(n)), tuple(range(n - 1, -1, -1)), tuple(nc), tuple(sh), tuple(pm), tuple(range(1, n + 1))]


def run(ctx):
    rng = random.Random(ctx.seed)
    lim = _Lim(ctx)
    thorough = ctx.tier != "quick"
    nmax = 6 if thorough else 5
    base = scratch_dir("c05")
    try:
        for n in range(1, nmax + 1):
            structs = list(rooted_structures(n))
            for si, pp in enumerate(structs):
                # table without columns: all id permutations for small n, a fixed family above
                for lab in labellings(n, rng, full=(n <= 4 or (thorough and n == 5))):
                    check_case(lim, "sort_nodes_impl", pp, lab, 0)
                if n > 5:
                    continue
                # data-frame forms
                labs = labellings(n, rng, full=False)
                if n <= 3 or thorough:
                    combos = [(labs[a], e) for a in (0, 2, 3, 4) for e in (0, 1, 2)]
                elif n == 4:
                    combos = [(labs[a], (si + a) % 3) for a in (0, 2, 3)]
                else:
                    combos = [(labs[(0, 2, 3, 4)[si % 4]], (si // 4) % 3)]
                for lab, e in combos:
                    # sort_nodes is copy + sort_nodes_: at 5 rows (quick tier) the two forms take alternate structures
                    if n <= 4 or thorough or si % 2 == 0:
                        check_case(lim, "sort_nodes", pp, lab, e)
                    if n <= 4 or thorough or si % 2 == 1:
                        check_case(lim, "sort_nodes_", pp, lab, e)
                # file form
                if n <= 3 or thorough:
                    fcombos = [(labs[a], e) for a in (0, 2, 3) for e in (0, 2)]
                elif n == 4:
                    fcombos = [(labs[(0, 2, 3)[si % 3]], (si // 3) % 3)]
                else:
                    fcombos = [(labs[(0, 2, 3, 5)[si % 4]], (si // 4) % 3)] if si % 3 == 0 else []
                for lab, e in fcombos:
                    check_case(lim, "read_swc", pp, lab, e, base)
                # tree objects: ids are positions, root first
                if pp[0] == -1:
                    for e in (0, 1, 2):
                        check_case(lim, "sort_tree", pp, tuple(range(n)), e)
                    if n <= 4:
                        check_custom_names(lim, pp)
                # dtype families of the extra columns x ids far from 0 x duplicate coordinates, rotating over the structures
                if n >= 2:
                    far = tuple(FAR + 17 * k for k in labs[4])
                    np_ = len(PROFILES)
                    if n <= 3 or (thorough and n == 4):
                        for pi, prf in enumerate(PROFILES):
                            check_case(lim, ("sort_nodes", "sort_nodes_")[(si + pi) % 2], pp, (far, labs[3])[pi % 2], prf, dup=(si + pi) % 2 == 0)
                    elif n == 4 or thorough or si % 3 == 0:
                        check_case(lim, ("sort_nodes", "sort_nodes_")[si % 2], pp, (labs[3], far, labs[0])[si % 3], PROFILES[si % np_], dup=si % 4 == 1)
                    if n <= 3 or (n == 4 and si % 2 == 0) or si % 7 == 0:
                        check_case(lim, "read_swc", pp, (far, labs[3])[si % 2], FILE_PROFILES[si % 2], base, dup=si % 4 < 2)
                        check_case(lim, "sort_nodes_impl", pp, far, 0)
                    if pp[0] == -1 and (n <= 4 or thorough or si % 2 == 0):
                        check_case(lim, "sort_tree", pp, tuple(range(n)), PROFILES[(si + 1) % np_], dup=si % 2 == 1)
        # larger random tables: root in the last / a middle / the first row, non-contiguous or far ids, every dtype family
        for t in range(12 if thorough else 6):
            n = (9, 17, 33)[t % 3]
            parent = [-1] + [rng.randrange(i) for i in range(1, n)]
            perm = list(range(n))
            rng.shuffle(perm)
            rootrow = (n - 1, n // 2, 0)[t % 3]
            j = perm.index(rootrow)
            perm[0], perm[j] = perm[j], perm[0]  # node 0 (the root) sits in row `rootrow`
            pp = [0] * n
            for i in range(n):
                pp[perm[i]] = -1 if parent[i] == -1 else perm[parent[i]]
            ids = rng.sample(range(1, 50 * n), n) if t % 2 == 0 else [FAR + 13 * k for k in rng.sample(range(n * 3), n)]
            for pi, prf in enumerate(PROFILES + (2,)):
                check_case(lim, ("sort_nodes_", "sort_nodes")[(t + pi) % 2], pp, ids, prf, dup=(t + pi) % 2 == 1)
            check_case(lim, "read_swc", pp, ids, FILE_PROFILES[t % 2], base, dup=t % 2 == 0)
            check_case(lim, "sort_nodes_impl", pp, ids, 0)
            keep0 = [0] + rng.sample(range(1, n), n - 1)  # tree objects: root first, the other rows shuffled
            pt = [0] * n
            for i in range(n):
                pt[keep0[i]] = -1 if parent[i] == -1 else keep0[parent[i]]
            for prf in PROFILES[t % 2::2]:
                check_case(lim, "sort_tree", pt, tuple(range(n)), prf, dup=t % 2 == 1)
        # shapes x every size 2..40: deep path-like trees (chain, comb) through EVERY form at EVERY length, caterpillars / stars / random
        # trees through rotating forms; rows shuffled (root anywhere), ids shuffled and non-contiguous; tree objects: root first, the
        # other rows shuffled (ids = positions, i.e. a chain numbered out of order)
        forms = ("sort_nodes", "sort_nodes_", "read_swc", "sort_tree", "sort_nodes_impl")
        for n in range(2, (64 if thorough else 40) + 1):
            for hi, (shape, parent) in enumerate(tree_shapes(n, rng)):
                todo = forms if shape in ("chain", "comb") else (forms[(n + hi) % 4], forms[(n + hi + 2) % 4])
                for fi, form in enumerate(todo):
                    e = (n + hi + fi) % 3
                    if form == "sort_tree":
                        perm = [0] + rng.sample(range(1, n), n - 1)
                        check_case(lim, form, place(parent, perm), tuple(range(n)), e)
                        continue
                    perm = rng.sample(range(n), n)
                    ids = rng.sample(range(1, 50 * n), n) if (n + fi) % 3 else rng.sample(range(n), n)
                    if form == "read_swc":
                        check_case(lim, form, place(parent, perm), ids, e, base)
                    else:
                        check_case(lim, form, place(parent, perm), ids, 0 if form == "sort_nodes_impl" else e)
        ctx.rule(
            f"every rooted labelled tree on the rows of a table with <= {nmax} rows (= all row permutations of all sorted tables, root at any row) x "
            "id labellings (all permutations of 0..n-1 for n<=4 and the non-contiguous {3,10,11,20,..}; contiguous/reversed/non-contiguous/shuffled/1-based above) for sort_nodes_impl; "
            "data-frame and file forms on every structure <= 5 rows with 0-2 extra columns and rotating labellings; sort_tree on every tree with root 0 x 0-2 extra columns, and (<= 4 nodes) with user-chosen column names; "
            "each result sorted a second time. Fourth session: extra columns of the dtype families int64 (~2**62) / uint64 (> 2**63) / float32 / float64 with 17 digits / bool / str / int32 / float16 "
            "x ids 10**12 + ... x duplicate coordinates, rotating over all structures <= 5 rows for the table, file (float families) and tree forms; 6 (12) random tables of 9 / 17 / 33 rows with the root in the "
            "last / middle / first row x every dtype family; all values compared exactly in their own type. Shapes (round g): chain and comb of EVERY size 2..40 (thorough 64) through "
            "sort_nodes / sort_nodes_ / read_swc(sort_nodes=True) / sort_tree / sort_nodes_impl, caterpillar / star / random recursive tree of every size through two rotating forms, rows shuffled "
            "(root anywhere; tree objects: root first, other rows shuffled), ids shuffled (non-contiguous or a permutation of 0..n-1). Non-trivial = >= 2 nodes",
            exhaustive=True,
        )
        ctx.notes.append("sort_nodes_impl's docstring calls its second result 'id_map: new id -> original id'; the value returned is new id -> original ROW index "
                         "(used as such by sort_nodes_ and _sort_tree); the stand-in interprets it as row indices")
    finally:
        shutil.rmtree(base, ignore_errors=True)


class _Collect:
    def __init__(self):
        self.v = []
        self.notes = []

    def case(self, *a, **k):
        pass

    def violation(self, *a, **k):
        self.v.append(a)


def replay(spec):
    c = _Collect()
    if "names" in spec:
        check_custom_names(c, tuple(spec["parent_row"]))
    else:
        check_case(c, spec["carrier"], spec["parent_row"], spec["ids"], spec["extra_columns"], dup=spec.get("duplicate_coordinates", False))
    for v in c.v:
        print("  still failing:", v[:2], v[3:5])
    return not c.v
