"""Shared enumerators and helpers for the bounded stand-ins (run on the REAL code)."""
from __future__ import annotations

import io
import itertools
import os
import random
import shutil
import sys
import warnings

REPO = os.environ.get("VERIF_REPO", "/repo")
if REPO not in sys.path:
    sys.path.insert(0, REPO)
warnings.filterwarnings("ignore")

import numpy as np  # noqa: E402

SCRATCH = os.environ.get("VERIF_SCRATCH", os.path.join(os.path.dirname(os.path.dirname(os.path.abspath(__file__))), ".scratch"))


def scratch_dir(name):
    d = os.path.join(SCRATCH, f"{name}-{os.getpid()}")
    shutil.rmtree(d, ignore_errors=True)
    os.makedirs(d, exist_ok=True)
    return d


def sorted_parent_tables(n):
    """All parent tables with pid[0] = -1 and 0 <= pid[i] < i (sorted trees)."""
    if n == 1:
        yield (-1,)
        return
    for rest in itertools.product(*[range(i) for i in range(1, n)]):
        yield (-1,) + rest


def all_sorted_tables_upto(nmax, nmin=1):
    for n in range(nmin, nmax + 1):
        yield from sorted_parent_tables(n)


def all_functions(n):
    """Every function [0,n) -> {-1} u [0,n): arbitrary parent tables (forests, cycles)."""
    return itertools.product(range(-1, n), repeat=n)


def random_sorted_table(rng, n):
    return (-1,) + tuple(rng.randrange(i) for i in range(1, n))


# Magnitudes are part of the input space of everything that stores, writes or reads node tables (round trips, readers): values on both
# sides of every integer width a column could be narrowed to (int8 / uint8 / int16 / uint16; well inside int32), ids far from 0, coordinates
# whose four decimals need more than float32's 24 bits next to a large integer part, radii from denormal-small to huge.
MAG_TYPES = [0, 7, 127, 128, 255, 256, 300, 32767, 32768, 65535, 65536, 70000]
MAG_IDS = [32767, 32768, 65535, 65536, 999983, 10**6]
MAG_COORDS = [100000.0, 123456.7891, -123456.7891, 99999.99995, 100000.0001, -100000.00005]
MAG_RADII = [1e-5, 4.9e-5, 5.1e-5, 1e-12, 1e6, 1e12]


LATTICE = [(0, 0, 0), (1, 0, 0), (0, 1, 0), (0, 0, 1), (1, 1, 0), (2, 0, 0), (0, 2, 1), (1, 1, 1), (2, 1, 0), (0, 0, 2), (3, 1, 2), (1, 3, 0)]


def coords_for(pid, rng=None, mode="walk"):
    """Deterministic coordinates: each node = parent + a lattice step (so coincident
    points and zero-length segments occur when mode='lattice')."""
    n = len(pid)
    xyz = np.zeros((n, 3), dtype=np.float64)
    for i in range(n):
        if mode == "lattice":
            xyz[i] = LATTICE[(i * 7 + (pid[i] + 1) * 3) % len(LATTICE)]
        else:
            step = LATTICE[1 + (i * 5 + 2 * (pid[i] + 1)) % (len(LATTICE) - 1)]
            base = xyz[pid[i]] if pid[i] >= 0 else np.array([1.0, 2.0, 3.0])
            xyz[i] = base + np.array(step, dtype=float) * (1 + (i % 3) * 0.5)
        if rng is not None:
            xyz[i] += np.array([rng.uniform(-0.2, 0.2) for _ in range(3)])
    return xyz


# Storage layout of the columns handed to the Tree constructor is part of the input space: the constructor keeps an array as given
# (`padding1d` returns `v[:n]`, a view) when its dtype already fits, so the tree's columns may be strided views of a caller's table,
# views that do not own their storage, read-only arrays, or fresh conversions of wider arrays / lists.
LAYOUTS = ("separate", "c-table", "f-table", "strided", "readonly", "wide", "lists")
SWC_COLUMNS = ("id", "type", "x", "y", "z", "r", "pid")
CURRENT_LAYOUT = ["separate"]


class using_layout:
    """`with using_layout(name): ...` -- every make_tree inside that does not name a layout itself uses this one"""

    def __init__(self, layout):
        self.layout = layout

    def __enter__(self):
        self.saved = CURRENT_LAYOUT[0]
        CURRENT_LAYOUT[0] = self.layout

    def __exit__(self, *exc):
        CURRENT_LAYOUT[0] = self.saved


def lay_out(cols, layout):
    """cols: name -> contiguous 1-D array of the column's final dtype.  Returns name -> what is handed to the constructor:
    separate  the arrays themselves (each owns its storage)
    c-table   columns of equal dtype are column slices `m[:, j]` of one C-ordered (n, k) table, k >= 2: strided views
    f-table   the same with an F-ordered table: contiguous views that do not own their storage
    strided   every column is `buf[::2]` of an array twice as long
    readonly  separate arrays with `flags.writeable = False` (a write through the tree must raise exactly as a write into the array does)
    wide      the SWC columns as float64 / int64 arrays of the same values (the constructor converts: fresh arrays); others as `separate`
    lists     the SWC columns as Python lists; others as `separate`"""
    if layout == "separate":
        return dict(cols)
    out = {}
    if layout in ("c-table", "f-table"):
        by_dtype = {}
        for k, a in cols.items():
            by_dtype.setdefault(a.dtype.str, []).append(k)
        for names in by_dtype.values():
            first = cols[names[0]]
            table = np.zeros((len(first), max(2, len(names))), dtype=first.dtype, order="C" if layout == "c-table" else "F")
            for j, k in enumerate(names):
                table[:, j] = cols[k]
            for j, k in enumerate(names):
                out[k] = table[:, j]
        return {k: out[k] for k in cols}
    for k, a in cols.items():
        if layout == "strided":
            buf = np.zeros(2 * len(a), dtype=a.dtype)
            buf[::2] = a
            buf[1::2] = a[::-1]
            out[k] = buf[::2]
        elif layout == "readonly":
            out[k] = a.copy()
            out[k].flags.writeable = False
        elif layout == "wide" and k in SWC_COLUMNS:
            out[k] = a.astype(np.float64 if a.dtype.kind == "f" else np.int64)
        elif layout == "lists" and k in SWC_COLUMNS:
            out[k] = a.tolist()
        elif layout in ("wide", "lists"):
            out[k] = a
        else:
            raise ValueError(f"unknown layout {layout!r}")
    return out


def make_tree(pid, xyz=None, r=None, types=None, layout=None, **extra):
    """`layout` (one of LAYOUTS; default: the current one, see `using_layout`) says how the columns are stored when the constructor gets them"""
    from swcgeom.core import Tree

    n = len(pid)
    pid = np.array(pid, dtype=np.int32)
    if xyz is None:
        xyz = coords_for(pid)
    xyz = np.asarray(xyz, dtype=np.float32)
    if r is None:
        r = np.array([1.0 + 0.25 * (i % 3) for i in range(n)], dtype=np.float32)
    if types is None:
        types = np.array([1] + [3 if (i % 2) else 2 for i in range(1, n)], dtype=np.int32)
    cols = dict(id=np.arange(n, dtype=np.int32), type=np.array(types, dtype=np.int32),
                x=xyz[:, 0].copy(), y=xyz[:, 1].copy(), z=xyz[:, 2].copy(), r=np.array(r, dtype=np.float32), pid=pid)
    layout = layout or CURRENT_LAYOUT[0]
    if layout == "separate":
        return Tree(n, **cols, **extra)
    cols.update({k: np.array(v) for k, v in extra.items()})
    return Tree(n, **lay_out(cols, layout))


def tree_spec(t):
    return dict(pid=[int(v) for v in t.pid()], xyz=[[float(a) for a in row] for row in t.xyz()], r=[float(v) for v in t.r()], type=[int(v) for v in t.type()])


def tree_from_spec(s):
    return make_tree(s["pid"], np.array(s["xyz"]), np.array(s["r"]), np.array(s["type"]))


def is_wf(t, sorted_required=True):
    """WFtree: ids = positions, node 0 the only root, parents exist, all reach the root."""
    n = t.number_of_nodes()
    ids, pid = t.id(), t.pid()
    if n < 1 or len(pid) != n or any(len(t.get_ndata(k)) != n for k in t.keys()):
        return False, "column lengths"
    if not np.array_equal(ids, np.arange(n)):
        return False, "ids are not positions"
    if pid[0] != -1 or np.count_nonzero(pid == -1) != 1:
        return False, "node 0 is not the only root"
    if np.any((pid[1:] < 0) | (pid[1:] >= n)):
        return False, "parent id out of range"
    for i in range(n):
        j, steps = i, 0
        while j != 0:
            j = pid[j]
            steps += 1
            if steps > n:
                return False, "node does not reach the root"
    if sorted_required and np.any(pid[1:] >= np.arange(1, n)):
        return False, "parent does not precede child"
    return True, ""


def snapshot_tree(t):
    return {k: np.array(t.get_ndata(k), copy=True) for k in t.keys()}


def same_snapshot(t, snap):
    ks = list(t.keys())
    if set(ks) != set(snap):
        return False
    return all(np.array_equal(t.get_ndata(k), snap[k]) and t.get_ndata(k).dtype == snap[k].dtype for k in ks)


def shares_storage(t1, t2):
    for a in t1.ndata.values():
        for b in t2.ndata.values():
            if np.shares_memory(a, b):
                return True
    return False


def swc_text(pid, xyz=None, r=None, types=None, base=1):
    n = len(pid)
    if xyz is None:
        xyz = coords_for(pid)
    lines = []
    for i in range(n):
        t = (types[i] if types is not None else (1 if pid[i] == -1 else 3))
        rr = r[i] if r is not None else 1.0
        p = -1 if pid[i] == -1 else pid[i] + base
        lines.append(f"{i + base} {t} {xyz[i][0]:.4f} {xyz[i][1]:.4f} {xyz[i][2]:.4f} {rr:.4f} {p}")
    return "\n".join(lines) + "\n"


def children_of(pid):
    ch = {i: [] for i in range(len(pid))}
    for i, p in enumerate(pid):
        if p >= 0:
            ch[p].append(i)
    return ch


def subtree_of(pid, r):
    ch = children_of(pid)
    out, st = [], [r]
    while st:
        x = st.pop()
        out.append(x)
        st.extend(ch[x])
    return set(out)


# --------------------------------------------------------------------------- an argument typed `Iterable[...]`, in every FORM
# A parameter documented as `Iterable[int]` (to_subtree's `removals`, ...) may be handed over as any of these.  The re-iterable ones
# can be walked any number of times; the ONE-SHOT ones (generator expression, iter(...), map / filter / reversed / zip-derived
# objects, itertools.chain) are empty after the first complete pass, so a callee that walks its argument twice sees nothing the
# second time.  `unordered` forms do not keep the order / the multiplicities of the items (use them only where the parameter means a set).
ITERABLE_FORMS = ("list", "tuple", "set", "frozenset", "ndarray-int32", "ndarray-int64", "dict-keys", "dict-as-mapping", "range", "deque",
                  "generator-expression", "iter-of-list", "map-object", "filter-object", "reversed-object", "chain-object", "generator-function")
ONE_SHOT_FORMS = ("generator-expression", "iter-of-list", "map-object", "filter-object", "reversed-object", "chain-object", "generator-function")
UNORDERED_FORMS = ("set", "frozenset")
DEDUPLICATING_FORMS = ("set", "frozenset", "dict-keys", "dict-as-mapping")


def as_iterable(items, form):
    """`items` (a list of ints) as an iterable of the given form; None when the form cannot hold these items (range: the items must be
    an arithmetic progression; deduplicating forms: the items must be pairwise distinct or the parameter must mean a set)."""
    import collections

    items = [int(v) for v in items]
    if form == "list":
        return list(items)
    if form == "tuple":
        return tuple(items)
    if form == "set":
        return set(items)
    if form == "frozenset":
        return frozenset(items)
    if form == "ndarray-int32":
        return np.array(items, dtype=np.int32)
    if form == "ndarray-int64":
        return np.array(items, dtype=np.int64)
    if form == "dict-keys":
        return dict.fromkeys(items).keys()
    if form == "dict-as-mapping":
        return dict.fromkeys(items)
    if form == "range":
        if len(items) == 0:
            return range(0)
        if len(items) == 1:
            return range(items[0], items[0] + 1)
        step = items[1] - items[0]
        if step == 0 or any(b - a != step for a, b in zip(items, items[1:])):
            return None
        return range(items[0], items[-1] + (1 if step > 0 else -1), step)
    if form == "deque":
        return collections.deque(items)
    if form == "generator-expression":
        return (v for v in items)
    if form == "iter-of-list":
        return iter(list(items))
    if form == "map-object":
        return map(int, np.array(items, dtype=np.int64))
    if form == "filter-object":
        return filter(lambda v: True, list(items))
    if form == "reversed-object":
        return reversed(list(reversed(items)))
    if form == "chain-object":
        k = len(items) // 2
        return itertools.chain(items[:k], items[k:])
    if form == "generator-function":
        def gen():
            yield from items

        return gen()
    raise ValueError(form)


def iterable_forms_for(items, set_like=True):
    """[(form, iterable)] of every form that can hold `items`; set_like: the parameter means a set (order / repeats do not matter)"""
    out = []
    for form in ITERABLE_FORMS:
        if not set_like and (form in UNORDERED_FORMS or (form in DEDUPLICATING_FORMS and len(set(items)) != len(items))):
            continue
        v = as_iterable(items, form)
        if v is not None:
            out.append((form, v))
    return out
