"""C06 bounded stand-in: subtree extraction and pruning keep exactly the specified nodes.

Carriers: get_subtree, Tree.Node.subtree, to_subtree, cut_tree (enter / leave / neither), CutByType,
CutAxonTree, CutDendriteTree, CutByFurcationOrder, CutShortTipBranch, Tree.get_neurites, Tree.get_dendrites.
Oracle: naive closure over the parent table.  Every tree carries a unique extra column `tag` (= 100 + old id)
from which the new->old correspondence of a result is read off; all other columns, the parent relation, the
root and the reported out_mapping are then compared with the original table.
"""
from __future__ import annotations

import itertools
import random

import numpy as np

from .common import ITERABLE_FORMS, as_iterable, make_tree, same_snapshot, snapshot_tree, sorted_parent_tables

EXACT_STEPS = [((1, 0, 0), 1), ((0, 2, 0), 2), ((0, 0, 3), 3), ((3, 4, 0), 5), ((0, 6, 8), 10), ((2, 0, 0), 2), ((0, 0, 1), 1)]


class _Lim:
    def __init__(self, ctx, cap=3):
        self.ctx, self.cap, self.n = ctx, cap, {}

    def case(self, *a, **k):
        self.ctx.case(*a, **k)

    def violation(self, carrier, clause, input, observed, expected, replay=None):
        k = (carrier, clause)
        self.n[k] = self.n.get(k, 0) + 1
        if self.n[k] <= self.cap:
            self.ctx.violation(carrier, clause, input, observed, expected, replay)


# ---------------------------------------------------------------- oracle helpers (plain python on the table)
def children(pid):
    ch = {i: [] for i in range(len(pid))}
    for i, p in enumerate(pid):
        if p >= 0:
            ch[p].append(i)
    return ch


def preorder(pid):
    ch = children(pid)
    out, todo = [], [0]
    while todo:
        x = todo.pop()
        out.append(x)
        todo.extend(reversed(ch[x]))
    return out


def descendants_or_self(pid, r):
    ch = children(pid)
    out, todo = set(), [r]
    while todo:
        x = todo.pop()
        out.add(x)
        todo.extend(ch[x])
    return out


def removed_closure(pid, marked):
    """x is removed iff it is marked or its parent is removed."""
    marked = set(marked)
    rm = set()
    for x in preorder(pid):
        if x in marked or (pid[x] >= 0 and pid[x] in rm):
            rm.add(x)
    return rm


def step_lengths(pid):
    """Exact coordinates: node = parent + an integer step whose euclidean length is an integer."""
    n = len(pid)
    xyz = np.zeros((n, 3), dtype=np.float64)
    seg = [0] * n
    for x in preorder(pid):
        if pid[x] < 0:
            xyz[x] = (1, 2, 3)
            continue
        v, length = EXACT_STEPS[(3 * x + pid[x]) % len(EXACT_STEPS)]
        xyz[x] = xyz[pid[x]] + np.array(v, dtype=float)
        seg[x] = length
    return xyz, seg


def terminal_branches(pid, seg):
    """[(first node below the furcation, length)] of every chain furcation -> ... -> tip without inner furcation."""
    ch = children(pid)
    out = []
    for f in range(len(pid)):
        if len(ch[f]) < 2:
            continue
        for c in ch[f]:
            x, length = c, seg[c]
            while len(ch[x]) == 1:
                x = ch[x][0]
                length += seg[x]
            if len(ch[x]) == 0:
                out.append((c, length))
    return out


def build(pid, types=None, coords="walk"):
    n = len(pid)
    xyz = step_lengths(pid)[0] if coords == "exact" else None
    return make_tree(pid, xyz=xyz, types=(None if types is None else np.array(types, dtype=np.int32)), tag=np.arange(n, dtype=np.float64) + 100.0)


# ---------------------------------------------------------------- predicates for cut_tree (inputs of the property)
# enter: (id, type, n_children, n_nodes, parent_value) -> (value, flag)
ENTER = [
    ("never", lambda i, t, k, n, pv: (None, False)),
    ("non-root", lambda i, t, k, n, pv: (None, i != 0)),
    ("depth>=2", lambda i, t, k, n, pv: ((0 if pv is None else pv + 1), (0 if pv is None else pv + 1) >= 2)),
    ("type==2", lambda i, t, k, n, pv: (None, t == 2)),
    ("odd-id", lambda i, t, k, n, pv: (None, i % 2 == 1)),
    ("last-two-ids", lambda i, t, k, n, pv: (None, i >= n - 2 and i != 0)),
    ("non-root-furcation", lambda i, t, k, n, pv: (None, i != 0 and k >= 2)),
    ("second-type-3-on-path", lambda i, t, k, n, pv: (((pv or 0) + (t == 3)), ((pv or 0) + (t == 3)) >= 2)),
    ("root", lambda i, t, k, n, pv: (None, i == 0)),
]
# leave: (id, type, n_children, n_nodes, children_values) -> (value, flag)
LEAVE = [
    ("never", lambda i, t, k, n, vs: (None, False)),
    ("non-root-tips", lambda i, t, k, n, vs: (1 + sum(vs), 1 + sum(vs) == 1 and i != 0)),
    ("subtree-size==2", lambda i, t, k, n, vs: (1 + sum(vs), 1 + sum(vs) == 2)),
    ("height>=2-non-root", lambda i, t, k, n, vs: (1 + max(vs, default=-1), 1 + max(vs, default=-1) >= 2 and i != 0)),
    ("type==3", lambda i, t, k, n, vs: (None, t == 3)),
    ("odd-tip", lambda i, t, k, n, vs: (None, k == 0 and i % 2 == 1)),
    ("subtree-id-sum%3==0-non-root", lambda i, t, k, n, vs: (i + sum(vs), (i + sum(vs)) % 3 == 0 and i != 0)),
    ("last-id", lambda i, t, k, n, vs: (None, i == n - 1 and i != 0)),
]


def enter_oracle(pid, types, f):
    ch = children(pid)
    n = len(pid)
    rm = set()
    todo = [(0, None, False)]
    while todo:
        x, pv, parent_removed = todo.pop()
        if parent_removed:
            rm.add(x)
            v = pv
            removed = True
        else:
            v, flag = f(x, types[x], len(ch[x]), n, pv)
            removed = bool(flag)
            if removed:
                rm.add(x)
        for c in ch[x]:
            todo.append((c, v, removed))
    return rm


def leave_oracle(pid, types, f):
    ch = children(pid)
    n = len(pid)
    val, flagged = {}, set()
    for x in reversed(preorder(pid)):  # every node after all its descendants
        v, flag = f(x, types[x], len(ch[x]), n, [val[c] for c in ch[x]])
        val[x] = v
        if flag:
            flagged.add(x)
    return removed_closure(pid, flagged)


# ---------------------------------------------------------------- the contract of one result
def check_sub(V, orig, pid, result, kept, new_root, mapping=None, mapping_kind="none"):
    from swcgeom.core import Tree

    kept = set(kept)
    if not isinstance(result, Tree):
        V("exactly-the-specified-nodes", f"a {type(result).__name__}", "a Tree")
        return False
    if "tag" not in list(result.keys()):
        V("attributes-kept", f"columns {sorted(result.keys())}", f"columns {sorted(orig)}")
        return False
    m = result.number_of_nodes()
    olds = [int(round(float(v) - 100.0)) for v in result.get_ndata("tag")]
    if sorted(olds) != sorted(kept) or m != len(olds):
        V("exactly-the-specified-nodes", f"old ids {sorted(olds)}", f"old ids {sorted(kept)}")
        return False
    ok = True
    if set(result.keys()) != set(orig):
        V("attributes-kept", f"columns {sorted(result.keys())}", f"columns {sorted(orig)}")
        ok = False
    for col in orig:
        if col in ("id", "pid") or col not in result.keys():
            continue
        got = result.get_ndata(col)
        want = orig[col][olds] if m else orig[col][:0]
        if len(got) != m or not np.array_equal(got, want) or got.dtype != want.dtype:
            V("attributes-kept", f"{col} = {got.tolist()} ({got.dtype})", f"{col} = {want.tolist()} ({want.dtype})")
            ok = False
    new_of = {o: k for k, o in enumerate(olds)}
    ids, pids = [int(v) for v in result.id()], [int(v) for v in result.pid()]
    if ids != list(range(m)):
        V("parent-relation-kept", f"ids {ids}", f"ids {list(range(m))}")
        ok = False
    for k, o in enumerate(olds):
        if o == new_root:
            continue
        want = new_of.get(pid[o])
        if pids[k] != want:
            V("parent-relation-kept", f"new node {k} (old {o}) has pid {pids[k]}", f"pid {want} (old {pid[o]})")
            ok = False
            break
    if m:
        if new_root not in new_of or pids[new_of[new_root]] != -1 or pids.count(-1) != 1:
            V("new-root-has-no-parent", f"pids {pids} (old ids {olds})", f"old node {new_root} is the only node with pid -1")
            ok = False
    if mapping_kind == "list":
        got = [int(v) for v in mapping] if isinstance(mapping, list) else mapping
        if got != olds:
            V("mapping-correct", f"out_mapping {got}", f"{olds}")
            ok = False
    elif mapping_kind == "dict":
        got = {int(k): int(v) for k, v in mapping.items()} if isinstance(mapping, dict) else mapping
        if got != dict(enumerate(olds)):
            V("mapping-correct", f"out_mapping {got}", f"{dict(enumerate(olds))}")
            ok = False
    return ok


OPS = ("get_subtree", "Tree.Node.subtree", "to_subtree", "cut_tree", "CutByType", "CutAxonTree", "CutDendriteTree", "CutByFurcationOrder",
       "CutShortTipBranch", "Tree.get_neurites", "Tree.get_dendrites")


def _mapping(kind):
    if kind == "list":
        return [99, 98]  # stale content must be replaced
    if kind == "dict":
        return {7: 7}
    return None


def check(ctx, spec):
    """Run one case described by `spec` (JSON-able; also the replay format)."""
    from swcgeom.core import cut_tree, get_subtree, to_subtree
    from swcgeom.transforms import CutAxonTree, CutByFurcationOrder, CutByType, CutDendriteTree, CutShortTipBranch

    op = spec["op"]
    if op not in OPS:
        raise ValueError(op)
    pid = [int(v) for v in spec["pid"]]
    n = len(pid)
    types = spec.get("types")
    tree = build(pid, types, spec.get("coords", "walk"))
    types = [int(v) for v in tree.type()]
    orig = snapshot_tree(tree)
    carrier = op
    V = lambda clause, obs, exp: ctx.violation(carrier, clause, spec, obs, exp, spec)  # noqa: E731
    nontrivial = n >= 2
    try:
        if op in ("get_subtree", "Tree.Node.subtree"):
            start, mk = spec["start"], spec["mapping"]
            om = _mapping(mk)
            kw = {} if mk == "none" else dict(out_mapping=om)
            res = get_subtree(tree, start, **kw) if op == "get_subtree" else tree.node(start).subtree(**kw)
            check_sub(V, orig, pid, res, descendants_or_self(pid, start), start, om, mk)
        elif op == "to_subtree":
            rem, mk = [int(v) for v in spec["removals"]], spec["mapping"]
            # `removals: Iterable[int]`: the ids in the given ARRANGEMENT (as listed / reversed / every id twice), handed over in the given
            # FORM (bounded/common.py: ITERABLE_FORMS -- re-iterable containers and one-shot iterators; a removal set means a set)
            cont = spec["container"]
            legacy = {"reversed": ("reversed", "list"), "array": ("as-listed", "ndarray-int32"), "dup": ("twice", "list")}  # the container names of earlier replay files
            arrange, form = legacy.get(cont, (spec.get("arrange", "as-listed"), cont))
            ids = {"as-listed": list(rem), "reversed": list(reversed(rem)), "twice": list(rem) + list(rem), "interleaved-twice": [v for x in rem for v in (x, x)]}[arrange]
            arg = as_iterable(ids, form)
            if arg is None:
                return  # this form cannot hold these ids (a range needs an arithmetic progression)
            om = _mapping(mk)
            kw = {} if mk == "none" else dict(out_mapping=om)
            res = to_subtree(tree, arg, **kw)
            kept = set(range(n)) - removed_closure(pid, rem)
            nontrivial = nontrivial and len(rem) > 0
            check_sub(V, orig, pid, res, kept, 0, om, mk)
        elif op == "cut_tree":
            side = spec["side"]
            ch = children(pid)
            if side == "none":
                res = cut_tree(tree)
                rm = set()
            else:
                name, f = (ENTER if side == "enter" else LEAVE)[spec["pred"]]
                assert name == spec["pred_name"]

                def cb(node, arg):
                    return f(int(node.id), int(node.type), len(ch[int(node.id)]), n, arg)

                res = cut_tree(tree, **{side: cb})
                rm = enter_oracle(pid, types, f) if side == "enter" else leave_oracle(pid, types, f)
            check_sub(V, orig, pid, res, set(range(n)) - rm, 0)
        elif op in ("CutByType", "CutAxonTree", "CutDendriteTree"):
            T = {"CutAxonTree": 2, "CutDendriteTree": 3}.get(op, spec.get("type"))
            if T not in types:
                return  # out of the property's domain
            tr = CutByType(T) if op == "CutByType" else (CutAxonTree() if op == "CutAxonTree" else CutDendriteTree())
            res = tr(tree)
            ch = children(pid)
            keep = set()
            for x in reversed(preorder(pid)):
                if types[x] == T or any(c in keep for c in ch[x]):
                    keep.add(x)
            check_sub(V, orig, pid, res, keep, 0)
        elif op == "CutByFurcationOrder":
            k = spec["order"]
            res = CutByFurcationOrder(k)(tree)
            ch = children(pid)
            level, rm = {}, set()
            for x in preorder(pid):
                level[x] = 0 if pid[x] < 0 else level[pid[x]] + (1 if len(ch[x]) >= 2 else 0)
                if level[x] >= k:
                    rm.add(x)
            rm = removed_closure(pid, rm)
            check_sub(V, orig, pid, res, set(range(n)) - rm, 0)
        elif op == "CutShortTipBranch":
            thre = spec["thre"]
            assert spec.get("coords") == "exact"
            res = (CutShortTipBranch() if thre is None else CutShortTipBranch(thre))(tree)
            _, seg = step_lengths(pid)
            tb = terminal_branches(pid, seg)
            marked = [c for c, length in tb if length <= (5 if thre is None else thre)]
            nontrivial = nontrivial and len(tb) > 0
            check_sub(V, orig, pid, res, set(range(n)) - removed_closure(pid, marked), 0)
        elif op in ("Tree.get_neurites", "Tree.get_dendrites"):
            tc = spec["type_check"]
            it = tree.get_neurites(type_check=tc) if op == "Tree.get_neurites" else tree.get_dendrites(type_check=tc)
            got = list(it)
            ch = children(pid)
            want = [c for c in ch[0] if op == "Tree.get_neurites" or types[c] in (3, 4)]
            roots = []
            for g in got:
                tags = g.get_ndata("tag") if "tag" in list(g.keys()) else []
                rr = [int(round(float(t) - 100)) for t, p in zip(tags, g.pid()) if p == -1]
                roots.append(rr[0] if len(rr) == 1 else None)
            if sorted(map(str, roots)) != sorted(map(str, want)):
                V("exactly-the-specified-nodes", f"subtrees rooted at old nodes {roots}", f"one subtree for each of {want}")
            else:
                for g, c in zip(got, roots):
                    check_sub(V, orig, pid, g, descendants_or_self(pid, c), c)
            nontrivial = nontrivial and len(want) > 0
        if not same_snapshot(tree, orig):
            V("input-unchanged", {k: tree.get_ndata(k).tolist() for k in tree.keys() if not np.array_equal(tree.get_ndata(k), orig[k])}, "the input tree as before the call")
    except Exception as e:
        V("operation-raises", f"{type(e).__name__}: {e}", "no exception")
    ctx.case(op, spec, nontrivial=nontrivial)


def _relabel(pid, perm):
    n = len(pid)
    new = [0] * n
    for i in range(n):
        new[perm[i]] = -1 if pid[i] == -1 else perm[pid[i]]
    return new


def run(ctx):
    rng = random.Random(ctx.seed)
    lim = _Lim(ctx)
    thorough = ctx.tier != "quick"
    n_sub = 7 if thorough else 6   # (tree, start), callbacks, orders, thresholds
    n_rem = 6 if thorough else 5   # all removal sets, all type assignments
    MK = ("none", "list", "dict")
    ARR = ("as-listed", "reversed", "twice", "interleaved-twice")

    tables = [list(p) for n in range(1, n_sub + 1) for p in sorted_parent_tables(n)]
    # non-sorted numberings with root 0
    unsorted = []
    for n in (3, 4, 5):
        for p in sorted_parent_tables(n):
            perm = list(range(1, n))
            rng.shuffle(perm)
            q = _relabel(p, [0] + perm)
            if any(q[i] > i for i in range(n)):
                unsorted.append(q)

    for pid in tables + unsorted:
        n = len(pid)
        for start in range(n):
            for mk in MK:
                check(lim, dict(op="get_subtree", pid=pid, start=start, mapping=mk))
                check(lim, dict(op="Tree.Node.subtree", pid=pid, start=start, mapping=mk))
        check(lim, dict(op="cut_tree", pid=pid, side="none"))
        for k, (name, _) in enumerate(ENTER):
            check(lim, dict(op="cut_tree", pid=pid, side="enter", pred=k, pred_name=name))
        for k, (name, _) in enumerate(LEAVE):
            check(lim, dict(op="cut_tree", pid=pid, side="leave", pred=k, pred_name=name))
        for order in range(4):
            check(lim, dict(op="CutByFurcationOrder", pid=pid, order=order))
        # thresholds at and around every distinct terminal-branch length
        _, seg = step_lengths(pid)
        lens = sorted({length for _, length in terminal_branches(pid, seg)})
        thr = sorted({t for length in lens for t in (length - 0.5, length, length + 0.5)} | {0.0})
        for t in thr:
            check(lim, dict(op="CutShortTipBranch", pid=pid, coords="exact", thre=t))
        check(lim, dict(op="CutShortTipBranch", pid=pid, coords="exact", thre=None))
        # neurites / dendrites: default types (root 1, others 3/2 alternating) and a variant with apical dendrites (4)
        for types in (None, [1] + [(4, 2, 3)[i % 3] for i in range(1, n)]):
            for op in ("Tree.get_neurites", "Tree.get_dendrites"):
                check(lim, dict(op=op, pid=pid, types=types, type_check=True))
        check(lim, dict(op="Tree.get_neurites", pid=pid, types=[3] * n, type_check=False))
        check(lim, dict(op="Tree.get_dendrites", pid=pid, types=[2] + [3] * (n - 1), type_check=False))

    for pid in [t for t in tables if len(t) <= n_rem] + unsorted:
        n = len(pid)
        ci = 0
        for size in range(n + 1):
            for rem in itertools.combinations(range(n), size):
                for form in ITERABLE_FORMS:  # every form of `Iterable[int]` for every removal set; arrangement and out_mapping kind rotate
                    check(lim, dict(op="to_subtree", pid=pid, removals=list(rem), container=form, arrange=ARR[ci % len(ARR)], mapping=MK[(ci // len(ARR)) % len(MK)]))
                    ci += 1
                ci += 1  # (so that the rotation is not in step with the number of forms)
        # types over {2,3}: root soma (1) with every assignment below it; for small trees also a root of type 2/3
        assigns = [[1] + list(a) for a in itertools.product((2, 3), repeat=n - 1)]
        if n <= 4:
            assigns += [list(a) for a in itertools.product((2, 3), repeat=n)]
        for types in assigns:
            for T in (2, 3):
                check(lim, dict(op="CutByType", pid=pid, types=types, type=T))
            check(lim, dict(op="CutAxonTree", pid=pid, types=types))
            check(lim, dict(op="CutDendriteTree", pid=pid, types=types))

    ctx.rule(
        f"every sorted parent table <= {n_sub} nodes (+ relabelled non-sorted ones with root 0) x every start node x out_mapping {{none, list, dict}} for get_subtree / Node.subtree; "
        f"cut_tree with {len(ENTER)} enter and {len(LEAVE)} leave predicates and with neither; furcation orders 0..3; CutShortTipBranch thresholds at and +-0.5 around every distinct "
        f"terminal-branch length (exact integer geometry), 0 and the default; neurites/dendrites with two type patterns; every removal set x every form of Iterable[int] "
        f"({len(ITERABLE_FORMS)}: list, tuple, set, frozenset, int32 / int64 arrays, dict keys, dict, range, deque and the one-shot ones: generator expression, iter(list), map, filter, "
        f"reversed, chain objects, generator function) with the ids as listed / reversed / repeated and out_mapping none / list / dict in rotation, and every type assignment over {{2,3}} "
        f"for tables <= {n_rem} nodes. Non-trivial = >= 2 nodes (and a non-empty removal set / an existing terminal branch / a neurite)",
        exhaustive=True,
    )


class _Collect:
    def __init__(self):
        self.v = []
        self.notes = []

    def case(self, *a, **k):
        pass

    def violation(self, *a, **k):
        self.v.append(a)


def replay(spec):
    c = _Collect()
    check(c, spec)
    for v in c.v:
        print("  still failing:", v[:2], v[3:5])
    return not c.v
