"""C15 bounded stand-in: Neurolucida ASC conversion on grammar-generated documents.

Grammar (the property's):
    tree  := '(' color? label point+ split? ')'
    split := '(' alt ('|' alt)* ')'
    alt   := epsilon | point+ split?
    point := '(' x y z r ')'

An abstract document is  (label, run, split)  with  split = None | [alt, ...]  and
alt = None (epsilon) | (run, split);  `run` = number of points.  Points are numbered in
document order; point k gets coordinates derived from k only, so that "one node per point
in order with its coordinates" is observable.

Convention for the 4th number: the library (ASCNode(x, y, z, r), tests/transforms/
test_neurolucida_asc.py) stores the 4th number of a point unchanged in the `r` column.  The
oracle applies the same convention (4th number == r); see ctx.notes.
"""
from __future__ import annotations

import itertools
import random
import re
from io import StringIO

from . import common  # noqa: F401  (puts $VERIF_REPO on sys.path)

CARRIER = "NeurolucidaAscToSwc.from_stream"
TYPE_OF = {"axon": 2, "dendrite": 3}


# ----------------------------------------------------------------------------- generator
def point_values(k):
    """Coordinates / 4th number of the k-th point of a document (all distinct, exact in float32)."""
    return (float(k + 1), -0.5 * k, 0.25 * (k % 7) + k // 7, 0.5 + 0.125 * (k % 11))


def alts_upto(depth, max_alt, max_run):
    """All alternatives whose splits nest at most `depth` levels."""
    out = [None]
    splits = [None] + (list(splits_upto(depth, max_alt, max_run)) if depth > 0 else [])
    for run in range(1, max_run + 1):
        for sp in splits:
            out.append((run, sp))
    return out


def splits_upto(depth, max_alt, max_run):
    """All splits of nesting depth <= depth (depth >= 1)."""
    alts = alts_upto(depth - 1, max_alt, max_run)
    for k in range(1, max_alt + 1):
        for combo in itertools.product(alts, repeat=k):
            yield list(combo)


def docs_upto(depth, max_alt, max_run):
    splits = [None] + (list(splits_upto(depth, max_alt, max_run)) if depth > 0 else [])
    for label in ("Axon", "Dendrite"):
        for run in range(1, max_run + 1):
            for sp in splits:
                yield (label, run, sp)


def random_alt(rng, depth, max_alt, max_run):
    if rng.random() < 0.2:
        return None
    run = rng.randint(1, max_run)
    sp = random_split(rng, depth, max_alt, max_run) if depth > 0 and rng.random() < 0.6 else None
    return (run, sp)


def random_split(rng, depth, max_alt, max_run):
    return [random_alt(rng, depth - 1, max_alt, max_run) for _ in range(rng.randint(1, max_alt))]


def random_doc(rng, depth, max_alt, max_run):
    sp = random_split(rng, depth, max_alt, max_run) if depth > 0 and rng.random() < 0.9 else None
    return (rng.choice(["Axon", "Dendrite", "AXON", "dendrite"]), rng.randint(1, max_run), sp)


def has_empty_alt(doc):
    def sp_has(sp):
        return sp is not None and any(a is None or sp_has(a[1]) for a in sp)

    return sp_has(doc[2])


def doc_depth(doc):
    def sd(sp):
        if sp is None:
            return 0
        return 1 + max((sd(a[1]) if a is not None else 0) for a in sp)

    return sd(doc[2])


def to_json(doc):
    def alt(a):
        return None if a is None else [a[0], split(a[1])]

    def split(sp):
        return None if sp is None else [alt(a) for a in sp]

    return [doc[0], doc[1], split(doc[2])]


def from_json(j):
    def alt(a):
        return None if a is None else (a[0], split(a[1]))

    def split(sp):
        return None if sp is None else [alt(a) for a in sp]

    return (j[0], j[1], split(j[2]))


def fmt_num(v):
    return repr(int(v)) if float(v).is_integer() else repr(float(v))


def render(doc, style="compact", seed=0, corrupt=None):
    """Token list -> text.  Returns (text, end) where text[:end] ends with the document's last ')'.

    style: compact | spaced | newlines | comments (inside the tree body) | colours (before the label) | inline-colours
           (between points) | comment-before-tree | comment-after-label | mixed (newlines + body comments + colour)
    corrupt: (k, kind) replaces the k-th point:  'three' | 'five' | ('word', position, token)
    """
    rng = random.Random(seed)
    toks = []  # (token, kind)
    counter = [0]

    def point():
        k = counter[0]
        counter[0] += 1
        nums = [fmt_num(v) for v in point_values(k)]
        if corrupt is not None and corrupt[0] == k:
            kind = corrupt[1]
            if kind == "three":
                nums = nums[:3]
            elif kind == "five":
                nums = nums + ["7"]
            else:
                nums[kind[1]] = kind[2]
        toks.append(("(", "popen"))
        for s in nums:
            toks.append((s, "num"))
        toks.append((")", "pclose"))

    def run(n):
        for _ in range(n):
            point()

    def split(sp):
        toks.append(("(", "sopen"))
        for i, a in enumerate(sp):
            if i:
                toks.append(("|", "or"))
            if a is not None:
                run(a[0])
                if a[1] is not None:
                    split(a[1])
        toks.append((")", "sclose"))

    toks.append(("(", "topen"))
    if style in ("colours", "inline-colours", "mixed"):
        toks += [("(", "c"), ("Color", "c"), ("Red", "c"), (")", "c")]
    toks += [("(", "lopen"), (doc[0], "label"), (")", "lclose")]
    run(doc[1])
    if doc[2] is not None:
        split(doc[2])
    toks.append((")", "tclose"))

    body_nl = style in ("newlines", "comments", "inline-colours", "mixed")
    body_comments = style in ("comments", "mixed")
    out = []
    if body_nl:
        out.append("\n  ")
    if style == "comment-before-tree":
        out.append("; V3 text file written for MicroBrightField products.\n")
    for idx, (t, kind) in enumerate(toks):
        out.append(t)
        if idx == len(toks) - 1:
            break
        nxt, nkind = toks[idx + 1]
        need_space = kind in ("num", "label", "c") and nkind in ("num", "c") and t not in ("(", ")") and nxt not in ("(", ")")
        sep = " " if need_space else ""
        if style == "spaced":
            if need_space or rng.random() < 0.6:
                sep = rng.choice([" ", "  ", "\t", " \t "])
        elif style == "comment-after-label" and kind == "lclose":
            sep = " ; the tree\n"
        elif body_nl:
            if kind in ("pclose", "sopen", "or", "sclose"):
                r = rng.random()
                if body_comments and r < 0.35:
                    sep = rng.choice(["  ; a remark\n", " ;\n", ";note 1 2 3 4\n    ", " ; Spine | Marker\n"])
                elif style == "inline-colours" and kind == "pclose" and r < 0.35:
                    sep = " (Color Blue)\n "
                elif r < 0.85:
                    sep = "\n" + " " * rng.randint(0, 6)
            elif kind in ("lclose",) or (kind == "c" and t == ")"):
                sep = "\n  "
            elif need_space and rng.random() < 0.3:
                sep = "   "
        out.append(sep)
    text = "".join(out)
    end = len(text)
    if body_nl:
        text += "\n"
    if body_comments:
        text += "; end of file\n"
    return text, end


def expected_from_doc(doc):
    """Expected table straight from the abstract document (used to cross-check the text oracle)."""
    rows = []

    def run(n, parent):
        for _ in range(n):
            k = len(rows)
            rows.append((k, parent))
            parent = k
        return parent

    def split(sp, parent):
        for a in sp:
            if a is not None:
                last = run(a[0], parent)
                if a[1] is not None:
                    split(a[1], last)

    last = run(doc[1], -1)
    if doc[2] is not None:
        split(doc[2], last)
    return [p for _, p in rows]


# ----------------------------------------------------------------------------- oracle
NUM = re.compile(r"[-+]?(\d+\.?\d*|\.\d+)([eE][-+]?\d+)?$")


def ref_convert(text):
    """Reference converter (explicit stack).  Returns list of (x, y, z, r, type, parent)."""
    toks = re.findall(r"[()|]|[^\s()|]+", re.sub(r";[^\n]*", " ", text))
    if not toks or toks[0] != "(":
        raise ValueError("no tree")
    nodes, stack, last, typ, i, closed = [], [], -1, None, 1, False
    while i < len(toks):
        if closed:
            raise ValueError("text after the tree")
        t = toks[i]
        if t == "(" and i + 1 < len(toks) and NUM.match(toks[i + 1]):
            vals = toks[i + 1:i + 5]
            if len(vals) != 4 or not all(NUM.match(v) for v in vals) or toks[i + 5:i + 6] != [")"]:
                raise ValueError("malformed point")
            x, y, z, r = map(float, vals)
            nodes.append((x, y, z, r, typ, last))
            last = len(nodes) - 1
            i += 6
        elif t == "(" and toks[i + 1:i + 2] and toks[i + 1].lower() == "color":
            if toks[i + 3:i + 4] != [")"]:
                raise ValueError("malformed colour")
            i += 4
        elif t == "(" and toks[i + 1:i + 2] and toks[i + 1].lower() in TYPE_OF:
            if toks[i + 2:i + 3] != [")"]:
                raise ValueError("malformed label")
            typ = TYPE_OF[toks[i + 1].lower()]
            i += 3
        elif t == "(" and toks[i + 1:i + 2] and toks[i + 1] in ("(", "|", ")"):
            stack.append(last)  # a split opens: remember the point before it
            i += 1
        elif t == "|" and stack:
            last = stack[-1]
            i += 1
        elif t == ")":
            if stack:
                last = stack.pop()
            else:
                closed = True
            i += 1
        else:
            raise ValueError(f"unexpected token {t!r}")
    if not closed or typ is None or not nodes:
        raise ValueError("premature end")
    return nodes


# ----------------------------------------------------------------------------- checks
def convert(text):
    from swcgeom.transforms.neurolucida_asc import NeurolucidaAscToSwc

    t = NeurolucidaAscToSwc.from_stream(StringIO(text))
    n = t.number_of_nodes()
    return dict(n=n, id=[int(v) for v in t.id()], pid=[int(v) for v in t.pid()], type=[int(v) for v in t.type()],
                xyz=[[float(a) for a in row] for row in t.xyz()], r=[float(v) for v in t.r()])


class Reporter:
    """Caps the reports per (carrier, clause) at 3 (inputs arrive smallest first); for the decoration clause one
    report per decoration style (at most 6), so that each distinct way of failing is shown once."""

    def __init__(self, ctx):
        self.ctx, self.count, self.total = ctx, {}, {}

    def __call__(self, clause, inp, observed, expected, carrier=CARRIER, variant=None):
        if variant is None and isinstance(inp, dict) and "doc" in inp:
            variant = "with-empty-alternative" if has_empty_alt(from_json(inp["doc"])) else "no-empty-alternative"
        k = (carrier, clause, variant)
        self.count[k] = self.count.get(k, 0) + 1
        self.total[clause] = self.total.get(clause, 0) + 1
        cap, tot = (3, 3) if variant is None else ((2, 4) if variant in ("with-empty-alternative", "no-empty-alternative") else (1, 6))
        if self.count[k] <= cap and sum(min(v, cap) for kk, v in self.count.items() if kk[:2] == k[:2]) <= tot:
            self.ctx.violation(carrier, clause, inp, observed, expected, inp)


def check_conversion(rep, spec, text, base_result=None):
    """Clauses 1-4 on one text; returns the library's table (or None)."""
    want = ref_convert(text)
    try:
        got = convert(text)
    except Exception as e:
        rep("operation-raises", spec, f"{type(e).__name__}: {e} <- {e.__cause__!r}", f"a tree of {len(want)} nodes")
        return None
    n = len(want)
    if got["n"] != n or got["id"] != list(range(got["n"])):
        rep("one-node-per-point-in-order", spec, f"{got['n']} nodes, ids {got['id'][:12]}", f"{n} nodes with ids 0..{n - 1}")
        return got
    wx = [list(w[:3]) for w in want]
    if got["xyz"] != wx:
        k = next(i for i in range(n) if got["xyz"][i] != wx[i])
        order = sorted(map(tuple, got["xyz"])) == sorted(map(tuple, wx))
        rep("one-node-per-point-in-order" if order else "coordinates-and-radius", spec, f"node {k}: xyz {got['xyz'][k]}", f"node {k}: xyz {wx[k]}")
    wr = [w[3] for w in want]
    if got["r"] != wr:
        k = next(i for i in range(n) if got["r"][i] != wr[i])
        rep("coordinates-and-radius", spec, f"node {k}: r {got['r'][k]}", f"node {k}: r {wr[k]} (4th number of the point)")
    wt = [w[4] for w in want]
    if got["type"] != wt:
        rep("typed-by-label", spec, f"types {got['type'][:12]}", f"all {wt[0]}")
    wp = [w[5] for w in want]
    if got["pid"] != wp:
        rep("parent-is-preceding-or-split-point", spec, f"pid {got['pid']}", f"pid {wp}")
    return got


def must_raise(text):
    """True if the library rejects `text`; otherwise the number of nodes it converted."""
    try:
        got = convert(text)
    except RecursionError:
        raise
    except Exception:
        return True
    return got["n"]


STYLES = ["spaced", "newlines", "comments", "colours", "inline-colours", "comment-before-tree", "comment-after-label", "mixed"]
BAD_WORDS = ["abc", "1x", "1.2.3", "1_0", "1\u0663", "3,5", "2.5E-"]  # incl. words that Python float() would accept but the ASC number format does not


def check_doc(ctx, rep, doc, tier_full=True, deco_seeds=(1,), group="doc", styles=None, mixed_stride=1):
    dj = to_json(doc)
    text, _ = render(doc)
    # self-check of the oracle: the text oracle agrees with the generator's own table
    ref = ref_convert(text)
    assert [w[5] for w in ref] == expected_from_doc(doc), ("oracle self-check", dj)
    assert [w[:4] for w in ref] == [point_values(k) for k in range(len(ref))]
    npts = len(ref)
    spec = dict(kind="convert", doc=dj, style="compact", seed=0)
    base = check_conversion(rep, spec, text)
    ctx.case(group, dict(doc=dj, style="compact"), nontrivial=True)

    # decorations do not change the result
    for style in (STYLES if styles is None else styles):
        for s in deco_seeds:
            dtext, _ = render(doc, style, s)
            dspec = dict(kind="convert", doc=dj, style=style, seed=s)
            assert ref_convert(dtext) == ref, ("oracle self-check (decorations)", dj, style)
            try:
                got = convert(dtext)
            except Exception as e:
                rep("decorations-ignored", dspec, f"{type(e).__name__}: {e} <- {e.__cause__!r}", "same table as the undecorated document", variant=style)
                got = None
            if got is not None and base is not None and got != base:
                rep("decorations-ignored", dspec, f"n={got['n']} pid={got['pid']} type={got['type'][:6]}", f"n={base['n']} pid={base['pid']} type={base['type'][:6]}", variant=style)
            if got is not None and base is None:
                check_conversion(rep, dspec, dtext)
            ctx.case(group + "-decorated", dict(doc=dj, style=style, seed=s))
    if not tier_full:
        return

    # every proper prefix that stops before the document's last ')' must be rejected
    for style, s in (("compact", 0), ("mixed", 1)):
        ttext, end = render(doc, style, s)
        accepted = []
        stride = mixed_stride if style == "mixed" else 1
        for cut in range((end - 1) % stride, end, stride):  # text[:cut] never contains the final ')'; cut = end-1 always tried
            r = must_raise(ttext[:cut])
            if r is not True:
                accepted.append((cut, r))
        ctx.case(group + "-truncations", dict(doc=dj, style=style, cuts=end, stride=stride))
        if accepted:
            cut, nn = accepted[0]
            tspec = dict(kind="truncate", doc=dj, style=style, seed=s, cut=cut, stride=stride)
            rep("truncation-rejected", tspec, f"prefix {ttext[:cut]!r} converted to {nn} nodes ({len(accepted)} of {end} prefixes accepted)", "an exception")

    # every single-point corruption must be rejected
    kinds = ["three", "five"] + [("word", pos, w) for pos in range(4) for w in BAD_WORDS]
    for k in range(npts):
        for kind in kinds:
            ctext, _ = render(doc, corrupt=(k, kind))
            r = must_raise(ctext)
            if r is not True:
                cspec = dict(kind="corrupt", doc=dj, point=k, how=list(kind) if isinstance(kind, tuple) else kind)
                rep("malformed-point-rejected", cspec, f"{ctext!r} converted to {r} nodes", "an exception")
        ctx.case(group + "-corruptions", dict(doc=dj, point=k))


def doc_size(doc):
    return len(render(doc)[0])


def check_long(ctx, rep, n):
    text = "((Axon)\n" + "\n".join("(%s %s %s %s)" % tuple(fmt_num(v) for v in point_values(k)) for k in range(n)) + "\n)\n"
    spec = dict(kind="long", points=n)
    try:
        got = convert(text)
        ok = got["n"] == n and got["pid"] == list(range(-1, n - 1))
        if not ok:
            rep("long-branch-converts", spec, f"{got['n']} nodes", f"a chain of {n} nodes")
    except Exception as e:
        rep("long-branch-converts", spec, f"{type(e).__name__}: {str(e)[:80]}", f"a chain of {n} nodes")
    ctx.case("long-branch", dict(points=n))


def run(ctx):
    rep = Reporter(ctx)
    rng = random.Random(ctx.seed)
    quick = ctx.tier == "quick"
    ctx.notes.append("radius convention: the 4th number of an ASC point is stored unchanged in column r (library ASCNode(x,y,z,r) and its tests); the oracle does the same, no diameter halving")

    # exhaustive part: depth <= 1 with <= 3 alternatives and runs <= 3; depth <= 2 with <= 2 alternatives and runs <= 2
    docs = list(docs_upto(1, 3, 3))
    seen = {repr(to_json(d)) for d in docs}
    for d in docs_upto(2, 2, 2):
        if repr(to_json(d)) not in seen:
            seen.add(repr(to_json(d)))
            docs.append(d)
    docs.sort(key=doc_size)
    max_depth = 3 if quick else 4
    n_exh = len(docs)
    n_first, n_sampled = (300, 100) if quick else (len(docs), 0)
    step = max(1, (len(docs) - n_first) // max(1, n_sampled))
    n_full = 0
    for i, d in enumerate(docs):
        full = i < n_first or ((i - n_first) % step == 0 and n_sampled > 0)
        n_full += full
        # quick: every document in the compact layout and 3 of the 8 decorated layouts (rotating); thorough: all 8
        styles = [STYLES[(i + k) % len(STYLES)] for k in (0, 3, 5)] if quick and i >= n_first else None
        check_doc(ctx, rep, d, tier_full=full, deco_seeds=(1,), styles=styles)
    # random tail up to the maximal depth
    n_rand, max_size = (150, 500) if quick else (2000, 900)
    tail = []
    while len(tail) < n_rand:
        d = random_doc(rng, max_depth, 3, 3)
        key = repr(to_json(d))
        if key in seen or doc_size(d) > max_size:
            continue
        seen.add(key)
        tail.append(d)
    tail.sort(key=doc_size)
    for i, d in enumerate(tail):
        full = i % (5 if quick else 3) == 0
        n_full += full
        check_doc(ctx, rep, d, tier_full=full, deco_seeds=(1, 2) if not quick else (1,), group="random-doc", mixed_stride=3 if quick else 1)
    for n in (900, 5000):
        check_long(ctx, rep, n)
    ctx.rule(f"ASC documents from the property's grammar: all {n_exh} documents with (split depth <= 1, <= 3 alternatives, runs <= 3) or (depth <= 2, <= 2 alternatives, runs <= 2), "
             f"both labels, plus {n_rand} seeded random documents of depth <= {max_depth} (<= 3 alternatives, runs <= 3, empty alternatives included); each in up to 9 layouts "
             f"(compact + whitespace/newlines/comments/colours/inline colours/comment before tree/comment after label/mixed); for {n_full} of them (the smallest first) every character-prefix "
             "truncation (compact and mixed layout) and every single-point corruption "
             "(3 numbers, 5 numbers, 3 non-numeric words x 4 positions); long single branches of 900 and 5000 points. Non-trivial = every document (>= 1 point).", exhaustive=False)


def replay(spec):
    class C:
        def __init__(self):
            self.v, self.notes = [], []

        def case(self, *a, **k):
            pass

        def violation(self, *a, **k):
            self.v.append(a)

    c = C()
    rep = Reporter(c)
    kind = spec["kind"]
    if kind == "convert":
        doc = from_json(spec["doc"])
        text, _ = render(doc, spec.get("style", "compact"), spec.get("seed", 0))
        got = check_conversion(rep, spec, text)
        if spec.get("style", "compact") != "compact" and got is not None:
            try:
                base = convert(render(doc)[0])
            except Exception:
                base = None
            if base is not None and base != got:
                rep("decorations-ignored", spec, got["pid"], base["pid"])
    elif kind == "truncate":
        doc = from_json(spec["doc"])
        text, end = render(doc, spec["style"], spec["seed"])
        stride = spec.get("stride", 1)
        for cut in range((end - 1) % stride, end, stride):
            r = must_raise(text[:cut])
            if r is not True:
                rep("truncation-rejected", spec, f"prefix of {cut} chars converted to {r} nodes", "an exception")
                break
    elif kind == "corrupt":
        doc = from_json(spec["doc"])
        how = spec["how"]
        how = tuple(how) if isinstance(how, list) else how
        text, _ = render(doc, corrupt=(spec["point"], how))
        r = must_raise(text)
        if r is not True:
            rep("malformed-point-rejected", spec, f"converted to {r} nodes", "an exception")
    elif kind == "long":
        check_long(c, rep, spec["points"])
    for v in c.v:
        print("  still failing:", v[:2], v[3:5])
    return not c.v
