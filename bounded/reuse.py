"""Instance-reuse independence (bounded stand-in, shared by C03 / C06 / C12 / C16 / C20).

The properties speak about what an operation does to THE TREE IT IS GIVEN ("applies the stated affine map", "returns
exactly the specified nodes", "the lit voxels are those of the tree that was passed in").  A transform object is configured
once and applied to many trees, so its answer on a tree must not depend on what it was applied to before: for every
transform factory F of the property, with ONE instance f = F():

    f(A); f(B)  must equal  F()(B)        (and f(A) a second time must equal the first answer)

for trees A, B that differ in geometry only (same source, same node count: a translated / thickened copy), in topology,
or in size.  The oracle is the library on a fresh instance (whose answers the property modules check against their own
definitions); what is checked here is that no earlier application changes them, and that applying f leaves A untouched.
"""
from __future__ import annotations

import random

import numpy as np

from .common import coords_for, make_tree, random_sorted_table, same_snapshot, snapshot_tree
from .history import canon, close


def tree_value(t):
    """canonical content of a result: a tree's columns, an array, or whatever canon() makes of it"""
    if hasattr(t, "ndata") and hasattr(t, "keys"):
        return {k: canon(np.asarray(t.get_ndata(k))) for k in sorted(t.keys())}
    if hasattr(t, "trees") and hasattr(t, "__len__"):
        return [tree_value(x) for x in t]
    return canon(np.asarray(t)) if isinstance(t, np.ndarray) else canon(t)


def _apply(f, t):
    try:
        return ("value", tree_value(f(t)))
    except Exception as e:  # noqa: BLE001 - raising is an answer; it must be the same for a fresh instance
        return ("raised", type(e).__name__)


def variants_of(pid, xyz, rng):
    """(label, tree) pairs to apply ONE instance to in turn; all share `source` (the happy path of a file-backed tree)"""
    n = len(pid)
    r = np.array([1.0 + 0.25 * (i % 3) for i in range(n)])
    types = [1] + [2 if (i % 3 == 0) else 3 for i in range(1, n)]
    base = make_tree(pid, xyz, r, types)
    moved = make_tree(pid, np.asarray(xyz) + np.array([7.0, -4.0, 2.5]), r, types)
    thick = make_tree(pid, xyz, r * 3 + 0.5, types)
    pid2 = random_sorted_table(rng, n)
    other = make_tree(pid2, coords_for(pid2), r, types)
    pid3 = random_sorted_table(rng, n + 2)
    bigger = make_tree(pid3, coords_for(pid3))
    out = [("base", base), ("moved", moved), ("thicker", thick), ("other-topology", other), ("bigger", bigger)]
    for _, t in out:
        t.source = "neuron.swc"
    return out


def check_reuse(ctx, factories, pid, xyz, rng, cap=None, only=None):
    bad = 0
    for name, (carrier, make) in factories.items():
        if only is not None and name != only:
            continue
        trees = variants_of(pid, xyz, random.Random(rng.random()))
        try:
            f = make()
        except Exception:  # noqa: BLE001
            continue
        snaps = [snapshot_tree(t) for _, t in trees]
        first = None
        for k, (label, t) in enumerate(trees):
            got = _apply(f, t)
            want = _apply(make(), t)
            if k == 0:
                first = got
            if got[0] != want[0] or not close(got[1], want[1]):
                bad += 1
                if cap is None or cap.setdefault((carrier, name), 0) < 3:
                    if cap is not None:
                        cap[(carrier, name)] += 1
                    ctx.violation(carrier, f"instance-reuse-independent/{name}",
                                  dict(pid=list(pid), history="one instance applied to " + ", ".join(lb for lb, _ in trees[: k + 1]), differs_on=label),
                                  observed=str(got)[:300], expected=str(want)[:300] + " (a fresh instance on the same tree)",
                                  replay=dict(kind="reuse", pid=list(pid), xyz=[[float(a) for a in row] for row in xyz], factory=name, seed=0))
            if not same_snapshot(t, snaps[k]):
                bad += 1
                ctx.violation(carrier, f"instance-reuse-independent/{name}/input-untouched", dict(pid=list(pid), applied_to=label), observed="input columns changed", expected="input left as it was",
                              replay=dict(kind="reuse", pid=list(pid), xyz=[[float(a) for a in row] for row in xyz], factory=name, seed=0))
        again = _apply(f, trees[0][1])  # back on the first tree after the others
        if first is not None and (again[0] != first[0] or not close(again[1], first[1])):
            bad += 1
            ctx.violation(carrier, f"instance-reuse-independent/{name}/same-answer-on-the-same-tree", dict(pid=list(pid), history="applied to base, the others, then base again"),
                          observed=str(again)[:300], expected=str(first)[:300],
                          replay=dict(kind="reuse", pid=list(pid), xyz=[[float(a) for a in row] for row in xyz], factory=name, seed=0))
        ctx.case("reuse", dict(pid=list(pid), factory=name), nontrivial=len(pid) >= 2)
    return bad


# ----------------------------------------------------------------------------------------------------- catalogues
def _geometry():
    from swcgeom.transforms import (AffineTransform, Normalizer, RadiusReseter, Rotate, RotateX, RotateY, RotateZ, Scale, Translate, TranslateOrigin)

    m = np.array([[0.0, -2.0, 0.0, 1.0], [2.0, 0.0, 0.0, -3.0], [0.0, 0.0, 1.5, 0.5], [0.0, 0.0, 0.0, 1.0]])
    return dict(
        translate=("Translate", lambda: Translate(1.5, -2.0, 3.0)),
        scale_root=("Scale", lambda: Scale(2.0, 0.5, 1.5)),
        scale_origin=("Scale", lambda: Scale(2.0, 2.0, 2.0, center="origin")),
        rotate=("Rotate", lambda: Rotate(np.array([1.0, 2.0, 2.0]) / 3.0, 0.7)),
        rotate_x=("RotateX", lambda: RotateX(0.4)), rotate_y=("RotateY", lambda: RotateY(-1.1)), rotate_z=("RotateZ", lambda: RotateZ(2.2, center="origin")),
        affine_root=("AffineTransform.__call__", lambda: AffineTransform(m, center="root")),
        affine_origin=("AffineTransform.__call__", lambda: AffineTransform(m, center="origin")),
        translate_origin=("TranslateOrigin", lambda: TranslateOrigin()),
        radius=("RadiusReseter.__call__", lambda: RadiusReseter(0.75)),
        normalizer=("Normalizer.__call__", lambda: Normalizer()),
    )


def _cuts():
    from swcgeom.transforms import CutAxonTree, CutByFurcationOrder, CutByType, CutDendriteTree, CutShortTipBranch

    return dict(cut_type=("CutByType.__call__", lambda: CutByType(2)), cut_axon=("CutAxonTree", lambda: CutAxonTree()), cut_dendrite=("CutDendriteTree", lambda: CutDendriteTree()),
                cut_order=("CutByFurcationOrder.__call__", lambda: CutByFurcationOrder(1)), cut_short=("CutShortTipBranch.__call__", lambda: CutShortTipBranch(thre=2.0)))


def _resamplers():
    from swcgeom.transforms import IsometricResampler, TreeSmoother

    return dict(resample_1=("Resampler.__call__", lambda: IsometricResampler(1.0)), resample_03=("Resampler.__call__", lambda: IsometricResampler(0.3)),
                smooth=("TreeSmoother.__call__", lambda: TreeSmoother(3)))


def _pipelines():
    from swcgeom.transforms import IsometricResampler, RadiusReseter, Scale, Transforms, Translate, ToBranchTree

    return dict(pipeline=("Transforms.__call__", lambda: Transforms(Translate(1.0, 0.0, 0.0), Scale(2.0, 2.0, 2.0), RadiusReseter(1.0))),
                pipeline_resample=("Transforms.__call__", lambda: Transforms(Scale(0.5, 0.5, 0.5), IsometricResampler(0.7))),
                to_branch_tree=("ToBranchTree", lambda: ToBranchTree()))


def _image():
    from swcgeom.transforms import ToImageStack

    return dict(to_image=("ToImageStack.transform", lambda: ToImageStack(resolution=1.0)), to_image_fine=("ToImageStack.transform", lambda: ToImageStack(resolution=[0.5, 0.5, 1.0])))


def factories_for(prop):
    f = {}
    parts = dict(C03=(_geometry, _cuts, _resamplers, _pipelines), C06=(_cuts,), C12=(_geometry,), C16=(_resamplers,), C20=(_image,))[prop]
    for p in parts:
        try:
            f.update(p())
        except Exception:  # noqa: BLE001 - a class that no longer exists is not this harness's business
            pass
    return f


PROPS = ("C03", "C06", "C12", "C16", "C20")


def run(ctx, prop):
    rng = random.Random(ctx.seed + 777)
    cap = {}
    facs = factories_for(prop)
    tables = [(-1, 0), (-1, 0, 0), (-1, 0, 1, 1), (-1, 0, 0, 1, 1), (-1, 0, 1, 2, 2, 1)]
    if prop == "C20":
        tables = tables[:3]
    for pid in tables:
        check_reuse(ctx, facs, pid, coords_for(pid), rng, cap)
    for _ in range((2 if prop == "C20" else 4) if ctx.tier == "quick" else 20):
        pid = random_sorted_table(rng, rng.randrange(4, 9 if prop == "C20" else 12))
        check_reuse(ctx, facs, pid, coords_for(pid, rng), rng, cap)
    ctx.rule("instance reuse: ONE instance of each transform of the property (%s) applied in turn to a tree, its translated copy, its thickened copy, a tree of another topology and a "
             "bigger tree (all with the same non-empty `source`), then to the first tree again; every answer must equal the answer of a FRESH instance on that tree, the first "
             "answer must come back, inputs must be left untouched" % ", ".join(sorted(facs)), exhaustive=False)


def replay(prop, spec):
    class C:
        def __init__(self):
            self.violations, self.notes = [], []

        def violation(self, *a, **k):
            self.violations.append(a)

        def case(self, *a, **k):
            pass

    c = C()
    check_reuse(c, factories_for(prop), spec["pid"], np.array(spec["xyz"]), random.Random(spec.get("seed", 0)), None, only=spec["factory"])
    for v in c.violations:
        print("  still failing:", v[:2])
    return not c.violations
