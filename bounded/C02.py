"""C02 bounded stand-in: reading SWC text keeps every row or fails loudly.

Texts are assembled from the SWC line grammar and read with
``swcgeom.core.swc_utils.read_swc`` and ``Tree.from_swc``.  The oracle is the small
reference reader ``ref_read`` below (str.split + int/float): one node per data row, in
order, every field numerically equal, comments in order.  Corrupted texts (one malformed
line at every line position, undecodable bytes at several offsets of a 20 KB body) must
make the read RAISE; returning a table is the violation.  ``sort_nodes=True`` on files
with arbitrary distinct ids in arbitrary row order must give a tree isomorphic to the
file's graph.  SIZE is part of the input space (``check_large``): generated files of several
MiB (well beyond every plausible line / decoder / read buffer) and files whose byte count
sits just around 8 KiB / 64 KiB / 1 MiB, through every source kind and through read_swc,
Tree.from_swc and the lazy Population read; the oracle there is the generator itself (row
count, every id / x / pid by formula, first and last row, every comment incl. one behind the
last row, a malformed line in the last 1 % must raise).
"""
from __future__ import annotations

import io
import itertools
import json
import os
import random
import re
import shutil
import warnings

import numpy as np

from .common import MAG_COORDS, MAG_IDS, MAG_RADII, MAG_TYPES, random_sorted_table, scratch_dir, sorted_parent_tables

FLOATS = ["0", "7", "1.", ".5", "1e3", "1E-2", "+2.5", "-3.25", "-.5e1", "12.5e+1", "-0.0", "0.1000", "+0", "3.14159", "-1.E+1", "00.5"]
SEPS = [" ", "\t", "  "]
LEADS = ["", " ", "\t", "   "]
TRAILS = ["", " ", "\t"]
EOLS = ["\n", "\r\n"]
EXTRA_PLAIN = ["0.5", "-2", "+3.0", "7", ".25", "10"]
EXTRA_EXP = ["1e3", "2.5E-1"]
COMMENT_LINES = ["# hello", "#", "#x", "  # indented", "# 1 1 0 0 0 1 -1", "## double", "#\ttab", "# trailing  ", "#id type",
                 # characters str.splitlines() takes for line ends but a file handle does not: the comment stays ONE line
                 "# form\x0cfeed", "# group\x1dseparator 5 3 1 1 1 1 4"]
BLANK_LINES = ["", " ", "\t", "  \t "]
SRCS = ["text", "bytes", "path"]
COLS = ["id", "type", "x", "y", "z", "r", "pid"]
BAD_TEMPLATE = ["9", "3", "1.5", "2", "0", "1", "1"]
# what is left of the column-header line the WRITER emits (`# id type x y z r pid [extra columns]`) behind the '#': the reader takes the LAST
# comment line in front of the first row for that header if it starts like this, and returns every other comment line
HEADER_TEXT = " " + " ".join(COLS)
# comment lines for the slots around the rows (group 1d): plain ones and ones that start like the column header
SLOT_PLAIN = ["# a", "#b"]
SLOT_HEADER_LIKE = ["#" + HEADER_TEXT, "#" + HEADER_TEXT + " e", "  #" + HEADER_TEXT + "x and more", "#" + HEADER_TEXT + "  "]
SLOT_NEARLY = ["#" + HEADER_TEXT[1:], "#  " + HEADER_TEXT[1:], "# " + HEADER_TEXT[1:].upper(), "#" + HEADER_TEXT[:-4]]  # no blank / two blanks / upper case / cut short


# ---------------------------------------------------------------- reporting

class Reporter:
    """Buffers violations; emits the smallest inputs per (carrier, clause), one per `tag` first."""

    def __init__(self):
        self.items = {}
        self.counts = {}

    def add(self, carrier, clause, spec, observed, expected, tag=""):
        key = (carrier, clause)
        self.counts[key] = self.counts.get(key, 0) + 1
        js = json.dumps(spec, sort_keys=True, default=str)
        size = (len(spec.get("text", "")) + spec.get("offset", 0), len(js))
        self.items.setdefault(key, []).append((size, js, tag, spec, observed, expected))

    def flush(self, ctx, keep=3):
        for key in sorted(self.items):
            ordered = sorted(self.items[key], key=lambda x: (x[0], x[1]))
            chosen, seen_js, seen_tag = [], set(), set()
            for it in ordered:  # first the smallest of every tag
                if it[2] not in seen_tag and it[1] not in seen_js:
                    seen_tag.add(it[2]); seen_js.add(it[1]); chosen.append(it)
            for it in ordered:
                if len(chosen) >= keep:
                    break
                if it[1] not in seen_js:
                    seen_js.add(it[1]); chosen.append(it)
            chosen = sorted(chosen, key=lambda x: (x[0], x[1]))[: max(keep, min(len(seen_tag), 5))]
            for size, js, tag, spec, observed, expected in chosen:
                ctx.violation(key[0], key[1], spec, (f"[{tag}] " if tag else "") + str(observed), expected, spec)
            tags = {}
            for it in self.items[key]:
                tags[it[2]] = tags.get(it[2], 0) + 1
            ctx.notes.append(f"{key[0]} / {key[1]}: {self.counts[key]} failing evaluations in this run ({len(chosen)} reported); by kind: {tags}")


# ---------------------------------------------------------------- the oracle: reference reader

def ref_read(text, nextra=0):
    """Independent reader: returns (rows, comments, field_counts).  A row is
    [id, type, x, y, z, r, pid, extra...]; only str.split / int / float are used."""
    rows, comments, nfields = [], [], []
    behind_hash, lead = [], None  # text behind the '#' of every comment line; number of comment lines in front of the first row
    for line in text.replace("\r\n", "\n").split("\n"):
        s = line.strip()
        if s == "":
            continue
        if s[0] == "#":
            comments.append(s[1:].strip())
            behind_hash.append(s[1:])
            continue
        tok = s.split()
        if len(tok) < 7 + nextra:
            raise ValueError(f"reference reader: short row {line!r}")
        if lead is None:
            lead = len(comments)
        rows.append([int(tok[0]), int(tok[1])] + [float(t) for t in tok[2:6]] + [int(tok[6])] + [float(t) for t in tok[7:7 + nextra]])
        nfields.append(len(tok))
    lead = len(comments) if lead is None else lead
    if lead and behind_hash[lead - 1].startswith(HEADER_TEXT):
        del comments[lead - 1]  # the writer's column header: the last comment line in front of the rows, and only that one
    return rows, comments, nfields


def strip_unrequested(text, nextra):
    """Same text with every data row cut to its first 7+nextra fields (line structure kept)."""
    eol = "\r\n" if "\r\n" in text else "\n"
    out = []
    for line in text.replace("\r\n", "\n").split("\n"):
        s = line.strip()
        if s and s[0] != "#":
            line = " ".join(s.split()[: 7 + nextra])
        out.append(line)
    return eol.join(out)


# ---------------------------------------------------------------- plumbing

def _source(text, src, base, encoding="utf-8", data=None):
    if src == "text":
        return io.StringIO(text)
    if data is None:
        data = text.encode("utf-8" if encoding == "detect" else encoding)
    if src == "bytes":
        return io.BytesIO(data)
    p = os.path.join(base, "in.swc")
    with open(p, "wb") as f:
        f.write(data)
    return p


def _kwargs(opts):
    kw = {}
    for k in ("reset_index", "sort_nodes", "encoding"):
        if k in opts:
            kw[k] = opts[k]
    if opts.get("extra_cols"):
        kw["extra_cols"] = list(opts["extra_cols"])
    return kw


def _call(fn, text, src, base, opts, data=None):
    """-> (result | None, exception | None, number of warnings)"""
    with warnings.catch_warnings(record=True) as w:
        warnings.simplefilter("always")
        try:
            res = fn(_source(text, src, base, opts.get("encoding", "utf-8"), data), **_kwargs(opts))
            return res, None, len(w)
        except Exception as e:  # reported by the caller, never dropped
            return None, e, len(w)


def _exc(e):
    c = e.__cause__
    msg = f"{type(e).__name__}: {e}" + (f" (cause: {type(c).__name__}: {c})" if c is not None else "")
    msg = re.sub(r" at 0x[0-9a-fA-F]+", "", msg)              # object addresses
    return re.sub(r"[^\s`']*[/\\]in\.swc", "<scratch>/in.swc", msg)  # scratch path (contains the pid)


def _expected_columns(rows, opts):
    """Expected table, column by column, for sort_nodes=False."""
    extras = list(opts.get("extra_cols") or [])
    cols = {c: [r[i] for r in rows] for i, c in enumerate(COLS + extras)}
    if opts.get("reset_index", True):
        root = next((r[0] for r in rows if r[6] == -1), rows[0][0])
        cols["id"] = [v - root for v in cols["id"]]
        cols["pid"] = [(-1 if v == -1 else v - root) for v in cols["pid"]]
    return cols


# ---------------------------------------------------------------- checks

def check_good(rep, spec, base):
    """spec: kind='good', text, src, opts{reset_index, extra_cols, encoding}"""
    from swcgeom.core import Tree
    from swcgeom.core.swc_utils import read_swc

    text, src, opts = spec["text"], spec["src"], dict(spec.get("opts") or {})
    nextra = len(opts.get("extra_cols") or [])
    rows, comments, nfields = ref_read(text, nextra)
    want = _expected_columns(rows, opts)
    has_unrequested = any(nf > 7 + nextra for nf in nfields)
    tag = "unrequested-fields" if has_unrequested else ""

    # ---- fields beyond the requested columns: same result as without them, plus one warning.
    # If the same text WITHOUT those fields reads correctly, a wrong result is charged to the
    # extra-fields clause only (the cause is identified), not to the general clauses as well.
    blame_extras = False
    res, exc, nwarn = res1, exc1, nwarn1 = _call(read_swc, text, src, base, opts)
    if has_unrequested:
        stripped = strip_unrequested(text, nextra)
        res0, exc0, nwarn0 = _call(read_swc, stripped, src, base, opts)
        if exc0 is None and len(res0[0]) == len(rows):
            kind = "exponent-spelled extra field" if spec.get("exp_extra") else "plain extra field"
            if exc1 is not None:
                blame_extras = True
                rep.add("read_swc", "extra-fields-only-warn", spec, _exc(exc1), f"{len(rows)} rows and a warning", kind + ": error")
            else:
                df0, df1 = res0[0], res1[0]
                same = (list(df0.columns) == list(df1.columns) and len(df0) == len(df1)
                        and all(np.array_equal(df0[c].to_numpy(), df1[c].to_numpy()) for c in df0.columns)
                        and [c.strip() for c in res0[1]] == [c.strip() for c in res1[1]])
                if not same:
                    blame_extras = True
                    rep.add("read_swc", "extra-fields-only-warn", spec, f"no error; {len(df1)} rows", f"{len(df0)} rows, as for the same text without the extra fields",
                            kind + ": table differs")
                elif nwarn1 <= nwarn0:
                    rep.add("read_swc", "extra-fields-only-warn", spec, f"{nwarn1} warnings (same as without the extra fields)", "one more warning", kind + ": no warning")

    # ---- read_swc
    if blame_extras:
        pass
    elif exc is not None:
        rep.add("read_swc", "operation-raises", spec, _exc(exc), f"table with {len(rows)} rows", tag)
    else:
        df, got_comments = res
        table = {c: df[c].to_numpy() for c in df.columns}
        if len(df) != len(rows):
            rep.add("read_swc", "one-node-per-row", spec, f"{len(df)} rows", f"{len(rows)} rows", tag)
        else:
            if list(df.columns) != list(want):
                rep.add("read_swc", "fields-equal", spec, f"columns {list(df.columns)}", f"columns {list(want)}", tag)
            else:
                for c in want:
                    if not np.array_equal(np.asarray(table[c], dtype=np.float64), np.asarray(want[c], dtype=np.float64)):
                        rep.add("read_swc", "fields-equal", spec, {c: [float(v) for v in table[c]]}, {c: want[c]}, tag)
                        break
        gc = [c.strip() for c in got_comments]
        if gc != comments:
            rep.add("read_swc", "comments-in-order", spec, gc, comments, tag)
        if any("\r" in c for c in got_comments):
            rep.notes.add("read_swc keeps the '\\r' of CRLF comment lines when the source is a StringIO (compared modulo surrounding blanks)")

    # ---- Tree.from_swc on the same text
    res, exc, _ = _call(Tree.from_swc, text, src, base, opts)
    if exc is not None:
        if blame_extras:
            rep.add("Tree.from_swc", "extra-fields-only-warn", spec, _exc(exc), f"tree with {len(rows)} nodes", "error")
        else:
            rep.add("Tree.from_swc", "operation-raises", spec, _exc(exc), f"tree with {len(rows)} nodes", tag)
    else:
        t = res
        if t.number_of_nodes() != len(rows) or any(len(t.get_ndata(c)) != len(rows) for c in COLS):
            rep.add("Tree.from_swc", "extra-fields-only-warn" if blame_extras else "one-node-per-row", spec, f"{t.number_of_nodes()} nodes", f"{len(rows)} nodes",
                    "table differs" if blame_extras else tag)
        else:
            for c in COLS:
                w = np.asarray(want[c], dtype=np.float32 if c in "xyzr" else np.int64)
                g = np.asarray(t.get_ndata(c))
                if not np.array_equal(g, w):
                    rep.add("Tree.from_swc", "fields-equal", spec, {c: [float(v) for v in g]}, {c: [float(v) for v in w]}, tag)
                    break
        gc = [c.strip() for c in t.comments]
        if gc != comments and not blame_extras:
            rep.add("Tree.from_swc", "comments-in-order", spec, gc, comments, tag)


def check_bad(rep, spec, base):
    """spec: kind='bad', text (already corrupted), src, opts, tree (bool), nrows_base, bad_kind"""
    from swcgeom.core import Tree
    from swcgeom.core.swc_utils import read_swc

    text, src, opts = spec["text"], spec["src"], dict(spec.get("opts") or {})
    fns = [("read_swc", read_swc)] + ([("Tree.from_swc", Tree.from_swc)] if spec.get("tree", True) else [])
    for name, fn in fns:
        res, exc, _ = _call(fn, text, src, base, opts)
        if exc is not None:
            continue  # the property demands an error here
        n = len(res[0]) if name == "read_swc" else res.number_of_nodes()
        nb = spec.get("nrows_base")
        if nb is None:
            tag = "returned"
        elif n < nb:
            tag = "shortened table returned"
        elif n == nb:
            tag = "malformed line silently dropped"
        else:
            tag = "malformed line accepted as a data row"
        rep.add(name, "malformed-line-raises", spec, f"no error; returned {n} rows (text has {nb} well-formed rows + 1 malformed line: {spec.get('bad_line')!r})",
                "an exception", tag)


def big_body(nrows=520):
    lines = []
    for i in range(nrows):
        lines.append(f"{i + 1} {1 if i == 0 else 3} {i}.5 {i % 7}.25 -{i % 3}.125 1.0 {-1 if i == 0 else i}")
        lines.append(f"# c{i:04d}")
    return ("\n".join(lines) + "\n").encode("utf-8")


def check_undecodable(rep, spec, base):
    """spec: kind='undecodable', nrows, offset, where ('raw'|'comment'), src ('bytes'|'path'), tree"""
    from swcgeom.core import Tree
    from swcgeom.core.swc_utils import read_swc

    body = big_body(spec["nrows"])
    off = min(spec["offset"], len(body))
    if spec["where"] == "comment":  # move to the inside of the next comment line
        j = body.find(b"# c", off)
        off = (j if j >= 0 else body.rfind(b"# c")) + 2
    data = body[:off] + b"\xff\xfe" + body[off:]
    try:
        data.decode("utf-8")
        raise AssertionError("harness error: bytes are decodable")
    except UnicodeDecodeError:
        pass
    opts = dict(encoding="utf-8")
    fns = [("read_swc", read_swc)] + ([("Tree.from_swc", Tree.from_swc)] if spec.get("tree", True) else [])
    for name, fn in fns:
        res, exc, _ = _call(fn, "", spec["src"], base, opts, data=data)
        if exc is None:
            n = len(res[0]) if name == "read_swc" else res.number_of_nodes()
            rep.add(name, "undecodable-bytes-raise", spec, f"no error; returned {n} of {spec['nrows']} rows (bad bytes at byte {off} of {len(data)})", "an exception",
                    f"{spec['src']}")


def check_sorted(rep, spec, base):
    """spec: kind='sorted', text, src.  Payload columns are unique per row by construction."""
    from swcgeom.core import Tree
    from swcgeom.core.swc_utils import read_swc

    text, src = spec["text"], spec["src"]
    opts = dict(sort_nodes=True)
    rows, comments, _ = ref_read(text)
    n = len(rows)
    row_of_id = {r[0]: k for k, r in enumerate(rows)}           # file id -> file row
    payload_row = {tuple(r[1:6]): k for k, r in enumerate(rows)}  # (type,x,y,z,r) -> file row
    assert len(row_of_id) == n and len(payload_row) == n, "harness error: ids/payloads must be distinct"

    def judge(name, ids, pids, payloads):
        if len(ids) != n:
            return f"{len(ids)} nodes", f"{n} nodes"
        if [int(v) for v in ids] != list(range(n)):
            return f"ids {list(map(int, ids))}", f"ids {list(range(n))}"
        orig = [payload_row.get(tuple(p)) for p in payloads]       # new index -> file row
        if None in orig or sorted(orig) != list(range(n)):
            return f"rows carry payloads of file rows {orig}", "a permutation of the file rows"
        new_of_row = {o: j for j, o in enumerate(orig)}
        want = [(-1 if rows[o][6] == -1 else new_of_row[row_of_id[rows[o][6]]]) for o in orig]
        got = [int(v) for v in pids]
        if got != want:
            return f"pid {got} (new row -> file row {orig})", f"pid {want}"
        if any(got[j] >= j for j in range(n)):
            return f"pid {got}", "every parent index smaller than its child's"
        return None

    res, exc, _ = _call(read_swc, text, src, base, opts)
    if exc is not None:
        rep.add("read_swc", "operation-raises", spec, _exc(exc), "sorted table", "sort_nodes")
    else:
        df = res[0]
        pay = [(int(a), float(b), float(c), float(d), float(e)) for a, b, c, d, e in zip(df["type"], df["x"], df["y"], df["z"], df["r"])]
        bad = judge("read_swc", list(df["id"]), list(df["pid"]), pay)
        if bad:
            rep.add("read_swc", "sorted-read-isomorphic", spec, bad[0], bad[1])
        if [c.strip() for c in res[1]] != comments:
            rep.add("read_swc", "comments-in-order", spec, res[1], comments, "sort_nodes")
    res, exc, _ = _call(Tree.from_swc, text, src, base, opts)
    if exc is not None:
        rep.add("Tree.from_swc", "operation-raises", spec, _exc(exc), "sorted tree", "sort_nodes")
    else:
        t = res
        pay = [(int(a), float(b), float(c), float(d), float(e)) for a, b, c, d, e in zip(t.type(), t.x(), t.y(), t.z(), t.r())]
        bad = judge("Tree.from_swc", list(t.id()), list(t.pid()), pay)
        if bad:
            rep.add("Tree.from_swc", "sorted-read-isomorphic", spec, bad[0], bad[1])



# ---------------------------------------------------------------- size as part of the input space

LARGE_BAD = ["12 3 1.0 2.0 3.0 1.0", "12 3 1.0 abc 3.0 1.0 5", "this is not a row"]


def large_text(spec):
    """Deterministic big SWC text described by a small spec (the spec, not the text, is what gets replayed):
    rows (number of data rows), width (blanks padded into every row: many bytes per parsed row), eol, comment_every / blank_every,
    pad_to (exact byte count of the well-formed text, reached with one long comment line in front of the first row), bad = {frac, line} (a malformed line at
    that fraction of the lines).  Returns (text, n_rows, comments, bad_line_number | None).  Row i (0-based) reads
    `i+1  type  i/4  (i%7).25  -(i%3).125  1.0  pid` with pid = -1 for the first row, else i: every column is known by formula."""
    n, width, eol = spec["rows"], spec.get("width", 0), spec.get("eol", "\n")
    ce, be = spec.get("comment_every", 0), spec.get("blank_every", 0)
    pad = " " * (width // 2)
    lead = " " * (width - width // 2)
    lines = ["# generated %d rows%s" % (n, eol)]
    comments = ["generated %d rows" % n]
    for i in range(n):
        lines.append(f"{lead}{i + 1} {1 if i == 0 else 3} {i * 0.25:.2f} {i % 7}.25{pad} -{i % 3}.125 1.0 {-1 if i == 0 else i}{eol}")
        if be and (i + 1) % be == 0:
            lines.append(eol)
        if ce and (i + 1) % ce == 0:
            comments.append("checkpoint %d" % (i + 1))
            lines.append("# checkpoint %d%s" % (i + 1, eol))
    comments.append("end of file")
    lines.append("# end of file" + eol)  # a comment BEHIND the last row: must come back
    if spec.get("pad_to"):
        size = sum(len(x) for x in lines)
        fill = spec["pad_to"] - size - len("#" + eol)
        if fill < 1:
            raise AssertionError("harness error: pad_to smaller than the text")
        comments.insert(1, "p" * fill)  # right behind the first line: the rows and the closing comment sit around byte `pad_to`
        lines.insert(1, "#" + "p" * fill + eol)
    bad_at = None
    if spec.get("bad"):
        bad_at = min(len(lines) - 1, max(1, int(len(lines) * spec["bad"]["frac"])))
        lines.insert(bad_at, spec["bad"]["line"] + eol)
    return "".join(lines), n, comments, bad_at


def check_large(rep, spec, base):
    """spec: kind='large', rows, width, eol, comment_every, blank_every, pad_to, bad, src, fn ('read_swc'|'Tree.from_swc'|'Population')"""
    from swcgeom.core import Population, Tree
    from swcgeom.core.swc_utils import read_swc

    text, n, comments, bad_at = large_text(spec)
    src, name = spec["src"], spec["fn"]
    opts = dict(reset_index=False)
    size = len(text.encode("utf-8"))
    if spec.get("pad_to") and not spec.get("bad") and size != spec["pad_to"]:
        raise AssertionError(f"harness error: text has {size} bytes, wanted {spec['pad_to']}")
    if name == "Population":
        if src != "path":
            raise AssertionError("harness error: a Population reads paths")
        fn = lambda p, **kw: Population([p], lazy_loading=True, **kw)[0]  # the lazy read happens at the subscript
    else:
        fn = read_swc if name == "read_swc" else Tree.from_swc
    res, exc, _ = _call(fn, text, src, base, opts)
    what = f"{n} rows, {size} bytes"
    if spec.get("bad"):
        if exc is None:
            got = len(res[0]) if name == "read_swc" else res.number_of_nodes()
            rep.add(name, "malformed-line-raises", spec, f"no error; returned {got} rows (text: {what}, malformed line {spec['bad']['line']!r} is line {bad_at + 1})",
                    "an exception", "shortened table returned" if got < n else "malformed line silently dropped")
        return
    if exc is not None:
        rep.add(name, "operation-raises", spec, _exc(exc), f"table with {n} rows", "large")
        return
    if name == "read_swc":
        df, got_comments = res
        got_n, col = len(df), (lambda c: df[c].to_numpy())
    else:
        got_n, col, got_comments = res.number_of_nodes(), (lambda c: np.asarray(res.get_ndata(c))), res.comments
    if got_n != n:
        rep.add(name, "one-node-per-row", spec, f"{got_n} rows (text: {what})", f"{n} rows", "large: shortened table" if got_n < n else "large")
    else:
        i = np.arange(n)
        want = dict(id=i + 1, type=np.where(i == 0, 1, 3), x=i * 0.25, y=(i % 7) + 0.25, z=-((i % 3) + 0.125), r=np.ones(n), pid=np.where(i == 0, -1, i))
        for c in COLS:
            g = np.asarray(col(c), dtype=np.float64)
            w = np.asarray(want[c], dtype=np.float64)
            if name != "read_swc" and c in "xyzr":
                w = w.astype(np.float32).astype(np.float64)
            if not np.array_equal(g, w):
                j = int(np.argmax(g != w))
                rep.add(name, "fields-equal", spec, f"column {c}, row {j} of {n}: {g[j]}", f"{w[j]}", "large: last row" if j == n - 1 else "large")
                break
    gc = [c.strip() for c in got_comments]
    if gc != comments:
        k = next((j for j, (a, b) in enumerate(zip(gc, comments)) if a != b), min(len(gc), len(comments)))
        rep.add(name, "comments-in-order", spec, f"{len(gc)} comments, first difference at #{k}: {gc[k][:40] if k < len(gc) else '<missing>'!r}",
                f"{len(comments)} comments, #{k} = {comments[k][:40] if k < len(comments) else '<none>'!r}", "large")


def check_large_text(rep, spec, base):
    """spec: kind='largetext', nrows, src, bad ('none' | 'last' | 'middle'), tree.  A text of `nrows` rows and as many comment lines (generated from the
    spec, sizes from some 100 KB to several MB: beyond every usual read buffer): every row and every comment comes back; ONE malformed line in the middle
    or at the very end raises however far into the text it stands."""
    from swcgeom.core import Tree
    from swcgeom.core.swc_utils import read_swc

    n = spec["nrows"]
    lines = big_body(n).decode("utf-8").splitlines(keepends=True)
    if spec["bad"] != "none":
        lines.insert(len(lines) if spec["bad"] == "last" else len(lines) // 2, " ".join(BAD_TEMPLATE[:6]) + "\n")
    text = "".join(lines)
    fns = [("read_swc", read_swc)] + ([("Tree.from_swc", Tree.from_swc)] if spec.get("tree") else [])
    for name, fn in fns:
        res, exc, _ = _call(fn, text, spec["src"], base, {})
        if spec["bad"] != "none":
            if exc is None:
                got = len(res[0]) if name == "read_swc" else res.number_of_nodes()
                rep.add(name, "malformed-line-raises", spec, f"no error; {got} of {n} rows returned", "an exception", "large text")
            continue
        if exc is not None:
            rep.add(name, "operation-raises", spec, _exc(exc), f"{n} rows", "large text")
            continue
        got_n = len(res[0]) if name == "read_swc" else res.number_of_nodes()
        if got_n != n:
            rep.add(name, "one-node-per-row", spec, f"{got_n} rows", f"{n} rows", "large text")
        comments = [c.strip() for c in (res[1] if name == "read_swc" else res.comments)]
        if comments != [f"c{i:04d}" for i in range(n)]:
            rep.add(name, "comments-in-order", spec, f"{len(comments)} comments, last {comments[-1:]}", f"{n} comments, last ['c{n - 1:04d}']", "large text")


CHECKS = dict(good=check_good, bad=check_bad, undecodable=check_undecodable, sorted=check_sorted, large=check_large, largetext=check_large_text)


# ---------------------------------------------------------------- text assembly

def make_rows(pid, base_id, step, k, nextra, extra_pool):
    """Token lists for the rows of parent table `pid` (ids base_id + step*i)."""
    rows = []
    for i, p in enumerate(pid):
        tok = [str(base_id + step * i) if (i + k) % 5 else "0" * ((i + k) % 2) + str(base_id + step * i), str((1, 3, 2, 4, 0, 7)[(i + k) % 6])]
        tok += [FLOATS[(k + 4 * i + 3 * j) % len(FLOATS)] for j in range(4)]
        tok.append("-1" if p == -1 else str(base_id + step * p))
        tok += [extra_pool[(k + i + j) % len(extra_pool)] for j in range(nextra)]
        rows.append(tok)
    return rows


def magnitude_rows(pid, base_id, step, k):
    """rows of parent table `pid` whose ids start far from 0 (`base_id`), whose types run through the magnitude pool (both sides of every
    integer width), with coordinates around 1e5 carrying four decimals and tiny / huge radii (pools: bounded/common.py)"""
    rows = []
    for i, p in enumerate(pid):
        tok = [str(base_id + step * i), str(MAG_TYPES[(k + 5 * i) % len(MAG_TYPES)])]
        tok += [f"{MAG_COORDS[(k + i + 2 * j) % len(MAG_COORDS)]:.4f}" if (i + j + k) % 3 else FLOATS[(k + i + j) % len(FLOATS)] for j in range(3)]
        tok.append(repr(MAG_RADII[(k + i) % len(MAG_RADII)]) if (i + k) % 2 else f"{MAG_RADII[(k + i) % len(MAG_RADII)]:.6f}")
        tok.append("-1" if p == -1 else str(base_id + step * p))
        rows.append(tok)
    return rows


def render(rows, sepmode, lead, trail, eol, decor, k, final_newline=True):
    """decor: 0 none, 1 blank lines, 2 comment lines, 3 both (before, between and after rows)."""
    lines = []
    for i, tok in enumerate(rows):
        if decor in (1, 3) and (i + k) % 2 == 0:
            lines.append(BLANK_LINES[(i + k) % len(BLANK_LINES)])
        if decor in (2, 3) and (i + k) % 3 != 1:
            lines.append(COMMENT_LINES[(i + 2 * k) % len(COMMENT_LINES)])
        if sepmode == 3:
            body = tok[0] + "".join(SEPS[(k + j) % 3] + t for j, t in enumerate(tok[1:]))
        else:
            body = SEPS[sepmode].join(tok)
        lines.append((lead if (i + k) % 4 != 3 else LEADS[(i + k) % len(LEADS)]) + body + trail)
    if decor in (2, 3):
        lines.append(COMMENT_LINES[(k + 5) % len(COMMENT_LINES)])
    if decor in (1, 3):
        lines.append(BLANK_LINES[(k + 1) % len(BLANK_LINES)])
    return eol.join(lines) + (eol if final_newline else "")


def split_lines(text):
    """Lines with their terminators (for inserting a malformed line at every position)."""
    return text.splitlines(keepends=True)


def bad_lines(template=BAD_TEMPLATE):
    out = [("6-fields", " ".join(template[:6])), ("1-field", "5")]
    # a '#' BEHIND non-blank content does not make a comment line (a comment line is blanks, then '#'): a complete row, a short row and a word followed by '#...'
    out += [("row-then-hash", " ".join(template) + " # tip"), ("short-row-then-hash", " ".join(template[:4]) + " #"), ("word-then-hash", "x # y")]
    for j in range(7):
        t = list(template); t[j] = "abc"
        out.append((f"abc@{COLS[j]}", " ".join(t)))
    for j in range(7):
        t = list(template); t[j] = "1,5"
        out.append((f"1,5@{COLS[j]}", " ".join(t)))
    return out


def tables_for(n, k, rng=None):
    all_t = list(sorted_parent_tables(n)) if n <= 5 else None
    if all_t is not None:
        return all_t[(k * 7) % len(all_t)]
    return (-1,) + tuple(((k + 3 * i) % i) for i in range(1, n))


# ---------------------------------------------------------------- run

def run(ctx):
    base = scratch_dir("c02")
    rep = Reporter()
    rep.notes = set()
    rng = random.Random(ctx.seed)
    thorough = ctx.tier != "quick"
    try:
        def go(group, spec):
            CHECKS[spec["kind"]](rep, spec, base)
            ctx.case(group, spec, nontrivial=True)

        # (1) well-formed texts: product of whitespace / lead / eol / trailing fields / decoration, 1..6 rows
        k = 0
        good_specs = []
        for n in range(1, 7):
            for sepmode, lead, eol, nfx, decor in itertools.product(range(4), LEADS, EOLS, range(3), range(4)):
                k += 1
                if not thorough and ((n >= 3 and (k + n) % 3 != 0) or (n == 2 and k % 2)):
                    continue
                pid = tables_for(n, k)
                req = [None, ["a"], ["a", "b"]][(k // 5) % (nfx + 1)]  # extra_cols requested <= fields present
                rows = make_rows(pid, base_id=(1, 0, 5, 1000000)[k % 4], step=(1, 1, 3)[k % 3], k=k, nextra=nfx, extra_pool=EXTRA_PLAIN)
                text = render(rows, sepmode, lead, TRAILS[k % 3], eol, decor, k, final_newline=(k % 7 != 0))
                opts = dict(reset_index=(k % 3 != 0))
                if req:
                    opts["extra_cols"] = req
                spec = dict(kind="good", text=text, src=SRCS[k % 3], opts=opts)
                good_specs.append((n, decor, eol, spec))
                go("good", spec)

        # (1b) requested extra columns with exponent spellings; unrequested exponent-spelled extra fields
        for n in (1, 2, 4):
            for mode in ("requested", "unrequested", "unrequested-last-row"):
                for sepmode in range(3):
                    k += 1
                    rows = make_rows(tables_for(n, k), 1, 1, k, 1, EXTRA_EXP if mode != "unrequested-last-row" else EXTRA_PLAIN)
                    if mode == "unrequested-last-row":
                        rows[-1][-1] = EXTRA_EXP[k % 2]
                    text = render(rows, sepmode, "", "", "\n", 0, k)
                    opts = dict(reset_index=True)
                    if mode == "requested":
                        opts["extra_cols"] = ["a"]
                    spec = dict(kind="good", text=text, src=SRCS[k % 3], opts=opts)
                    if mode != "requested":
                        spec["exp_extra"] = True
                    go("good-exp-extra", spec)

        # (1d) comment lines in every slot around two rows (in front of the first row, between the rows, behind the last one): none, one or two
        # lines per slot, plain ones and ones that start like the writer's column header (with extra columns, indented, with a suffix) or nearly
        # do; blank lines mixed in.  Only the LAST comment line in front of the first row is the column header, and only if it starts like it.
        pool = [SLOT_PLAIN[0], SLOT_HEADER_LIKE[0], SLOT_HEADER_LIKE[1]]
        fills = [()] + [(a,) for a in pool] + [(a, b) for a in pool for b in pool if SLOT_HEADER_LIKE[0] in (a, b) or SLOT_HEADER_LIKE[1] in (a, b)]
        if not thorough:
            fills = [f for f in fills if len(f) < 2 or f in ((pool[0], pool[1]), (pool[1], pool[0]), (pool[1], pool[1]), (pool[1], pool[2]))]
        kc = 0
        two = ["1 1 0 0 0 1 -1", "2 1 1 0 0 1 1"]
        for front, mid, back in itertools.product(fills, repeat=3):
            kc += 1
            if not thorough and (len(front) + len(mid) + len(back) > 3 or (mid and back and kc % 2)):
                continue
            blank = [BLANK_LINES[kc % 4]] if kc % 3 == 0 else []
            lines = list(front) + blank + two[:1] + list(mid) + two[1:] + (blank if kc % 2 else []) + list(back)
            eol = EOLS[kc % 5 == 0]
            go("good-comment-slots", dict(kind="good", text=eol.join(lines) + (eol if kc % 7 else ""), src=SRCS[kc % 3], opts=dict(reset_index=(kc % 4 != 0))))
        for h in SLOT_HEADER_LIKE + SLOT_NEARLY + SLOT_PLAIN:  # every spelling alone in every slot, and in front of the rows behind nothing / a plain line / itself
            for slot in range(3):
                kc += 1
                lines = ([h] if slot == 0 else []) + two[:1] + ([h] if slot == 1 else []) + two[1:] + ([h] if slot == 2 else [])
                go("good-comment-slots", dict(kind="good", text="\n".join(lines) + "\n", src=SRCS[kc % 3], opts=dict(reset_index=True)))
            for extra in ((), ("# a",), (h,)):
                kc += 1
                go("good-comment-slots", dict(kind="good", text="\n".join(extra + (h,) + tuple(two)) + "\n", src=SRCS[kc % 3], opts=dict(reset_index=False)))

        # (1c) encodings
        for enc in ("utf-8", "utf-16", "latin-1", "detect"):
            for src in ("bytes", "path", "text"):
                for n in (1, 3):
                    k += 1
                    rows = make_rows(tables_for(n, k), 1, 1, k, 0, EXTRA_PLAIN)
                    text = ("# café µm\n" if enc != "detect" else "# plain ascii\n") + render(rows, k % 3, "", "", "\n", 2, k)
                    go("good-encoding", dict(kind="good", text=text, src=src, opts=dict(encoding=enc)))

        # (2) one malformed line at EVERY line position of a base text, every malformed kind
        bads = bad_lines()
        bases, seen = [], set()
        for n, decor, eol, spec in good_specs:
            key = (n, decor, eol)
            if key in seen or spec["opts"].get("extra_cols"):
                continue
            seen.add(key)
            bases.append(spec)
        if not thorough:
            bases = [b for i, b in enumerate(bases) if i % 2 == 0 or len(ref_read(b["text"])[0]) <= 2]
        kk = 0
        for b in bases:
            lines = split_lines(b["text"])
            if lines and not lines[-1].endswith(("\n", "\r\n")):
                lines[-1] += "\n"
            eol = "\r\n" if "\r\n" in b["text"] else "\n"
            nb = len(ref_read(b["text"])[0])
            for pos in range(len(lines) + 1):
                for bk, bl in bads:
                    kk += 1
                    text = "".join(lines[:pos]) + bl + eol + "".join(lines[pos:])
                    opts = [dict(), dict(reset_index=False), dict(sort_nodes=True)][kk % 3]
                    spec = dict(kind="bad", text=text, src=SRCS[kk % 3], opts=opts, tree=(kk % 3 == 0), nrows_base=nb, bad_kind=bk, bad_line=bl, position=pos)
                    go("malformed", spec)
        # minimal texts: two plain rows, each malformed kind at each of the 3 positions, all option sets and sources
        for bk, bl in bad_lines(["3", "3", "1.5", "2", "0", "1", "1"]):
            for pos, opts, src in itertools.product(range(3), [dict(), dict(reset_index=False), dict(sort_nodes=True)], SRCS):
                lines = ["1 1 0 0 0 1 -1\n", "2 1 1 0 0 1 1\n"]
                text = "".join(lines[:pos]) + bl + "\n" + "".join(lines[pos:])
                go("malformed-minimal", dict(kind="bad", text=text, src=src, opts=opts, tree=True, nrows_base=2, bad_kind=bk, bad_line=bl, position=pos))
        # the design note's own example
        go("malformed", dict(kind="bad", text="1 1 0 0 0 1 -1\n2 1 1 0 0 1 1\nBAD LINE\n3 1 2 0 0 1 2\n", src="text", opts={}, tree=True, nrows_base=3, bad_kind="words",
                             bad_line="BAD LINE", position=2))

        # (3) undecodable bytes inside a ~20 KB body
        nrows = 520
        blen = len(big_body(nrows))
        offs = list(range(0, blen + 1, 512)) + [blen] if thorough else [0, 1, 511, 4096, 8191, 8192, 8193, 12288, 16384, blen - 2, blen]
        for off in offs:
            for where in ("raw", "comment"):
                for src in ("bytes", "path"):
                    go("undecodable", dict(kind="undecodable", nrows=nrows, offset=off, where=where, src=src, tree=True))
        for off in (0, 5, 20):  # and in a tiny body
            go("undecodable", dict(kind="undecodable", nrows=2, offset=off, where="raw", src="bytes", tree=True))

        # (3b) large texts (about 100 KB, 1.2 MB; 5 MB in the thorough tier: sizes beyond the usual read-buffer sizes): everything comes back, a
        # malformed line far into the text still raises; every source kind
        for nrows in (2500, 30000) + ((120000,) if thorough else ()):
            for src in SRCS:
                for bad_at in ("none", "last", "middle"):
                    if not thorough and nrows > 2500 and bad_at == "middle":
                        continue
                    go("large", dict(kind="largetext", nrows=nrows, src=src, bad=bad_at, tree=(src == "text" and nrows <= 30000)))

        # (4) sort_nodes=True: arbitrary distinct ids, arbitrary row order
        def sorted_text(pid, perm, ids, kx):
            n = len(pid)
            rows = []
            for i in range(n):
                rows.append(f"{ids[i]} {(i % 5) + 1} {10 * i + 0.5} {i}.25 -{i}.0 {1 + i * 0.125} {-1 if pid[i] == -1 else ids[pid[i]]}")
            lines = [rows[i] for i in perm]
            if kx % 4 == 1:
                lines.insert(len(lines) // 2, "# mid")
            return ("\r\n" if kx % 5 == 2 else "\n").join(lines) + "\n"

        kx = 0
        for n in range(1, (5 if thorough else 4) + 1):
            for pid in sorted_parent_tables(n):
                for pc, perm in enumerate(itertools.permutations(range(n))):
                    for idmode in range(2):
                        kx += 1
                        if not thorough and n == 4 and idmode != pc % 2:
                            continue
                        ids = rng.sample(range(0, 40), n) if idmode == 0 else rng.sample(range(10**6, 10**6 + 50), n)
                        go("sorted", dict(kind="sorted", text=sorted_text(pid, perm, ids, kx), src=SRCS[kx % 3]))
        for _ in range(1500 if thorough else 100):
            kx += 1
            n = rng.randint(2, 9)
            pid = random_sorted_table(rng, n)
            perm = list(range(n)); rng.shuffle(perm)
            ids = rng.sample(range(0, 3 * n + 2), n)
            go("sorted", dict(kind="sorted", text=sorted_text(pid, perm, ids, kx), src=SRCS[kx % 3]))

        # (4b) magnitudes: every type of the magnitude pool x ids starting at every large base (and 0 / 1) x reset_index x read source; the
        # same rows also as a SORTED read (ids far from 0 in arbitrary row order are covered by (4) for small ids only)
        for ti in range(len(MAG_TYPES)):
            for bi, base_id in enumerate([0, 1] + MAG_IDS):
                k += 1
                n = 1 + (ti + bi) % 5
                rows = magnitude_rows(tables_for(n, k), base_id, (1, 1, 3, 1000)[(ti + bi) % 4], ti + len(MAG_TYPES) * bi)
                text = render(rows, k % 4, LEADS[k % len(LEADS)], TRAILS[k % 3], EOLS[k % 2], k % 4, k, final_newline=(k % 5 != 0))
                go("magnitudes", dict(kind="good", text=text, src=SRCS[k % 3], opts=dict(reset_index=(k % 2 == 0))))

        # (5) seeded random tail of well-formed texts
        for _ in range(3000 if thorough else 200):
            k += 1
            n = rng.randint(1, 6)
            nfx = rng.randint(0, 2)
            rows = make_rows(random_sorted_table(rng, n), rng.choice([0, 1, 2, 17, 99999] + MAG_IDS), rng.choice([1, 1, 2, 10]), rng.randrange(10**6), nfx, EXTRA_PLAIN)
            for tok in rows:
                if rng.random() < 0.3:
                    tok[1] = str(rng.choice(MAG_TYPES))
                for j in range(2, 6):
                    if rng.random() < 0.5:
                        tok[j] = rng.choice(["", "+", "-"]) + rng.choice([f"{rng.random() * 10 ** rng.randint(-3, 5):.{rng.randint(0, 6)}f}",
                                                                           f"{rng.random():.3e}", f"{rng.randint(0, 999)}.", f".{rng.randint(0, 999)}E{rng.randint(-5, 5)}"])
            text = render(rows, rng.randrange(4), rng.choice(LEADS), rng.choice(TRAILS), rng.choice(EOLS), rng.randrange(4), rng.randrange(10**6), rng.random() < 0.8)
            opts = dict(reset_index=rng.random() < 0.5)
            if nfx and rng.random() < 0.5:
                opts["extra_cols"] = ["a", "b"][: rng.randint(1, nfx)]
            go("good-random", dict(kind="good", text=text, src=rng.choice(SRCS), opts=opts))

        # (6) size.  Quick: one dense file of ~100k rows (3.6 MiB) and wide-row files of 3.3 MiB (12k rows: cheap to parse, same bytes
        # through every buffer) through every source kind x read_swc / Tree.from_swc and through the lazy Population read, each also with a
        # malformed line in the LAST 1 % of the lines (must raise); files of exactly B-1 / B / B+1 bytes and B + a line for B = 8 KiB, 64 KiB
        # (thorough: 1 MiB as well, every source, every reader, malformed line as the very last line and at 99.5 %)
        kl = 0

        def large(group, **kw):
            nonlocal kl
            kl += 1
            go(group, dict(kind="large", **kw))

        dense = dict(rows=100000, width=0, comment_every=25000, blank_every=0, eol="\n")
        large("large-dense", **dense, src="path", fn="read_swc")
        large("large-dense", **dense, src="bytes", fn="read_swc", bad=dict(frac=0.995, line=LARGE_BAD[0]))
        if thorough:
            for src in SRCS:
                for fn in ("read_swc", "Tree.from_swc"):
                    large("large-dense", **dict(dense, eol="\r\n"), src=src, fn=fn)
                    large("large-dense", **dense, src=src, fn=fn, bad=dict(frac=0.9999, line=LARGE_BAD[1]))
        wide = dict(rows=12000, width=250, comment_every=1000, blank_every=997)
        for si, src in enumerate(SRCS):
            for fi, fn in enumerate(("read_swc", "Tree.from_swc")):
                eol = EOLS[(si + fi) % 2]
                large("large-wide", **wide, eol=eol, src=src, fn=fn)
                large("large-wide", **wide, eol=eol, src=src, fn=fn, bad=dict(frac=(0.991, 0.999, 0.9999)[(si + fi) % 3], line=LARGE_BAD[(si + fi) % 3]))
        large("large-wide", **wide, eol="\n", src="path", fn="Population")
        large("large-wide", **wide, eol="\n", src="path", fn="Population", bad=dict(frac=0.995, line=LARGE_BAD[1]))
        bounds = [8192, 65536] + ([1 << 20] if thorough else [])
        for B in bounds:
            rows_for = max(50, B // 36)  # ~30 bytes per row: the rows alone stay below B, the padding comment fills up to the byte
            for delta in ((-1, 0, 1, 31, B + 1) if thorough else (0, 1)):
                for si, src in enumerate(SRCS):
                    for fn in (("read_swc", "Tree.from_swc") if thorough else ("read_swc",)):
                        spec = dict(rows=rows_for, width=0, comment_every=0, blank_every=0, eol=EOLS[(si + (delta > 0)) % 2], pad_to=B + delta, src=src, fn=fn)
                        large("size-boundary", **spec)
                        large("size-boundary", **spec, bad=dict(frac=1.0, line=LARGE_BAD[(si + delta) % 3]))
                        if thorough:
                            large("size-boundary", **spec, bad=dict(frac=0.995, line=LARGE_BAD[(si + 1) % 3]))
            if thorough:
                large("size-boundary", rows=rows_for, width=0, comment_every=0, blank_every=0, eol="\n", pad_to=B + 1, src="path", fn="Population")
                large("size-boundary", rows=rows_for, width=0, comment_every=0, blank_every=0, eol="\n", pad_to=B + 1, src="path", fn="Population", bad=dict(frac=1.0, line=LARGE_BAD[0]))

        rep.flush(ctx)
        for s in sorted(rep.notes):
            ctx.notes.append(s)
        ctx.rule("well-formed SWC texts of 1-6 rows from the product {4 separator modes (' ', tab, two blanks, mixed)} x {4 leading blanks} x {LF, CRLF} x {0,1,2 trailing fields} x "
                 "{no decoration, blank lines, comment lines, both} (quick: every second text with 2 rows, every third with >=3 rows), float spellings " + repr(FLOATS) + ", options reset_index True/False, "
                 "extra_cols None/['a']/['a','b'], sources StringIO/BytesIO/path, encodings utf-8/utf-16/latin-1/detect; each of " + str(len(bads)) + " malformed lines "
                 "(6 fields, 1 field, 'abc' and '1,5' in each of the 7 columns) inserted at EVERY line position of " + str(len(bases)) + " base texts (sources and option sets {}, reset_index=False, sort_nodes=True rotating) and of a plain 2-row text (all 3 sources x 3 option sets); b'\\xff\\xfe' at "
                 + str(len(offs)) + " offsets of a 20 KB body (raw offset and inside a comment) from BytesIO and path; sort_nodes=True on all parent tables <= "
                 + str(5 if thorough else 4) + " nodes x all row orders x 2 id assignments (quick: 1 for 4 nodes) + random tail; MAGNITUDES: types " + repr(MAG_TYPES) + " x first ids "
                 + repr([0, 1] + MAG_IDS) + " (steps 1/3/1000), coordinates " + repr(MAG_COORDS) + " with four decimals, radii " + repr(MAG_RADII) + ", through read_swc and Tree.from_swc. Oracle: 15-line reference reader (str.split + int/float); "
                 "'must raise' for corrupted inputs. Every case is non-trivial (>= 1 data row). SIZE: " + str(kl) + " generated big files -- 100 000 rows / 3.6 MiB dense, "
                 "12 000 wide rows / 3.3 MiB (LF and CRLF, comments every 1000 rows, blank lines, a comment behind the last row) through StringIO / BytesIO / path x read_swc / "
                 "Tree.from_swc and the lazy Population read, each also with a malformed line at 99.1 - 99.99 % of the lines (must raise); files of exactly B, B+1 "
                 "(thorough: B-1, B+31, 2B+1) bytes for B = 8 KiB, 64 KiB (thorough: 1 MiB) with a malformed LAST line; oracle = the generator's formulas (row count, "
                 "all seven columns, every comment).", exhaustive=False)
    finally:
        shutil.rmtree(base, ignore_errors=True)


def replay(spec):
    rep = Reporter()
    rep.notes = set()
    base = scratch_dir("c02r")
    try:
        CHECKS[spec["kind"]](rep, spec, base)
    finally:
        shutil.rmtree(base, ignore_errors=True)
    for key, items in rep.items.items():
        for it in items:
            print("  still failing:", key, "observed", str(it[4])[:200], "expected", str(it[5])[:200])
    return not rep.items
