"""History independence (bounded stand-in, shared by C03 / C08 / C09 / C10 / C11).

Every clause of those properties speaks about the tree AS IT IS NOW: tips are the childless nodes of the current parent
column, a node handle reads the owner's current row, a length is the sum over the current segments, a transform's result
is measured by its own coordinates.  So whatever an object has been through -- earlier queries (which may have filled
caches), writes through node handles or columns, copies, transforms, re-rooting, renumbering -- a query on it must answer
exactly what the same query answers on a tree BUILT AFRESH from the raw columns the object carries at that moment.
The oracle is the library itself on a history-free object (whose answers the property modules check against their own
independent definitions); what is checked here is that no history changes them.

A property module passes its own QUERIES (name -> (carrier, fn(tree) -> canonical value)); `run` does, per tree and per
mutation: warm every query on the tree (and on a copy), apply the mutation, then compare every query on every object the
mutation produced or touched with the query on its fresh rebuild.
"""
from __future__ import annotations

import random

import numpy as np

from .common import LAYOUTS, all_sorted_tables_upto, children_of, coords_for, make_tree, random_sorted_table, subtree_of


# ------------------------------------------------------------------------------------------------ canonical values
def canon(v, depth=0):
    """JSON-able canonical form; floats rounded to 5 significant-ish decimals (float32 columns)"""
    if v is None or isinstance(v, (bool, str)):
        return v
    if isinstance(v, (int, np.integer)):
        return int(v)
    if isinstance(v, (float, np.floating)):
        f = float(v)
        return None if f != f else round(f, 4)
    if isinstance(v, np.ndarray):
        return [canon(x, depth + 1) for x in v.tolist()]
    if isinstance(v, dict):
        return {str(k): canon(x, depth + 1) for k, x in sorted(v.items(), key=lambda kv: str(kv[0]))}
    if isinstance(v, (list, tuple)):
        return [canon(x, depth + 1) for x in v]
    if isinstance(v, (set, frozenset)):
        return sorted(canon(x, depth + 1) for x in v)
    return repr(v)


def close(a, b):
    if type(a) is type(b) and isinstance(a, (int, float, str, bool, type(None))) and a == b:
        return True  # also equal infinities
    if isinstance(a, float) and isinstance(b, float):
        return abs(a - b) <= 2e-3 * max(1.0, abs(a), abs(b))
    if isinstance(a, list) and isinstance(b, list):
        return len(a) == len(b) and all(close(x, y) for x, y in zip(a, b))
    if isinstance(a, dict) and isinstance(b, dict):
        return set(a) == set(b) and all(close(a[k], b[k]) for k in a)
    if isinstance(a, (int, float)) and isinstance(b, (int, float)) and not isinstance(a, bool) and not isinstance(b, bool):
        return abs(float(a) - float(b)) <= 2e-3 * max(1.0, abs(float(a)), abs(float(b)))
    return a == b


def rebuild(t):
    """a tree built afresh from the raw columns `t` carries now (no history)"""
    from swcgeom.core import Tree

    cols = {k: np.array(t.get_ndata(k), copy=True) for k in t.keys()}
    return Tree(t.number_of_nodes(), source=getattr(t, "source", ""), comments=list(getattr(t, "comments", []) or []), names=getattr(t, "names", None), **cols)


# ------------------------------------------------------------------------------------------------------- mutations
class LostWrite(Exception):
    """a step of the history did not happen: the value assigned through a node handle is not in the owner's column afterwards"""


def _landed(t, col, k, want):
    got = t.ndata[col][k]
    if not close(float(got), float(np.asarray(want, dtype=t.ndata[col].dtype))):
        raise LostWrite(f"node({k}).{col} = {want!r} assigned, the owner's column holds {got!r}")


def _tips(pid):
    ch = children_of(pid)
    return [i for i in range(len(pid)) if not ch[i] and pid[i] != -1]


def mutations(pid, rng):
    """(label, spec, fn(tree) -> list of (role, object)) for a sorted well-formed parent table.  Each fn applies ONE step of
    history to a tree that has already been queried and returns every object whose answers must now be history-free."""
    from swcgeom.core import tree_utils
    from swcgeom.transforms import Scale, Translate

    n = len(pid)
    out = []

    def handle_write(col, f):
        def go(t):
            k = n - 1
            node = t.node(k)
            new = f(getattr(node, col))
            setattr(node, col, new)
            _landed(t, col, k, new)
            return [("written-in-place", t)]

        return go

    out.append(("node-handle-write-x", dict(col="x"), handle_write("x", lambda v: v + 3.5)))
    out.append(("node-handle-write-r", dict(col="r"), handle_write("r", lambda v: v * 2 + 1)))
    out.append(("node-handle-write-type", dict(col="type"), handle_write("type", lambda v: 4)))
    tips = _tips(pid)
    regraft = None
    for k in reversed(tips):  # move a tip under another node (not itself, not its current parent): still one tree
        cands = [j for j in range(n) if j != k and j != pid[k]]
        if cands:
            regraft = (k, cands[rng.randrange(len(cands))])
            break
    if regraft is not None:
        k, j = regraft

        def go_regraft(t, k=k, j=j):
            t.node(k).pid = j
            _landed(t, "pid", k, j)
            return [("regrafted-in-place", t)]

        out.append(("node-handle-write-pid", dict(node=k, new_parent=j), go_regraft))

    def go_column(t):
        t.ndata["x"][...] = t.ndata["x"] * 2 + 1
        t.ndata["y"][...] = t.ndata["y"] - 7
        return [("column-written-in-place", t)]

    out.append(("column-write", {}, go_column))

    def go_copy_then_write(t):
        c = t.copy()
        if n >= 2:
            c.node(n - 1).x = c.node(n - 1).x + 11.0
            if regraft is not None:
                c.node(regraft[0]).pid = regraft[1]
        return [("copy-written", c), ("original-after-copy-was-written", t)]

    out.append(("copy-then-write", dict(regraft=list(regraft) if regraft else None), go_copy_then_write))

    def go_scale(t):
        return [("scaled", Scale(2.5, 2.5, 2.5)(t)), ("scaled-about-the-origin", Scale(0.5, 0.5, 0.5, center="origin")(t)), ("original-after-scale", t)]

    out.append(("scale", dict(s=2.5), go_scale))

    def go_translate(t):
        return [("translated", Translate(5.0, -3.0, 2.0)(t)), ("original-after-translate", t)]

    out.append(("translate", {}, go_translate))
    if n >= 2:
        new_root = tips[-1] if tips else n - 1

        def go_redirect(t, new_root=new_root):
            return [("re-rooted", tree_utils.redirect_tree(t, new_root)), ("re-rooted-unsorted", tree_utils.redirect_tree(t, new_root, sort=False)), ("original-after-redirect", t)]

        out.append(("redirect_tree", dict(new_root=new_root), go_redirect))

        def go_sort(t):
            return [("sorted", tree_utils.sort_tree(t)), ("original-after-sort", t)]

        out.append(("sort_tree", {}, go_sort))
    if n >= 3 and tips:
        cut = tips[0]

        def go_cut(t, cut=cut):
            return [("tip-removed", tree_utils.to_subtree(t, [cut])), ("original-after-cut", t)]

        out.append(("to_subtree", dict(removed=[cut]), go_cut))
    return out


# ------------------------------------------------------------------------------------------------ query catalogue
def _ids(nodes):
    return [int(n.id) for n in nodes]


def q_tips(t):
    return sorted(_ids(t.get_tips()))


def q_furcations(t):
    return sorted(_ids(t.get_furcations()))


def q_branches(t):
    return sorted([int(i) for i in b.id()] for b in t.get_branches())


def q_paths(t):
    return sorted([int(i) for i in p.id()] for p in t.get_paths())


def q_node_flags(t):
    return [[bool(n.is_tip()), bool(n.is_furcation()), bool(n.is_root())] for n in t]


def q_node_branch(t):
    out = []
    for n in t:
        if len(n.children()) == 1 and not n.is_root():  # pass-through nodes: the branch through them is unique
            out.append([int(i) for i in n.branch().id()])
    return out


def q_children(t):
    return [sorted(_ids(n.children())) for n in t]


def q_parent(t):
    return [(-1 if n.parent() is None else int(n.parent().id)) for n in t]


def q_node_rows(t):
    return [[int(n.id), int(n.type), float(n.x), float(n.y), float(n.z), float(n.r), int(n.pid)] for n in t]


def q_segments(t):
    return [[int(i) for i in c.id()] + [float(c.length())] for c in t.get_segments()]


def q_subtree_sizes(t):
    return [int(n.subtree().number_of_nodes()) for n in t]


def q_length(t):
    return float(t.length())


def q_path_lengths(t):
    return sorted(float(p.length()) for p in t.get_paths())


def q_branch_lengths(t):
    return sorted(float(b.length()) for b in t.get_branches())


def q_radial(t):
    return [float(n.radial_distance()) for n in t]


def feature_query(name, **kw):
    def q(t):
        from swcgeom.analysis import extract_feature

        v = extract_feature(t).get(name, **kw)
        v = np.asarray(v, dtype=float).reshape(-1)
        return sorted(float(x) for x in v)

    return q


def q_volume(t):
    from swcgeom.analysis.volume import get_volume

    return float(get_volume(t, accuracy=2))


def q_traverse_enter(t):
    seen = []

    def enter(n, pre):
        seen.append([int(n.id), -1 if pre is None else int(pre)])
        return int(n.id)

    t.traverse(enter=enter)
    return sorted(seen)  # (node, value handed down by its parent = the parent's id): a set, the order among siblings is free


def q_traverse_leave(t):
    sizes = {}

    def leave(n, children):
        sizes[int(n.id)] = 1 + sum(children)
        return sizes[int(n.id)]

    total = t.traverse(leave=leave)
    return [int(total), sorted(sizes.items())]


def q_node_traverse(t):
    out = []
    for n in t:
        got = []
        n.traverse(enter=lambda m, pre, got=got: got.append(int(m.id)))
        out.append(sorted(got))
    return out


Q_C04 = dict(traverse_enter=("Tree.traverse", q_traverse_enter), traverse_leave=("Tree.traverse", q_traverse_leave), node_traverse=("Tree.Node.traverse", q_node_traverse))
Q_C08 = dict(tips=("Tree.get_tips", q_tips), furcations=("Tree.get_furcations", q_furcations), branches=("Tree.get_branches", q_branches), paths=("Tree.get_paths", q_paths),
             node_flags=("Tree.Node.is_tip", q_node_flags), node_branch=("Tree.Node.branch", q_node_branch))
Q_C09 = dict(children=("Tree.Node.children", q_children), parent=("Tree.Node.parent", q_parent), rows=("Tree.Node.__getitem__", q_node_rows), segments=("Tree.get_segments", q_segments),
             subtree_sizes=("Tree.Node.subtree", q_subtree_sizes))
Q_C10 = dict(length=("Tree.length", q_length), path_lengths=("Path.length", q_path_lengths), branch_lengths=("Branch.length", q_branch_lengths), radial=("Tree.Node.radial_distance", q_radial),
             f_length=("Features.get", feature_query("length")), f_path_length=("PathFeatures.get_length", feature_query("path_length")),
             f_branch_length=("BranchFeatures.get_length", feature_query("branch_length")), f_tortuosity=("BranchFeatures.get_tortuosity", feature_query("branch_tortuosity")),
             f_node_count=("NodeFeatures.get_count", feature_query("node_count")), f_tip_count=("TipFeatures.get_count", feature_query("tip_count")),
             f_furcation_count=("FurcationFeatures.get_count", feature_query("furcation_count")), f_radial=("NodeFeatures.get_radial_distance", feature_query("node_radial_distance")),
             f_branch_order=("NodeFeatures.get_branch_order", feature_query("node_branch_order")), f_sholl=("Sholl.get", feature_query("sholl")))
Q_C11 = dict(length=("Tree.length", q_length), path_lengths=("Path.length", q_path_lengths), branch_lengths=("Branch.length", q_branch_lengths), radial=("Tree.Node.radial_distance", q_radial),
             f_length=("Features.get", feature_query("length")), f_path_length=("PathFeatures.get_length", feature_query("path_length")), volume=("get_volume", q_volume))
Q_C03 = dict(tips=("Tree.get_tips", q_tips), children=("Tree.Node.children", q_children), rows=("Tree.Node.__getitem__", q_node_rows), length=("Tree.length", q_length))


# ------------------------------------------------------------------------------------------------------------ run
def _ask(fn, t):
    try:
        return ("value", canon(fn(t)))
    except Exception as e:  # noqa: BLE001 - an exception is an answer too (it must be the same with and without history)
        return ("raised", type(e).__name__)


def check_history(ctx, queries, pid, xyz, rng, cap=None, only=None, layouts=("separate",)):
    """one tree x every mutation (x the storage layouts given: `layouts` is a sequence, or a callable mutation number -> sequence);
    returns the number of failing comparisons"""
    bad = 0
    for mi, (label, spec, step) in enumerate(mutations(tuple(pid), random.Random(rng.random()))):
        if only is not None and label != only:
            continue
        for layout in (layouts(mi) if callable(layouts) else layouts):
            bad += _one_history(ctx, queries, pid, xyz, cap, label, spec, step, layout)
    return bad


def _one_history(ctx, queries, pid, xyz, cap, label, spec, step, layout):
    bad = 0
    if True:
        t = make_tree(pid, xyz, layout=layout)
        for _, fn in queries.values():  # the history: every query once (caches fill here), also on a copy taken BEFORE the step
            _ask(fn, t)
        try:
            objs = step(t)
        except LostWrite as e:
            if cap is None or cap.setdefault(("Node.__setitem__", "write-lands"), 0) < 3:
                if cap is not None:
                    cap[("Node.__setitem__", "write-lands")] += 1
                ctx.violation("Node.__setitem__", "history-independent/a-write-through-a-node-handle-lands-in-the-owner",
                              dict(pid=list(pid), columns=layout, history=f"every query once, then {label} {spec}"), observed=str(e), expected="the owner's column holds the assigned value",
                              replay=dict(kind="history", pid=list(pid), xyz=[[float(a) for a in row] for row in xyz], step=label, seed=0, layout=layout))
            return bad + 1
        except Exception as e:  # noqa: BLE001 - a mutation the library refuses is no history
            if not (layout == "readonly" and isinstance(e, ValueError)):  # (a write into read-only columns is refused by numpy: no history)
                ctx.notes.append(f"history step {label} raised {type(e).__name__} on pid={list(pid)}, columns {layout} (skipped)") if len(ctx.notes) < 20 else None
            return bad
        for role, obj in objs:
            try:
                fresh = rebuild(obj)
            except Exception:  # noqa: BLE001 - e.g. an in-place write made the table ill-formed for the constructor
                continue
            for qname, (carrier, fn) in queries.items():
                got, want = _ask(fn, obj), _ask(fn, fresh)
                if got[0] != want[0] or not close(got[1], want[1]):
                    bad += 1
                    if cap is None or cap.setdefault((carrier, qname), 0) < 3:
                        if cap is not None:
                            cap[(carrier, qname)] += 1
                        ctx.violation(carrier, f"history-independent/{qname}",
                                      dict(pid=list(pid), columns=layout, history=f"every query once, then {label} {spec}", object=role),
                                      observed=got, expected=f"{want} (the same query on a tree built afresh from the object's current columns)",
                                      replay=dict(kind="history", pid=list(pid), xyz=[[float(a) for a in row] for row in xyz], step=label, seed=0, layout=layout))
        ctx.case("history", dict(pid=list(pid), step=label, columns=layout), nontrivial=len(pid) >= 2)
    return bad


def run(ctx, queries, nmax_quick=5, nmax_thorough=6, random_quick=6, random_thorough=40, layouts=LAYOUTS):
    rng = random.Random(ctx.seed + 4242)
    cap = {}
    nmax = nmax_quick if ctx.tier == "quick" else nmax_thorough
    tables = [p for p in all_sorted_tables_upto(nmax, 2)]
    if ctx.tier == "quick" and len(tables) > 60:
        keep = [p for p in tables if len(p) <= 4]
        rest = [p for p in tables if len(p) > 4]
        tables = keep + random.Random(ctx.seed).sample(rest, 60 - len(keep))
    layouts = tuple(layouts)
    others = [l for l in layouts if l != "separate"] or list(layouts)

    def pick(ti, n):
        """storage layouts of (tree number ti of n nodes, mutation number mi): every layout for trees of <= 3 nodes (thorough tier: all trees);
        beyond that `separate` plus ONE other layout, rotating with tree and mutation so that every (mutation, layout) pair recurs"""
        if n <= 3 or ctx.tier != "quick":
            return layouts
        return lambda mi: (["separate"] if "separate" in layouts else []) + [others[(ti + mi) % len(others)]]

    for ti, pid in enumerate(tables):
        check_history(ctx, queries, pid, coords_for(pid), rng, cap, layouts=pick(ti, len(pid)))
    for ti in range(random_quick if ctx.tier == "quick" else random_thorough):
        pid = random_sorted_table(rng, rng.randrange(7, 14))
        check_history(ctx, queries, pid, coords_for(pid, rng), rng, cap, layouts=pick(ti, len(pid)))
    ctx.rule("history independence: sorted parent tables with <= %d nodes (quick: all up to 4 nodes and a seeded sample of the larger ones) plus seeded random trees of 7-13 nodes; "
             "history = every query once, then ONE of {node-handle write of x / r / type / pid (regraft of a tip), whole-column write, copy then write, Scale, Translate, "
             "redirect_tree (sorted and unsorted), sort_tree, to_subtree}; every query on every object involved must equal the query on a tree built afresh from that "
             "object's current columns; the tree's columns are handed to the constructor in the storage layouts %s (bounded/common.py: lay_out; all of them for trees of <= 3 nodes, "
             "`separate` plus one rotating other layout for larger trees in the quick tier)" % (nmax, ", ".join(layouts)), exhaustive=False)


def replay(queries, spec):
    class C:
        def __init__(self):
            self.violations, self.notes = [], []

        def violation(self, *a, **k):
            self.violations.append(a)

        def case(self, *a, **k):
            pass

    c = C()
    check_history(c, queries, spec["pid"], np.array(spec["xyz"]), random.Random(spec.get("seed", 0)), None, only=spec["step"], layouts=(spec.get("layout", "separate"),))
    for v in c.violations:
        print("  still failing:", v[:2])
    return not c.violations
