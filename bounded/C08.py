"""C08 bounded stand-in: branches, paths, tips, furcations and the branch tree.

Carriers: Tree.get_branches, Tree.get_paths, Tree.get_tips, Tree.get_furcations, Node.is_tip, Node.is_furcation,
Tree.Node.branch, BranchTree.from_tree, ToBranchTree, ToLongestPath.
Exhaustive over all sorted parent tables up to 7 (quick) / 8 (thorough) nodes plus a seeded tail of larger,
arbitrarily numbered trees.  Oracle: child counts read off the parent table with plain loops.
"""
from __future__ import annotations

import random
from collections import Counter

import numpy as np

from .common import make_tree, sorted_parent_tables


class _Lim:
    """Forwards to ctx; each (carrier, clause, stratum) is reported at most 3 times (enumeration is smallest-first).
    The stratum (shape class of the input) keeps a failure on one class of trees from hiding a failure on another."""

    def __init__(self, ctx, cap=3):
        self.ctx, self.cap, self.n = ctx, cap, {}

    def case(self, *a, **k):
        self.ctx.case(*a, **k)

    def violation(self, carrier, clause, input, observed, expected, replay=None, stratum=None):
        k = (carrier, clause, stratum)
        self.n[k] = self.n.get(k, 0) + 1
        if self.n[k] <= self.cap:
            self.ctx.violation(carrier, clause, input, observed, expected, replay)


def children(pid):
    ch = {i: [] for i in range(len(pid))}
    for i, p in enumerate(pid):
        if p >= 0:
            ch[p].append(i)
    return ch


def expected_branches(pid):
    """Maximal chains: from the root or a furcation through pass-through nodes to the next furcation or tip."""
    ch = children(pid)
    out = []
    for s in range(len(pid)):
        if s == 0 or len(ch[s]) >= 2:
            for c in ch[s]:
                b = [s, c]
                while len(ch[b[-1]]) == 1:
                    b.append(ch[b[-1]][0])
                out.append(tuple(b))
    return out


def expected_paths(pid):
    ch = children(pid)
    out = []
    for t in range(len(pid)):
        if not ch[t]:
            p = [t]
            while pid[p[-1]] >= 0:
                p.append(pid[p[-1]])
            out.append(tuple(reversed(p)))
    return out


def _ids(nodes):
    return [int(n.id) for n in nodes]


def check_branch_list(V, pid, got):
    """The clauses of the branch decomposition on a list of id sequences."""
    n = len(pid)
    ch = children(pid)
    tree_edges = {(pid[i], i) for i in range(n) if pid[i] >= 0}
    cnt = Counter()
    for b in got:
        if len(b) < 2:
            V("edges-partitioned", f"branch {b} has no edge (all: {got})", "every branch has at least two nodes")
            continue
        pairs = list(zip(b[:-1], b[1:]))
        bad = [(a, c) for a, c in pairs if not (0 <= c < n and pid[c] == a)]
        if bad:
            V("consecutive-are-parent-child", f"branch {b}: {bad} are not (parent, child)", "consecutive ids are (parent, child)")
        cnt.update(pairs)
        if not (b[0] == 0 or len(ch.get(b[0], [])) >= 2):
            V("branch-ends", f"branch {b} starts at {b[0]} ({len(ch.get(b[0], []))} children)", "starts at the root or a furcation")
        k_last = len(ch[b[-1]]) if b[-1] in ch else -1
        if not (k_last >= 2 or k_last == 0):
            V("branch-ends", f"branch {b} ends at {b[-1]} ({k_last} children)", "ends at a furcation or a tip")
        inner = [x for x in b[1:-1] if len(ch.get(x, [])) != 1]
        if inner:
            V("branch-interior-pass-through", f"branch {b}: interior nodes {inner} do not have exactly one child", "interior nodes have exactly one child")
    missing = sorted(e for e in tree_edges if cnt[e] == 0)
    multi = sorted(e for e in tree_edges if cnt[e] > 1)
    alien = sorted(e for e in cnt if e not in tree_edges)
    if missing or multi or alien:
        V("edges-partitioned", f"branches {got}: edges in no branch {missing}, in several {multi}, not of the tree {alien}", f"every edge of {sorted(tree_edges)} in exactly one branch")


def check_branch_tree(V, pid, tree, bt):
    from swcgeom.core import BranchTree

    n = len(pid)
    ch = children(pid)
    if not isinstance(bt, BranchTree) or "tag" not in list(bt.keys()):
        V("branch-tree-nodes", f"{type(bt).__name__}", "a BranchTree with the columns of the tree")
        return
    olds = [int(round(float(t) - 100)) for t in bt.get_ndata("tag")]
    want_nodes = sorted({0} | {i for i in range(n) if len(ch[i]) >= 2 or len(ch[i]) == 0})
    if sorted(olds) != want_nodes:
        V("branch-tree-nodes", f"original nodes {sorted(olds)}", f"root + furcations + tips = {want_nodes}")
        return
    for col in tree.keys():
        if col in ("id", "pid"):
            continue
        if not np.array_equal(bt.get_ndata(col), tree.get_ndata(col)[olds]):
            V("branch-tree-nodes", f"{col} = {bt.get_ndata(col).tolist()}", f"{tree.get_ndata(col)[olds].tolist()} (original nodes {olds})")
    m = len(olds)
    ids, pids = [int(v) for v in bt.id()], [int(v) for v in bt.pid()]
    exp = expected_branches(pid)
    want_edges = sorted((b[0], b[-1]) for b in exp)
    if ids != list(range(m)) or any(p != -1 and not (0 <= p < m) for p in pids):
        V("branch-tree-edges", f"ids {ids} pids {pids}", "ids 0..m-1 with existing parents")
    else:
        got_edges = sorted((olds[p], olds[k]) for k, p in enumerate(pids) if p != -1)
        roots = [olds[k] for k, p in enumerate(pids) if p == -1]
        if got_edges != want_edges or roots != [0]:
            V("branch-tree-edges", f"edges (original ids) {got_edges}, roots {roots}", f"one edge per branch {want_edges}, root [0]")
    # remembered branches
    got_b = []
    wrong_key, wrong_pts = [], []
    xyzr = tree.xyzr()
    for key, brs in bt.branches.items():
        for br in brs:
            seq = tuple(int(round(float(t) - 100)) for t in br.get_ndata("tag"))
            got_b.append(seq)
            if not (0 <= int(key) < m) or olds[int(key)] != seq[0]:
                wrong_key.append((int(key), seq))
            if not np.array_equal(br.xyzr(), xyzr[list(seq)]):
                wrong_pts.append(seq)
    if sorted(got_b) != sorted(exp):
        V("branch-tree-remembers-points", f"remembered branches {sorted(got_b)}", f"the original branches {sorted(exp)}")
    elif wrong_key:
        V("branch-tree-remembers-points", f"branches filed under (branch-tree node, branch) {wrong_key}; node -> original {dict(enumerate(olds))}", "each branch under the branch-tree node of its first point")
    elif wrong_pts:
        V("branch-tree-remembers-points", f"points of {wrong_pts} differ", "coordinates and radii of the original points")
    if sorted(tuple(int(round(float(t) - 100)) for t in b.get_ndata("tag")) for b in bt.get_origin_branches()) != sorted(got_b):
        V("branch-tree-remembers-points", "get_origin_branches() differs from the branches table", "the same branches")


def check_tree(ctx, pid):
    from swcgeom.core import BranchTree
    from swcgeom.transforms import ToBranchTree, ToLongestPath

    pid = [int(v) for v in pid]
    n = len(pid)
    spec = dict(pid=pid)
    ch = children(pid)
    tips = sorted(i for i in range(n) if not ch[i])
    furcs = sorted(i for i in range(n) if len(ch[i]) >= 2)
    tree = make_tree(pid, tag=np.arange(n, dtype=np.float64) + 100.0)
    nontrivial = n >= 2
    shape = "root-with-one-child" if len(ch[0]) == 1 else "root-with-%s-children" % ("no" if not ch[0] else "several")

    def guarded(carrier, fn):
        def V(clause, obs, exp, stratum=""):
            ctx.violation(carrier, clause, spec, obs, exp, spec, stratum=shape + stratum)

        try:
            fn(V)
        except Exception as e:
            V("operation-raises", f"{type(e).__name__}: {e}", "no exception")
        ctx.case(carrier, spec, nontrivial=nontrivial)

    # --- branches
    def f_branches(V):
        got = [[int(i) for i in b.origin_id()] for b in tree.get_branches()]
        check_branch_list(V, pid, got)

    guarded("Tree.get_branches", f_branches)

    # --- paths
    def f_paths(V):
        got = [tuple(int(i) for i in p.origin_id()) for p in tree.get_paths()]
        for p in got:
            if not p or p[0] != 0 or any(pid[c] != a for a, c in zip(p[:-1], p[1:])) or p[-1] not in tips:
                V("one-path-per-tip", f"path {list(p)}", "starts at the root, follows parent links, ends at a tip")
                return
        ends = sorted(p[-1] for p in got)
        if ends != tips:
            V("one-path-per-tip", f"paths end at {ends}", f"exactly one path per tip {tips}")

    guarded("Tree.get_paths", f_paths)

    # --- tips / furcations
    def f_tips(V):
        got = sorted(_ids(tree.get_tips()))
        if got != tips:
            V("tips-are-childless", f"tips {got}", f"{tips}")

    guarded("Tree.get_tips", f_tips)

    def f_furcs(V):
        got = sorted(_ids(tree.get_furcations()))
        if got != furcs:
            V("furcations-have-two-or-more-children", f"furcations {got}", f"{furcs}")

    guarded("Tree.get_furcations", f_furcs)

    def f_is_tip(V):
        got = [i for i in range(n) if tree.node(i).is_tip()]
        if got != tips:
            V("tips-are-childless", f"is_tip true for {got}", f"{tips}")

    guarded("Node.is_tip", f_is_tip)

    def f_is_furc(V):
        got = [i for i in range(n) if tree.node(i).is_furcation()]
        if got != furcs:
            V("furcations-have-two-or-more-children", f"is_furcation true for {got}", f"{furcs}")

    guarded("Node.is_furcation", f_is_furc)

    # --- Node.branch
    def f_node_branch(V):
        exp = expected_branches(pid)
        for x in range(1, n):
            if len(ch[x]) >= 2:
                # a furcation ends one branch and starts others: the property does not say which of them
                # Node.branch() must report, so only pass-through nodes and tips are checked (see DESIGN.md section 9)
                continue
            want = [b for b in exp if any(c == x for c in b[1:])]
            assert len(want) == 1
            got = [int(i) for i in tree.node(x).branch().origin_id()]
            if tuple(got) != want[0]:
                V("node-branch", f"node({x}).branch() = {got}", f"{list(want[0])} (the branch containing the edge {pid[x]}->{x})",
                  stratum="/furcation-node" if len(ch[x]) >= 2 else "/plain-node")

    if n >= 2:
        guarded("Tree.Node.branch", f_node_branch)

    # --- branch tree
    guarded("BranchTree.from_tree", lambda V: check_branch_tree(V, pid, tree, BranchTree.from_tree(tree)))
    guarded("ToBranchTree", lambda V: check_branch_tree(V, pid, tree, ToBranchTree()(tree)))

    # --- longest path
    def f_longest(V):
        xyz = tree.xyz().astype(np.float64)
        paths = expected_paths(pid)
        length = {p: float(sum(np.linalg.norm(xyz[c] - xyz[a]) for a, c in zip(p[:-1], p[1:]))) for p in paths}
        best = max(length.values())
        for detach in (True, False):
            p = ToLongestPath(detach=detach)(tree)
            seq = tuple(int(round(float(t) - 100)) for t in p.get_ndata("tag"))
            if seq not in length:
                V("longest-root-to-tip-path", f"detach={detach}: nodes {list(seq)}", f"one of the root-to-tip paths {[list(q) for q in paths]}")
            elif length[seq] < best - 1e-4:
                V("longest-root-to-tip-path", f"detach={detach}: path {list(seq)} of length {length[seq]:.4f}", f"a path of length {best:.4f}")
            elif not np.array_equal(p.xyz(), tree.xyz()[list(seq)]):
                V("longest-root-to-tip-path", f"detach={detach}: points differ", "the original points")

    guarded("ToLongestPath", f_longest)


def random_table(rng, n, relabel=True):
    pid = [-1] + [rng.randrange(i) for i in range(1, n)]
    if rng.random() < 0.3:  # long pass-through stretches
        pid = [-1] + [i - 1 if rng.random() < 0.8 else rng.randrange(i) for i in range(1, n)]
    if not relabel:
        return pid
    perm = list(range(1, n))
    rng.shuffle(perm)
    perm = [0] + perm
    new = [0] * n
    for i in range(n):
        new[perm[i]] = -1 if pid[i] == -1 else perm[pid[i]]
    return new


def run(ctx):
    rng = random.Random(ctx.seed)
    lim = _Lim(ctx)
    nmax = 7 if ctx.tier == "quick" else 8
    for n in range(1, nmax + 1):
        for pid in sorted_parent_tables(n):
            check_tree(lim, pid)
    tail = 40 if ctx.tier == "quick" else 300
    for k in range(tail):
        check_tree(lim, random_table(rng, rng.randrange(nmax + 1, 31), relabel=(k % 2 == 0)))
    ctx.rule(
        f"every sorted parent table with <= {nmax} nodes (single node, chains, roots with 1, 2, many children all included), each through all ten carriers; "
        f"plus {tail} seeded random trees with {nmax + 1}..30 nodes, half of them with an arbitrary (non-sorted) numbering and root 0. Non-trivial = >= 2 nodes",
        exhaustive=True,
    )


class _Collect:
    def __init__(self):
        self.v = []
        self.notes = []

    def case(self, *a, **k):
        pass

    def violation(self, *a, **k):
        self.v.append(a)


def replay(spec):
    c = _Collect()
    check_tree(c, spec["pid"])
    for v in c.v:
        print("  still failing:", v[:2], v[3:5])
    return not c.v
