"""C11 bounded stand-in: morphometrics do not depend on pose or numbering; uniform scaling
multiplies lengths by s, volumes by s^3 and leaves counts, angles and ratios unchanged.

Metamorphic: the library's own value on the original tree is compared with its value on
the moved / renumbered / scaled tree (moved through the library's transforms, renumbered
and radius-scaled by plain array code here)."""
from __future__ import annotations

import math
import random

import numpy as np

from .common import all_sorted_tables_upto, coords_for, make_tree, random_sorted_table

RTOL, RTOL_VOL = 1e-4, 1e-3
FEATURES = [  # extract_feature names: (name, kind, homogeneity degree)
    ("length", "pos", 1), ("node_count", "pos", 0), ("node_radial_distance", "pos", 1), ("node_branch_order", "multi", 0),
    ("furcation_count", "pos", 0), ("furcation_radial_distance", "pos", 1), ("tip_count", "pos", 0), ("tip_radial_distance", "pos", 1),
    ("branch_length", "multi", 1), ("branch_tortuosity", "multi", 0), ("path_length", "multi", 1), ("path_tortuosity", "multi", 0),
]
SHOLL_RADII = [0.25 + 0.5 * k for k in range(0, 120)]


# ------------------------------------------------------------------- measuring one tree
def measure(t, probe, radii, collinear=False, closed_form_levels=False):
    """name -> (kind, values, degree, carrier) or ('error', message, None, carrier)."""
    from swcgeom.analysis import extract_feature, get_volume
    from swcgeom.analysis.features import BranchFeatures
    from swcgeom.analysis.lmeasure import LMeasure
    from swcgeom.analysis.sholl import Sholl

    out = {}

    def put(name, kind, deg, carrier, fn):
        try:
            out[name] = (kind, np.atleast_1d(np.asarray(fn(), dtype=np.float64)).ravel(), deg, carrier)
        except Exception as e:
            out[name] = ("error", f"{type(e).__name__}: {e}", None, carrier)

    fe = extract_feature(t)
    for name, kind, deg in FEATURES:
        put(name, kind, deg, f"extract_feature.get('{name}')", lambda: fe.get(name))
    put("sholl", "pos", 0, "Sholl.get", lambda: Sholl(t).get(steps=list(radii)))
    put("branch_angle", "angle", 0, "BranchFeatures.get_angle", lambda: np.degrees(BranchFeatures(t).get_angle()))
    for k in (1, 2) + ((3,) if collinear else ()):
        put(f"volume{k}", "pos", 3, "get_volume", lambda: get_volume(t, accuracy=k))
    if closed_form_levels and not collinear:
        # levels 3 and 4 use closed forms only (no sampling) on EVERY tree: whatever they report, it may not depend on the pose
        put("volume3", "pos", 3, "get_volume", lambda: get_volume(t, accuracy=3))
    lm = LMeasure()
    for nm in ("n_stems", "n_bifs", "n_branch", "n_tips"):
        put("lm_" + nm, "pos", 0, "LMeasure." + nm, lambda: getattr(lm, nm)(t))
    for nm, deg in (("path_distance", 1), ("euc_distance", 1), ("branch_order", 0), ("terminal_degree", 0)):
        put("lm_" + nm, "pos", deg, "LMeasure." + nm, lambda: [getattr(lm, nm)(t.node(i)) for i in probe])
    pid = [int(p) for p in t.pid()]
    bifs = [i for i in range(len(pid)) if pid.count(i) == 2]
    xyz = t.xyz()

    def arms_ok(b):  # both daughters (and remote ends) away from the bifurcation point: the angle is defined
        ch = [i for i, p in enumerate(pid) if p == b]
        return all(np.linalg.norm(xyz[c] - xyz[b]) > 1e-3 for c in ch)

    put("lm_partition_asymmetry", "multi", 0, "LMeasure.partition_asymmetry", lambda: [lm.partition_asymmetry(t.node(b)) for b in bifs])
    put("lm_bif_ampl_local", "angle", 0, "LMeasure.bif_ampl_local", lambda: [lm.bif_ampl_local(t.node(b)) for b in bifs if arms_ok(b)])
    put("lm_bif_ampl_remote", "angle", 0, "LMeasure.bif_ampl_remote", lambda: [lm.bif_ampl_remote(t.node(b)) for b in bifs if arms_ok(b)])
    put("lm_contraction", "multi", 0, "LMeasure.contraction", lambda: [lm.contraction(b) for b in t.get_branches()])
    put("lm_fragmentation", "multi", 0, "LMeasure.fragmentation", lambda: [lm.fragmentation(b) for b in t.get_branches()])
    put("lm_branch_pathlength", "multi", 1, "LMeasure.branch_pathlength", lambda: [lm.branch_pathlength(b) for b in t.get_branches()])
    return out


def same(kind, a, b, factor, rtol, as_multiset):
    a, b = np.asarray(a, dtype=np.float64), np.asarray(b, dtype=np.float64)
    if a.shape != b.shape:
        return False
    if kind in ("multi", "angle") or as_multiset:
        a, b = np.sort(a), np.sort(b)
    a = a * factor
    if kind == "angle":  # compared where rounding is well conditioned: in the cosine, or in the angle itself
        return bool(np.all((np.abs(np.cos(np.radians(a)) - np.cos(np.radians(b))) <= RTOL) | (np.abs(a - b) <= RTOL * np.maximum(np.abs(a), np.abs(b)))))
    return bool(np.all(np.abs(a - b) <= 1e-6 * max(1.0, factor) + rtol * np.maximum(np.abs(a), np.abs(b))))


class Rep:
    def __init__(self, ctx, cap=3):
        self.ctx, self.cap, self.seen, self.count = ctx, cap, {}, 0

    def v(self, carrier, clause, spec, observed, expected):
        self.count += 1
        k = (carrier, clause)
        self.seen[k] = self.seen.get(k, 0) + 1
        if self.seen[k] <= self.cap:
            self.ctx.violation(carrier, clause, spec, observed, expected, spec)


def _short(x):
    return [round(float(v), 5) for v in np.asarray(x).ravel()[:24]] if not isinstance(x, str) else x


# ----------------------------------------------------------------------- the relations
def apply_motion(t, steps):
    """steps: list of [op, args..., center]; returns the moved tree.  Raises RotateUnavailable
    when Rotate(n, theta) cannot be built (a C12 matter)."""
    from swcgeom.transforms import Rotate, RotateX, RotateY, RotateZ, Translate

    for st in steps:
        op = st[0]
        if op == "translate":
            t = Translate(*st[1])(t)
        elif op == "rotate":
            try:
                tr = Rotate(np.array(st[1], dtype=np.float64), st[2], center=st[3])
                t2 = tr(t)
            except Exception as e:
                raise RotateUnavailable(f"{type(e).__name__}: {e}")
            t = t2
        else:
            t = {"rotx": RotateX, "roty": RotateY, "rotz": RotateZ}[op](st[1], center=st[2])(t)
    return t


class RotateUnavailable(Exception):
    pass


def renumber(pid, xyz, r, types, sigma):
    """sigma[i] = new row of old node i (sigma[0] = 0)."""
    n = len(pid)
    npid, nxyz, nr, nty = [0] * n, np.zeros((n, 3)), np.zeros(n), [0] * n
    for i in range(n):
        j = sigma[i]
        npid[j] = -1 if pid[i] < 0 else sigma[pid[i]]
        nxyz[j], nr[j], nty[j] = xyz[i], r[i], types[i]
    return npid, nxyz, nr, nty


def sholl_radii(xyz):
    """The fixed absolute radii, minus those that (nearly) pass through a node: the count is
    discontinuous there and not determined 'beyond floating-point rounding'."""
    rho = np.linalg.norm(np.asarray(xyz, dtype=np.float64) - np.asarray(xyz[0], dtype=np.float64), axis=1)
    top = rho.max() + 1.0
    return [R for R in SHOLL_RADII if R <= top and np.all(np.abs(rho - R) > 1e-3 * max(1.0, R))]


def check_relation(rep, spec, notes=None):
    """spec: pid, xyz, r, type, collinear, relation in {motion, renumber, scale} + its parameters."""
    pid, xyz, r, types = spec["pid"], np.array(spec["xyz"], dtype=np.float64), np.array(spec["r"], dtype=np.float64), spec["type"]
    n = len(pid)
    t = make_tree(pid, xyz, r, types)
    probe = spec.get("probe") or list(range(n))
    radii = sholl_radii(np.asarray(xyz, dtype=np.float32))
    base = measure(t, probe, radii, spec.get("collinear", False), spec.get("dyadic", False))
    rel = spec["relation"]
    factor_of = lambda deg: 1.0  # noqa: E731
    radii2, probe2, as_multiset = radii, probe, False
    if rel == "motion":
        try:
            t2 = apply_motion(t, spec["steps"])
        except RotateUnavailable as e:
            if notes is not None:
                notes.add(f"Rotate(n, theta) is unavailable ({e}): motions through it were skipped (a C12 matter)")
            return "skipped"
        except Exception as e:
            rep.v("transforms", "operation-raises", spec, f"{type(e).__name__}: {e}", "no exception")
            return "error"
        prefix = "rigid-motion-invariant-"
    elif rel == "renumber":
        sigma = spec["sigma"]
        npid, nxyz, nr, nty = renumber(pid, xyz, r, types, sigma)
        t2 = make_tree(npid, nxyz, nr, nty)
        probe2, as_multiset = [sigma[i] for i in probe], True
        prefix = "renumbering-invariant-"
    else:
        from swcgeom.transforms import Scale

        s = spec["s"]
        try:
            ts = Scale(s, s, s, center=spec["center"])(t)
        except Exception as e:
            rep.v("Scale", "operation-raises", spec, f"{type(e).__name__}: {e}", "no exception")
            return "error"
        t2 = make_tree(pid, ts.xyz(), np.asarray(r, dtype=np.float32) * np.float32(s), types)  # Scale leaves r alone: scaled here
        radii2 = [R * s for R in radii]
        factor_of = lambda deg: s ** deg  # noqa: E731
        prefix = None
    other = measure(t2, probe2, radii2, spec.get("collinear", False), spec.get("dyadic", False))
    for name, (kind, val, deg, carrier) in base.items():
        okind, oval, _, _ = other[name]
        if kind == "error":
            if notes is not None:
                notes.add(f"{carrier} fails on some original trees ({val.split(':')[0]}; a C08/C10 matter): the relation is not evaluated there")
            continue
        clause = (prefix + name) if prefix else f"scaling-degree-{deg}"
        sp = dict(spec, feature=name)
        if okind == "error":
            rep.v(carrier, clause, sp, oval, "same as on the original tree: " + str(_short(val)))
            continue
        positional = name.startswith("lm_") and kind == "pos"  # probe nodes are tracked through the renumbering
        if not same(kind, val, oval, factor_of(deg), RTOL_VOL if name.startswith("volume") else RTOL, as_multiset and not positional):
            rep.v(carrier, clause, sp, _short(oval), (f"{factor_of(deg):.6g} x " if prefix is None else "") + str(_short(val)))
    return "ok"


# -------------------------------------------------------------------------- enumeration
def random_motion(rng, with_rotate):
    steps = []
    for _ in range(rng.randint(2, 4)):
        k = rng.choice(["rotx", "roty", "rotz", "translate"] + (["rotate"] if with_rotate else []))
        if k == "translate":
            steps.append([k, [round(rng.uniform(-20, 20), 3) for _ in range(3)]])
        elif k == "rotate":
            v = np.array([rng.gauss(0, 1) for _ in range(3)])
            v /= np.linalg.norm(v)
            steps.append([k, [float(a) for a in v], round(rng.uniform(-math.pi, math.pi), 4), rng.choice(["origin", "root"])])
        else:
            steps.append([k, round(rng.uniform(-math.pi, math.pi), 4), rng.choice(["origin", "root"])])
    return steps


def random_sigma(rng, pid, topological):
    n = len(pid)
    if not topological:
        rest = list(range(1, n))
        rng.shuffle(rest)
        return [0] + rest
    ch = {i: [] for i in range(n)}
    for i, p in enumerate(pid):
        if p >= 0:
            ch[p].append(i)
    order, front = [], [0]
    while front:  # random linear extension: parents before children
        x = front.pop(rng.randrange(len(front)))
        order.append(x)
        front.extend(ch[x])
    sigma = [0] * n
    for new, old in enumerate(order):
        sigma[old] = new
    return sigma


def tree_inputs(tier, rng):
    for pid in all_sorted_tables_upto(5):
        n = len(pid)
        yield dict(pid=list(pid), xyz=coords_for(pid), r=[1.0 + 0.25 * (i % 3) for i in range(n)], collinear=False)
    for _ in range(60 if tier == "quick" else 200):
        n = rng.randint(10, 40)
        pid = random_sorted_table(rng, n) if rng.random() < 0.5 else _random_binaryish(rng, n)
        yield dict(pid=list(pid), xyz=coords_for(pid, rng=rng), r=[round(rng.uniform(0.2, 2.0), 3) for _ in range(n)], collinear=False)
    for k in range(8 if tier == "quick" else 40):  # collinear trees: volume at accuracy 3 as well
        if k % 2:  # a root with two opposite arms
            n = rng.randint(3, 5)
            pid, sign = [-1, 0, 0, 1, 2][:n], [0.0, 1.0, -1.0, 1.0, -1.0]
        else:
            n = rng.randint(2, 5)
            pid, sign = [-1] + list(range(n - 1)), [1.0] * n
        rad = [rng.choice([0.5, 1.0, 1.5]) for _ in range(n)]
        t = [0.0]
        for i in range(1, n):
            t.append(t[pid[i]] + sign[i] * rng.choice([1.05, 1.5, 2.5]) * max(rad[i], rad[pid[i]]))
        xyz = np.array([[1.0 + 0.6 * v, 2.0 + 0.8 * v, 3.0] for v in t])
        yield dict(pid=pid, xyz=xyz, r=rad, collinear=True)
    # collinear trees laid exactly along a coordinate axis, in both directions, with radii that grow and shrink along the
    # line: moved by exact quarter turns they stay axis-parallel (every pose of a voxel-grid reconstruction is of this kind)
    for axis in range(3):
        for sgn in (1.0, -1.0):
            for rad in ([1.0, 0.5, 1.5, 0.75], [0.5, 1.0, 0.5], [1.5, 1.0]):
                n = len(rad)
                t = [0.0]
                for i in range(1, n):
                    t.append(t[-1] + sgn * 1.5 * max(rad[i], rad[i - 1]))
                xyz = np.array([[1.0, 2.0, 3.0]] * n)
                xyz[:, axis] += np.array(t)
                yield dict(pid=[-1] + list(range(n - 1)), xyz=xyz, r=rad, collinear=True, axis_aligned=True)


# ---- trees on a 1/16 grid with short compartments, and translations 4e4 .. 1e6 long that move them EXACTLY in float32 (every
# coordinate of the moved tree is representable: the two trees are congruent without any rounding, so nothing at all may change)
FAR_OFFSETS = [(983040.0, 0.0, 0.0), (0.0, 0.0, -524288.0), (65536.0, 131072.0, -262144.0), (-999424.0, 786432.0, 589824.0),
               (40000.0, -40000.0, 40000.0), (1000000.0, -1000000.0, 1000000.0), (0.0, 262144.0, 0.0)]
LATTICE_DIRS = [(1, 0, 0), (0, 0, -1), (0, -1, 0), (3, 4, 0), (2, -3, 6), (1, 2, 2), (-1, -2, 2)]
DYADIC_RADII = [0.125, 0.1875, 0.25, 0.375, 0.5, 0.75, 1.0, 1.5]


def dyadic_inputs(tier, rng):
    den = 16
    for wi, w in enumerate(LATTICE_DIRS):  # collinear: chains and two-armed roots on a lattice line, radii tapering both ways
        unit = math.sqrt(sum(c * c for c in w)) / den
        for j in range(2 if tier == "quick" else 6):
            n_right, n_left = rng.randint(1, 3), (rng.randint(1, 2) if j % 2 else 0)
            pid, m = [-1], [0]
            for sign, count in ((1, n_right), (-1, n_left)):
                prev = 0
                for _ in range(count):
                    pid.append(prev)
                    m.append(m[prev] + sign * max(1, round(rng.choice([0.25, 0.5, 1.0, 1.5, 2.0, 3.0]) / unit)))
                    prev = len(pid) - 1
            tt = [mi * unit for mi in m]
            rad = []
            for i in range(len(pid)):
                lim = min([abs(tt[i] - tt[pid[i]])] * (pid[i] >= 0) + [abs(tt[c] - tt[i]) for c in range(len(pid)) if pid[c] == i])
                rad.append(rng.choice(([x for x in DYADIC_RADII if x <= lim] or [lim / 2])[-3:]))
            base = np.array([1.0, -2.0, 3.0]) if j % 3 else np.zeros(3)
            xyz = np.array([base + mi * np.array(w, dtype=np.float64) / den for mi in m])
            yield dict(pid=pid, xyz=xyz, r=rad, collinear=True, dyadic=True)
    for _ in range(6 if tier == "quick" else 30):  # arbitrary small trees, steps of 1/4 .. 2 units along lattice vectors
        n = rng.randint(3, 9)
        pid = random_sorted_table(rng, n) if rng.random() < 0.5 else _random_binaryish(rng, n)
        xyz = np.zeros((n, 3))
        for i in range(1, n):
            w = np.array(rng.choice(LATTICE_DIRS), dtype=np.float64) * rng.choice([-1, 1])
            xyz[i] = xyz[pid[i]] + w * rng.choice([2, 4, 8]) / den
        yield dict(pid=list(pid), xyz=xyz, r=[rng.choice(DYADIC_RADII[:6]) for _ in range(n)], collinear=False, dyadic=True)


def _random_binaryish(rng, n):
    pid, deg = [-1], [0]
    for i in range(1, n):
        p = rng.choice([j for j in range(i) if deg[j] < 2])
        pid.append(p)
        deg[p] += 1
        deg.append(0)
    return tuple(pid)


def run(ctx):
    rep = Rep(ctx)
    rng = random.Random(ctx.seed)
    notes = set()
    n_motion = 2 if ctx.tier == "quick" else 5
    n_renum = 2 if ctx.tier == "quick" else 5
    skipped = 0
    import itertools

    for inp in itertools.chain(tree_inputs(ctx.tier, rng), dyadic_inputs(ctx.tier, rng)):
        pid, n = inp["pid"], len(inp["pid"])
        base = dict(pid=pid, xyz=[[float(a) for a in row] for row in np.asarray(inp["xyz"], dtype=np.float32)], r=[float(x) for x in inp["r"]],
                    type=[1] + [3 if (i % 2) else 2 for i in range(1, n)], collinear=inp["collinear"],
                    probe=list(range(n)) if n <= 12 else sorted(rng.sample(range(n), 8)))
        if inp.get("dyadic"):
            base["dyadic"] = True
        far = rng.sample(FAR_OFFSETS, 3) if inp.get("dyadic") else []
        for k in range(n_motion + len(far)):
            steps = random_motion(rng, with_rotate=(k % 2 == 1)) if k < n_motion else [["translate", list(far[k - n_motion])]]
            if inp.get("axis_aligned"):  # exact quarter / half turns keep the tree parallel to an axis
                q = math.pi / 2
                steps = [[["rotz", q, "origin"]], [["rotx", -q, "root"], ["roty", 2 * q, "origin"]], [["roty", q, "root"], ["translate", [3.0, -2.0, 1.0]]],
                         [["rotz", -q, "root"], ["rotx", q, "origin"]], [["roty", -q, "origin"]]][k % 5]
            spec = dict(base, relation="motion", steps=steps)
            res = check_relation(rep, spec, notes)
            skipped += res == "skipped"
            ctx.case("motion", dict(pid=pid, steps=spec["steps"], xyz0=base["xyz"][0] if n > 5 else None, n=n), nontrivial=n >= 2 and res != "skipped")
        for k in range(n_renum):
            sigma = random_sigma(rng, pid, topological=(k % 2 == 0))
            spec = dict(base, relation="renumber", sigma=sigma, sorted_after=(k % 2 == 0))
            check_relation(rep, spec, notes)
            ctx.case("renumber", dict(pid=pid, sigma=sigma, xyz1=base["xyz"][-1] if n > 5 else None), nontrivial=sigma != list(range(n)))
        for s, center in ((2.0, "root"), (0.37, "origin"), (round(rng.uniform(0.1, 10), 3), "root")):
            spec = dict(base, relation="scale", s=s, center=center)
            check_relation(rep, spec, notes)
            ctx.case("scale", dict(pid=pid, s=s, center=center, xyz1=base["xyz"][-1] if n > 5 else None), nontrivial=n >= 2)
    for s in sorted(notes):
        ctx.notes.append(s)
    if skipped:
        ctx.notes.append(f"{skipped} motions containing Rotate(n, theta) were skipped")
    if rep.count:
        ctx.notes.append(f"{rep.count} failing clause evaluations in total; at most 3 reported per (carrier, clause), smallest trees first")
    ctx.notes.append("Sholl profiles are compared at the fixed absolute radii 0.25+0.5k that stay clear (1e-3) of every node's distance to the root; angles are compared in the cosine; "
                     "list-valued features as multisets; per-node L-Measure values on all nodes (<= 12 nodes) or 8 tracked probe nodes")
    ctx.rule("every sorted parent table with <= 5 nodes (walk coordinates) + seeded random trees of 10-40 nodes (half of them binary) + collinear chains / two-armed roots; each under "
             "%d random rigid motions (2-4 steps of RotateX/Y/Z about origin or root, Translate, and Rotate(n, theta) in every second motion), %d renumberings fixing the root "
             "(alternately parents-first and arbitrary), 3 uniform scalings with radii scaled as well; ~40 feature vectors per tree. Non-trivial = at least one edge / a "
             "non-identity renumbering.  Plus trees on a 1/16 grid with short compartments (lattice lines in 7 directions with radii tapering both ways, and small arbitrary trees): "
             "the same relations and 3 exact translations 4e4..1e6 long each (all coordinates stay representable in float32), volume at level 3 on all of them" % (n_motion, n_renum), exhaustive=False)


def replay(spec):
    class C:
        def __init__(self):
            self.violations = []

        def violation(self, *a, **k):
            self.violations.append(a)

    c = C()
    spec = {k: v for k, v in spec.items() if k != "feature"}
    check_relation(Rep(c, cap=10 ** 9), spec)
    for v in c.violations:
        print("  still failing:", v[:2], v[3:5])
    return not c.violations
