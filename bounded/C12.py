"""C12 bounded stand-in: Translate / Scale / Rotate* apply the stated affine map about the
stated centre.  Expected positions come from hand-written formulas (component-wise scaling,
the three axis rotations written out, Rodrigues' vector formula), never from the library's
matrix builders."""
from __future__ import annotations

import math
import random

import numpy as np

from .common import all_sorted_tables_upto, coords_for, make_tree, random_sorted_table

ATOL, RTOL = 1e-4, 1e-4


# ------------------------------------------------------------------------------ oracle
def f_linear(op, args, q):
    """The linear part of the stated map applied to the offset q (float64, shape (3,))."""
    x, y, z = float(q[0]), float(q[1]), float(q[2])
    if op == "translate":
        return np.array([x, y, z])
    if op == "scale":
        return np.array([args[0] * x, args[1] * y, args[2] * z])
    if op in ("rotx", "roty", "rotz"):
        c, s = math.cos(args[0]), math.sin(args[0])
        if op == "rotz":  # right-handed: e_x -> e_y at +pi/2
            return np.array([c * x - s * y, s * x + c * y, z])
        if op == "rotx":  # e_y -> e_z
            return np.array([x, c * y - s * z, s * y + c * z])
        return np.array([c * x + s * z, y, -s * x + c * z])  # e_z -> e_x
    if op == "rotate":  # Rodrigues: c p + (1-c)(n.p) n + s (n x p)
        n, th = args[0], args[1]
        c, s = math.cos(th), math.sin(th)
        nd = n[0] * x + n[1] * y + n[2] * z
        cr = (n[1] * z - n[2] * y, n[2] * x - n[0] * z, n[0] * y - n[1] * x)
        return np.array([c * x + (1 - c) * nd * n[0] + s * cr[0], c * y + (1 - c) * nd * n[1] + s * cr[1], c * z + (1 - c) * nd * n[2] + s * cr[2]])
    raise ValueError(op)


def inverse_of(op, args):
    if op == "translate":
        return op, [-a for a in args]
    if op == "scale":
        return op, [1.0 / a for a in args]
    if op == "rotate":
        return op, [args[0], -args[1]]
    return op, [-args[0]]


def build(op, args, center):
    from swcgeom.transforms import Rotate, RotateX, RotateY, RotateZ, Scale, Translate

    kw = {} if center == "default" else dict(center=center)
    if op == "translate":
        return Translate(*args, **kw)
    if op == "scale":
        return Scale(*args, **kw)
    if op == "rotate":
        return Rotate(np.array(args[0], dtype=np.float64), args[1], **kw)
    return {"rotx": RotateX, "roty": RotateY, "rotz": RotateZ}[op](args[0], **kw)


CARRIER = {"translate": "Translate", "scale": "Scale", "rotate": "Rotate", "rotx": "RotateX", "roty": "RotateY", "rotz": "RotateZ"}


def effective_center(op, center):
    if center == "default":
        return "origin" if op == "translate" else "root"
    return "root" if center in ("root", "soma") else "origin"


def near(a, b):
    a, b = np.asarray(a, dtype=np.float64), np.asarray(b, dtype=np.float64)
    return a.shape == b.shape and bool(np.all(np.abs(a - b) <= ATOL + RTOL * np.abs(b)))


def pairwise(xyz):
    n = len(xyz)
    return np.array([[math.dist(xyz[i], xyz[j]) for j in range(n)] for i in range(n)])


class Rep:
    def __init__(self, ctx, cap=3):
        self.ctx, self.cap, self.seen, self.count = ctx, cap, {}, 0

    def v(self, carrier, clause, spec, observed, expected):
        self.count += 1
        k = (carrier, clause)
        self.seen[k] = self.seen.get(k, 0) + 1
        if self.seen[k] <= self.cap:
            self.ctx.violation(carrier, clause, spec, _js(observed), _js(expected), spec)


def _js(x):
    if isinstance(x, np.ndarray):
        return [[round(float(v), 5) for v in row] for row in x] if x.ndim == 2 else [round(float(v), 5) for v in x.ravel()]
    if isinstance(x, dict):
        return {k: _js(v) for k, v in x.items()}
    return x


def frame_ok(t0, t1):
    for k in ("id", "pid", "type", "r"):
        a, b = t0.get_ndata(k), t1.get_ndata(k)
        if a.dtype != b.dtype or not np.array_equal(a, b):
            return False, k
    return True, ""


# ------------------------------------------------------------------------------- checks
def check_transform(rep, spec):
    """spec: pid, xyz, op, args, center."""
    pid, op, args, center = spec["pid"], spec["op"], spec["args"], spec["center"]
    car = CARRIER[op]
    t = make_tree(pid, np.array(spec["xyz"]))
    p0 = t.xyz().astype(np.float64)
    root = p0[0]
    try:
        out = build(op, args, center)(t)
    except Exception as e:
        rep.v(car, "operation-raises", spec, f"{type(e).__name__}: {e}", "no exception")
        return
    p1 = out.xyz().astype(np.float64)
    eff = effective_center(op, center)
    ok, col = frame_ok(t, out)
    if not ok or out.number_of_nodes() != t.number_of_nodes():
        rep.v(car, "topology-and-radii-untouched", spec, f"column {col} changed", "id, pid, type, r identical")
    if not np.array_equal(t.xyz().astype(np.float64), p0):
        rep.v(car, "topology-and-radii-untouched", spec, "input tree coordinates modified", "input untouched")
    pos_clause = {"translate": "translate-by-t", "scale": "scale-about-origin", "rotate": "rotation-rodrigues"}.get(op, "rotation-right-handed")
    if op == "translate":
        want = p0 + np.array(args, dtype=np.float64)
        if not near(p1, want):
            rep.v(car, "translate-by-t", spec, p1, want)
    elif eff == "origin":
        want = np.array([f_linear(op, args, q) for q in p0])
        if not near(p1, want):
            rep.v(car, pos_clause, spec, p1, want)
    else:
        if not near(p1[0], root):
            rep.v(car, "centre-fixed", spec, dict(root_after=p1[0]), dict(root_after=root))
        want = np.array([f_linear(op, args, q - root) for q in p0])
        off_clause = "root-relative-offsets-scaled" if op == "scale" else pos_clause
        if not near(p1 - p1[0], want):
            rep.v(car, off_clause, spec, dict(offsets_from_root=p1 - p1[0]), dict(offsets_from_root=want))
    if op in ("rotate", "rotx", "roty", "rotz") and not near(pairwise(p1), pairwise(p0)):
        rep.v(car, "distances-preserved", spec, pairwise(p1), pairwise(p0))
    iop, iargs = inverse_of(op, args)
    try:
        back = build(iop, iargs, center)(out)
        if not near(back.xyz(), p0):
            rep.v(car, "inverse-restores", spec, back.xyz().astype(np.float64), p0)
        ok, col = frame_ok(t, back)
        if not ok:
            rep.v(car, "topology-and-radii-untouched", spec, f"column {col} changed after round trip", "identical")
    except Exception as e:
        rep.v(car, "operation-raises", dict(spec, step="inverse"), f"{type(e).__name__}: {e}", "no exception")


def check_origin(rep, spec):
    from swcgeom.transforms import TranslateOrigin

    t = make_tree(spec["pid"], np.array(spec["xyz"]))
    p0 = t.xyz().astype(np.float64)
    for how in ("call", "transform"):
        try:
            out = TranslateOrigin()(t) if how == "call" else TranslateOrigin.transform(t)
        except Exception as e:
            rep.v("TranslateOrigin", "operation-raises", spec, f"{type(e).__name__}: {e}", "no exception")
            continue
        p1 = out.xyz().astype(np.float64)
        if not near(p1, p0 - p0[0]) or not np.all(np.abs(p1[0]) <= ATOL):
            rep.v("TranslateOrigin", "root-moved-to-origin", spec, p1, p0 - p0[0])
        ok, col = frame_ok(t, out)
        if not ok:
            rep.v("TranslateOrigin", "topology-and-radii-untouched", spec, f"column {col} changed", "identical")


def check_affine(rep, spec):
    """AffineTransform with an arbitrary linear matrix (shear) about either centre, and the
    homogeneous divide: the matrix 2*I_4 denotes the identity map."""
    from swcgeom.transforms import AffineTransform

    t = make_tree(spec["pid"], np.array(spec["xyz"]))
    p0 = t.xyz().astype(np.float64)
    A = np.array(spec["A"], dtype=np.float64)
    tm = np.eye(4, dtype=np.float32)
    tm[:3, :3] = A
    for center in ("origin", "root"):
        sp = dict(spec, center=center)
        try:
            out = AffineTransform(tm, center=center)(t)
        except Exception as e:
            rep.v("AffineTransform", "operation-raises", sp, f"{type(e).__name__}: {e}", "no exception")
            continue
        p1 = out.xyz().astype(np.float64)
        c0 = p0[0] if center == "root" else np.zeros(3)
        want = np.array([[sum(A[i, j] * (q[j] - c0[j]) for j in range(3)) for i in range(3)] for q in p0])
        if center == "root" and not near(p1[0], p0[0]):
            rep.v("AffineTransform", "centre-fixed", sp, dict(root_after=p1[0]), dict(root_after=p0[0]))
        got = p1 - (p1[0] if center == "root" else 0)
        want_rel = want - (want[0] if center == "root" else 0)
        if not near(got, want_rel):
            rep.v("AffineTransform", "linear-map-about-centre", sp, got, want_rel)
        ok, col = frame_ok(t, out)
        if not ok:
            rep.v("AffineTransform", "topology-and-radii-untouched", sp, f"column {col} changed", "identical")
    try:
        out = AffineTransform.apply(t, 2 * np.eye(4, dtype=np.float32))
        if not near(out.xyz(), p0):
            rep.v("AffineTransform.apply", "homogeneous-divide", spec, out.xyz().astype(np.float64), p0)
    except Exception as e:
        rep.v("AffineTransform.apply", "operation-raises", spec, f"{type(e).__name__}: {e}", "no exception")


PTS = [(1.0, 0.0, 0.0), (0.0, 1.0, 0.0), (0.0, 0.0, 1.0), (1.0, 2.0, 3.0), (-0.5, 4.0, 2.25), (0.0, 0.0, 0.0)]
BUILDER_OP = {"scale3d": "scale", "translate3d": "translate", "rotate3d": "rotate", "rotate3d_x": "rotx", "rotate3d_y": "roty", "rotate3d_z": "rotz"}


def check_builder(rep, spec):
    import swcgeom.utils.transforms as T

    name, args = spec["name"], spec["args"]
    car = "utils." + name
    if name == "to_homogeneous":
        for w in (0.0, 1.0):
            for arr in (np.array(PTS[3]), np.array(PTS), np.array([PTS[:3], PTS[3:]])):
                try:
                    got = T.to_homogeneous(arr, w)
                except Exception as e:
                    rep.v(car, "operation-raises", spec, f"{type(e).__name__}: {e}", "no exception")
                    continue
                if got.shape != arr.shape[:-1] + (4,) or not np.array_equal(got[..., :3], arr) or not np.all(got[..., 3] == w):
                    rep.v(car, "builder-shape-and-action", dict(spec, w=w, shape=list(arr.shape)), got, "xyz kept, w appended")
        return
    op = BUILDER_OP[name]
    try:
        M = getattr(T, name)(np.array(args[0], dtype=np.float64), args[1]) if name == "rotate3d" else getattr(T, name)(*args)
    except Exception as e:
        rep.v(car, "operation-raises", spec, f"{type(e).__name__}: {e}", "no exception")
        return
    M = np.asarray(M)
    if M.shape != (4, 4):
        rep.v(car, "builder-shape-and-action", spec, dict(shape=list(M.shape)), dict(shape=[4, 4]))
        return
    M = M.astype(np.float64)
    if not near(M[3], [0, 0, 0, 1]):
        rep.v(car, "builder-shape-and-action", spec, dict(last_row=M[3]), dict(last_row=[0, 0, 0, 1]))
    for p in PTS:
        got = M @ np.array([p[0], p[1], p[2], 1.0])
        want = f_linear(op, args, np.array(p)) + (np.array(args) if op == "translate" else 0)
        if not near(got, np.append(want, 1.0)):
            rep.v(car, "builder-shape-and-action", dict(spec, point=list(p)), got, np.append(want, 1.0))
            break
        gv = M @ np.array([p[0], p[1], p[2], 0.0])  # directions (w = 0) are not translated
        if not near(gv, np.append(f_linear(op, args, np.array(p)), 0.0)):
            rep.v(car, "builder-shape-and-action", dict(spec, direction=list(p)), gv, np.append(f_linear(op, args, np.array(p)), 0.0))
            break
    if op.startswith("rot") and not near(M[:3, :3] @ M[:3, :3].T, np.eye(3)):
        rep.v(car, "distances-preserved", spec, M[:3, :3] @ M[:3, :3].T, np.eye(3))
    # literal right-hand-rule facts at a quarter turn
    quarter = {"rotate3d_z": ((1, 0, 0), (0, 1, 0)), "rotate3d_x": ((0, 1, 0), (0, 0, 1)), "rotate3d_y": ((0, 0, 1), (1, 0, 0))}
    if name in quarter and abs(args[0] - math.pi / 2) < 1e-12:
        a, b = quarter[name]
        if not near(M @ np.array(a + (1.0,)), np.array(b + (1.0,))):
            rep.v(car, "rotation-right-handed", spec, M @ np.array(a + (1.0,)), b + (1.0,))


# -------------------------------------------------------------------------- enumeration
THETAS = [math.pi / 2, math.pi / 3, -0.7, 4.0, math.pi, 2 * math.pi - 0.3, 2.5, 0.0, -5.0]  # incl. angles outside [-pi, pi]
AXES = [(1.0, 0.0, 0.0), (0.0, 1.0, 0.0), (0.0, 0.0, 1.0), (1 / math.sqrt(3),) * 3, (1 / 3, 2 / 3, 2 / 3), (0.0, -0.6, 0.8)]
TRANSLATIONS = [(0.0, 0.0, 0.0), (1.0, -2.0, 0.5), (-3.25, 4.0, 10.0)]
SCALES = [(2.0, 2.0, 2.0), (0.5, 3.0, 1.0), (1.0, 1.0, 1.0), (1.5, 0.25, 4.0)]
SHEARS = [[[1, 0.5, 0], [0, 1, 0], [0.25, 0, 2]], [[0, -1, 0], [1, 0, 0], [0, 0, 1]]]


def transform_params(rng, extra):
    out = [("translate", list(t)) for t in TRANSLATIONS] + [("scale", list(s)) for s in SCALES]
    out += [(op, [th]) for op in ("rotx", "roty", "rotz") for th in THETAS]
    out += [("rotate", [list(n), th]) for n in AXES for th in THETAS[:6]]
    for _ in range(extra):
        v = np.array([rng.gauss(0, 1) for _ in range(3)])
        v /= np.linalg.norm(v)
        out.append(("rotate", [[float(a) for a in v], rng.uniform(-7.0, 7.0)]))
        out.append((rng.choice(["rotx", "roty", "rotz"]), [rng.uniform(-7.0, 7.0)]))
        out.append(("scale", [rng.uniform(0.2, 5) for _ in range(3)]))
        out.append(("translate", [rng.uniform(-20, 20) for _ in range(3)]))
    return out


def tree_inputs(tier, rng):
    for pid in all_sorted_tables_upto(4):
        yield list(pid), coords_for(pid)  # walk mode: the root sits at (1, 2, 3)
    for _ in range(4 if tier == "quick" else 40):
        pid = random_sorted_table(rng, rng.randint(5, 9))
        yield list(pid), coords_for(pid, rng=rng)


def run(ctx):
    rep = Rep(ctx)
    rng = random.Random(ctx.seed)
    params = transform_params(rng, 3 if ctx.tier == "quick" else 30)
    for pid, xyz in tree_inputs(ctx.tier, rng):
        xyz = [[float(a) for a in row] for row in np.asarray(xyz, dtype=np.float32)]
        for op, args in params:
            for center in (("origin", "root", "default") if op != "translate" else ("default", "root")) + (("soma",) if op in ("scale", "rotz") else ()):
                spec = dict(kind="transform", pid=pid, xyz=xyz, op=op, args=args, center=center)
                check_transform(rep, spec)
                ctx.case("transform", spec, nontrivial=not (op == "translate" and not any(args)))
        spec = dict(kind="origin", pid=pid, xyz=xyz)
        check_origin(rep, spec)
        ctx.case("origin", spec)
        for A in SHEARS:
            spec = dict(kind="affine", pid=pid, xyz=xyz, A=A)
            check_affine(rep, spec)
            ctx.case("affine", spec)
    builders = [("scale3d", list(s)) for s in SCALES] + [("translate3d", list(t)) for t in TRANSLATIONS]
    builders += [(n, [th]) for n in ("rotate3d_x", "rotate3d_y", "rotate3d_z") for th in THETAS]
    builders += [("rotate3d", [list(n), th]) for n in AXES for th in THETAS[:6]] + [("to_homogeneous", [])]
    for name, args in builders:
        spec = dict(kind="builder", name=name, args=args)
        check_builder(rep, spec)
        ctx.case("builder", spec)
    if rep.count:
        ctx.notes.append(f"{rep.count} failing clause evaluations in total; at most 3 reported per (carrier, clause), smallest trees first")
    ctx.notes.append("root-centred transforms are judged by two separate clauses: 'centre-fixed' (the root does not move) and the offsets from the (new) root position "
                     "(root-relative-offsets-scaled / rotation-right-handed / rotation-rodrigues), so that a wrong centre and a wrong linear part are told apart")
    ctx.rule("every sorted parent table with <= 4 nodes (walk coordinates, root at (1,2,3), never at the origin) plus seeded random trees of 5-9 nodes x "
             "{Translate, Scale, RotateX/Y/Z, Rotate(n, theta)} x parameter grid (3 offsets, 4 scale triples, 9 angles incl. |theta| > pi, 6 unit axes, seeded random extras) x centre modes "
             "{origin, root, soma, default}; TranslateOrigin; AffineTransform with shear matrices and the homogeneous divide; the matrix builders on 6 points. "
             "Non-trivial = not the zero translation", exhaustive=False)


def replay(spec):
    class C:
        def __init__(self):
            self.violations = []

        def violation(self, *a, **k):
            self.violations.append(a)

    c = C()
    rep = Rep(c, cap=10 ** 9)
    {"transform": check_transform, "origin": check_origin, "affine": check_affine, "builder": check_builder}[spec["kind"]](rep, spec)
    for v in c.violations:
        print("  still failing:", v[:2], v[3:5])
    return not c.violations
