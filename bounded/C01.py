"""C01 bounded stand-in: SWC write -> read round trip on the real library.

Every case writes a well-formed tree with ``Tree.to_swc`` (string or file), reads the
written rows with str.split (row formatter: id/pid shifted, root pid kept at -1; a clause
the text itself violates is charged to ``to_swc`` and not again to the reader), reads the
text back with ``Tree.from_swc`` (path / StringIO / BytesIO) and compares with the
property's own right-hand side: same node count, same parent table, same types,
x/y/z/r == float32(float(format(v, '.4f'))), comments back in order with the same
text (leading blanks aside) and nothing added but the optional source header.
"""
from __future__ import annotations

import io
import itertools
import json
import os
import random
import re
import shutil

import numpy as np

from .common import MAG_COORDS, MAG_IDS, MAG_RADII, MAG_TYPES, make_tree, random_sorted_table, scratch_dir, sorted_parent_tables

COMMENT_POOL = ["", " ", "x", "  x ", "# x", "id type", "a b"]
HEADER_COLS = "id type x y z r pid"
# comments that look like what the writer itself puts on the page (its source header, its column header, its '#' marker, a data row)
# and comments with inner / trailing blanks: generic "a file that was written by this library before" texts
WRITER_LIKE = ["source: x", " source: /data/n 1.swc", "source:", "Source: x", HEADER_COLS, " " + HEADER_COLS + " e", HEADER_COLS + "x", "# " + HEADER_COLS,
               "#", "##", "# source: y", "1 1 0.0000 0.0000 0.0000 1.0000 -1", "\tx\t", "x # y"]
FULL_POOL = COMMENT_POOL + WRITER_LIKE
OFFSETS = [0, 1, 2, 7, 10**6]
READ_SRC = ["path", "text", "bytes"]
WRITE_VIA = ["string", "file"]
TYPE_POOL = [0, 1, 2, 3, 4, 5, 6, 7, 11, 255] + [t for t in MAG_TYPES if t not in (0, 7, 255)]  # magnitudes: bounded/common.py
CORNERS_QUICK = [0.0, -0.0, 1e-5, -1e-5, 0.00005, -0.00005, 0.00015, 123456.789, -123456.789, 1.0, -2.5, 0.12345, 9999.99995, 16777216.0, 0.99996] + MAG_COORDS + MAG_RADII
CORNERS_THOROUGH = CORNERS_QUICK + [1e30, -1e30, 3.4028234e38, 1e-30, 33554432.5, 0.30000001]
SOURCE_OPTS = [False, True, "custom.swc"]
# comments that start like the writer's column header (plain, with extra columns, with a suffix, with leading blanks, upper case = not header-like for the reader)
HEADER_LIKES = [HEADER_COLS, HEADER_COLS + " e f", HEADER_COLS + "x and more", "  " + HEADER_COLS, HEADER_COLS + " "]
HEADER_LIKE = "a-comment-that-starts-like-the-column-header-comes-back"  # own clause of the comment part (a defect repaired in parse_swc, see known_findings.jsonl `fixed:`)


# ---------------------------------------------------------------- reporting

class Reporter:
    """Buffers violations so that only the few smallest per (carrier, clause) are emitted."""

    def __init__(self):
        self.items = {}
        self.counts = {}

    def add(self, carrier, clause, spec, observed, expected):
        key = (carrier, clause)
        self.counts[key] = self.counts.get(key, 0) + 1
        size = (len(spec["pid"]), len(spec.get("comments") or []), bool(spec.get("source")), len(json.dumps(spec, default=str)))
        self.items.setdefault(key, []).append((size, json.dumps(spec, sort_keys=True, default=str), spec, observed, expected))

    def flush(self, ctx, keep=3):
        for key in sorted(self.items):
            seen = set()
            emitted = 0
            for size, js, spec, observed, expected in sorted(self.items[key], key=lambda x: (x[0], x[1])):
                if js in seen:
                    continue
                seen.add(js)
                ctx.violation(key[0], key[1], spec, observed, expected, spec)
                emitted += 1
                if emitted >= keep:
                    break
            ctx.notes.append(f"{key[0]} / {key[1]}: {self.counts[key]} failing evaluations in this run ({emitted} reported)")


# ---------------------------------------------------------------- oracle pieces

def _fmt4(v):
    """float32 element -> the value the 4-decimal text carries, as float32."""
    return np.float32(float(format(float(np.float32(v)), ".4f")))


def _is_subsequence(want, got):
    it = iter(got)
    return all(any(w == g for g in it) for w in want)


def _multiset_extra(got, want):
    rest = list(want)
    extra = []
    for g in got:
        if g in rest:
            rest.remove(g)
        else:
            extra.append(g)
    return extra


def _expected_header(spec):
    src = spec.get("source", False)
    if src is False:
        return []
    if isinstance(src, str):
        return [f"source: {src}", ""]
    return [f"source: {spec.get('tree_source') or 'Unknown'}", ""]


def _expected_body(spec):
    if not spec.get("comments_flag", True):
        return []
    return [c.lstrip() for c in (spec.get("comments") or [])]


def _check_written_text(rep, spec, text):
    """Writer-side clause: one newline-terminated '#' line per comment, then the column
    header, then exactly n rows.  (Independent reading of the text: str.split only.)"""
    want = _expected_header(spec) + _expected_body(spec)
    lines = text.split("\n")
    ok_end = text.endswith("\n")
    head = []
    k = 0
    while k < len(lines) and lines[k].lstrip().startswith("#"):
        head.append(lines[k].lstrip()[1:].lstrip())
        k += 1
    # the writer's column header is the last '#' line; everything before it is one line per comment
    body = head[:-1] if head and head[-1] == HEADER_COLS else head
    if body != want or not ok_end:
        rep.add("to_swc", "one-line-per-comment", spec, dict(comment_lines=body, ends_with_newline=ok_end, head=text[:120]), dict(comment_lines=want))
        return False
    return True


def _check_written_rows(rep, spec, text, x32):
    """Writer-side reading of the data rows (str.split + int/float only): row i must say
    id = i+off, parent = -1 for the root else p+off, the type, and the 4-decimal floats.
    Returns the set of round-trip clauses already violated by the text itself."""
    pid, types, off = list(spec["pid"]), list(spec["type"]), spec["off"]
    n = len(pid)
    rows = [ln.split() for ln in text.split("\n") if ln.strip() and not ln.lstrip().startswith("#")]
    bad = set()
    if len(rows) != n or any(len(r) != 7 for r in rows):
        rep.add("to_swc", "node-count", spec, f"{len(rows)} data lines with {sorted(set(len(r) for r in rows))} fields", f"{n} data lines with 7 fields")
        return {"node-count", "parents", "types", "coordinates-4-decimals"}
    try:
        got_id, got_pid, got_t = [int(r[0]) for r in rows], [int(r[6]) for r in rows], [int(r[1]) for r in rows]
        got_f = {k: [np.float32(float(r[2 + j])) for r in rows] for j, k in enumerate(("x", "y", "z", "r"))}
    except ValueError as e:
        rep.add("to_swc", "node-count", spec, f"non-numeric field in the data lines: {e}", "7 numeric fields per line")
        return {"node-count", "parents", "types", "coordinates-4-decimals"}
    want_id = [i + off for i in range(n)]
    want_pid = [-1 if p == -1 else p + off for p in pid]
    if got_id != want_id or got_pid != want_pid:
        rep.add("to_swc", "parents", spec, dict(id=got_id, pid=got_pid), dict(id=want_id, pid=want_pid))
        bad.add("parents")
    if got_t != [int(v) for v in types]:
        rep.add("to_swc", "types", spec, got_t, types)
        bad.add("types")
    for k in ("x", "y", "z", "r"):
        want = [_fmt4(v) for v in x32[k]]
        if not np.array_equal(np.array(got_f[k], dtype=np.float32), np.array(want, dtype=np.float32)):
            rep.add("to_swc", "coordinates-4-decimals", spec, {k: [repr(float(v)) for v in got_f[k]]}, {k: [repr(float(v)) for v in want]})
            bad.add("coordinates-4-decimals")
            break
    return bad


# ---------------------------------------------------------------- one round trip

def check_roundtrip(rep, spec, base):
    """spec: pid, type, xyz, r, off, via ('string'|'file'), src ('path'|'text'|'bytes'),
    source (False|True|str), comments (list), comments_flag (bool), tree_source (str)."""
    from swcgeom.core import Tree

    pid = list(spec["pid"])
    n = len(pid)
    xyz = np.array(spec["xyz"], dtype=np.float64).reshape(n, 3)
    r = np.array(spec["r"], dtype=np.float64)
    types = list(spec["type"])
    off = spec["off"]
    extra = {}
    if spec.get("comments") is not None:
        extra["comments"] = list(spec["comments"])
    if spec.get("tree_source"):
        extra["source"] = spec["tree_source"]
    t = make_tree(pid, xyz, r, types, **extra)
    x32 = {k: np.array(t.get_ndata(k), copy=True) for k in ("x", "y", "z", "r")}

    fname = os.path.join(base, "rt.swc")
    kw = dict(source=spec.get("source", False), comments=spec.get("comments_flag", True), id_offset=off)
    try:
        if spec["via"] == "file":
            ret = t.to_swc(fname, **kw)
            with open(fname, "rb") as f:
                raw = f.read()
            text = raw.decode("utf-8")
            if ret is not None:
                rep.add("SWCLike.to_swc", "operation-raises", spec, f"to_swc(fname) returned {ret!r}", "None")
        else:
            text = t.to_swc(**kw)
            if not isinstance(text, str):
                rep.add("SWCLike.to_swc", "operation-raises", spec, f"to_swc() returned {type(text).__name__}", "str")
                return
    except Exception as e:
        rep.add("SWCLike.to_swc", "operation-raises", spec, f"{type(e).__name__}: {e}", "no exception")
        return

    # history clause (C01: "nothing is added to them but the writer's optional source header" must also hold for the
    # SECOND export of the same tree object): exporting leaves the tree's own comment list as it was, and writing again
    # with the same options yields the same text
    if list(t.comments) != list(spec.get("comments") or []):
        rep.add("SWCLike.to_swc", "export-leaves-the-tree-comments-untouched", spec, list(t.comments), list(spec.get("comments") or []))
    try:
        again = t.to_swc(**kw)
        if again != text:
            rep.add("SWCLike.to_swc", "second-export-writes-the-same-text", spec, again[:200], text[:200])
    except Exception as e:
        rep.add("SWCLike.to_swc", "operation-raises", spec, f"second export: {type(e).__name__}: {e}", "no exception")

    text_ok = _check_written_text(rep, spec, text)
    text_bad = _check_written_rows(rep, spec, text, x32)  # clauses the text itself already violates (charged to the writer)

    try:
        if spec["src"] == "path":
            if spec["via"] != "file":
                with open(fname, "w", encoding="utf-8", newline="") as f:
                    f.write(text)
            t2 = Tree.from_swc(fname)
        elif spec["src"] == "text":
            t2 = Tree.from_swc(io.StringIO(text))
        else:
            t2 = Tree.from_swc(io.BytesIO(text.encode("utf-8")))
    except Exception as e:
        cause = e.__cause__
        msg = re.sub(r" at 0x[0-9a-fA-F]+", "", f"{type(e).__name__}: {e} (cause: {type(cause).__name__}: {cause})").replace(base, "<scratch>")
        if not text_bad:
            rep.add("Tree.from_swc", "operation-raises", spec, msg, "no exception")
        return

    # node-count
    n2 = t2.number_of_nodes()
    if n2 != n or any(len(t2.get_ndata(k)) != n for k in ("id", "type", "x", "y", "z", "r", "pid")):
        if "node-count" not in text_bad:
            rep.add("Tree.from_swc", "node-count", spec, n2, n)
        return
    # parents (ids are positions again, parent of every node unchanged)
    got_id, got_pid = [int(v) for v in t2.id()], [int(v) for v in t2.pid()]
    if (got_id != list(range(n)) or got_pid != pid) and "parents" not in text_bad:
        rep.add("Tree.from_swc", "parents", spec, dict(id=got_id, pid=got_pid), dict(id=list(range(n)), pid=pid))
    # types
    got_t = [int(v) for v in t2.type()]
    if got_t != [int(v) for v in types] and "types" not in text_bad:
        rep.add("Tree.from_swc", "types", spec, got_t, types)
    # coordinates-4-decimals
    for k in (("x", "y", "z", "r") if "coordinates-4-decimals" not in text_bad else ()):
        want = np.array([_fmt4(v) for v in x32[k]], dtype=np.float32)
        got = np.asarray(t2.get_ndata(k))
        if got.dtype != np.float32 or not np.array_equal(got, want):
            rep.add("Tree.from_swc", "coordinates-4-decimals", spec, {k: [repr(float(v)) for v in got], "dtype": str(got.dtype)}, {k: [repr(float(v)) for v in want]})
            break
    # comments
    want_c = _expected_header(spec) + _expected_body(spec)
    got_c = [c.lstrip() for c in t2.comments]
    carrier = "parse_swc" if text_ok else "to_swc"  # the written text was as specified => the reader is responsible
    _charge_comments(rep, carrier, spec, got_c, want_c)


def _charge_comments(rep, carrier, spec, got_c, want_c):
    """the comment clause of the property: the comments read back are exactly `want_c`, in order.  The comments that start like the writer's
    column header have a clause of their own on top of the general ones (they come back, as often and in the order they were written: only the
    ONE header line the writer itself puts in front of the rows is not a comment of the file)."""
    if got_c == want_c:
        return
    if not _is_subsequence(header_like_of(want_c), header_like_of(got_c)):  # one of them did not come back
        rep.add("parse_swc", HEADER_LIKE, spec, got_c, want_c)
    if not _is_subsequence(want_c, got_c):
        rep.add(carrier, "comments-in-order", spec, got_c, want_c)
    extra_c = _multiset_extra(got_c, want_c)
    if extra_c:
        rep.add(carrier, "nothing-added-to-comments", spec, dict(read_back=got_c, added=extra_c), dict(read_back=want_c))
    if _is_subsequence(want_c, got_c) and not extra_c:
        rep.add(carrier, "comments-in-order", spec, got_c, want_c)  # same multiset, another order


def header_like_of(comments):
    return [c for c in comments if c.startswith(HEADER_COLS)]


# ---------------------------------------------------------------- histories: write, read, write again, read

def check_history(rep, spec, base):
    """spec: pid, type, xyz, r, comments, tree_source, steps = [dict(source, off, via, src, comments_flag), ...].
    Generation g+1 is what Tree.from_swc reads from what generation g's tree wrote; after EVERY generation the property's right-hand side
    is evaluated against the tree that was written in that generation (node count, parents, types, four-decimal floats, and the comments:
    the optional source header of THIS export, then every comment the written tree carried, in order, leading blanks aside)."""
    from swcgeom.core import Tree

    pid = list(spec["pid"])
    n = len(pid)
    extra = dict(comments=list(spec["comments"]))
    if spec.get("tree_source"):
        extra["source"] = spec["tree_source"]
    t = make_tree(pid, np.array(spec["xyz"], dtype=np.float64).reshape(n, 3), np.array(spec["r"], dtype=np.float64), list(spec["type"]), **extra)
    fname = os.path.join(base, "hist.swc")
    for g, st in enumerate(spec["steps"]):
        gen = f"generation-{g + 1}"
        carried = [c.lstrip() for c in t.comments] if st.get("comments_flag", True) else []
        src_opt = st["source"]
        head = [] if src_opt is False else [f"source: {src_opt if isinstance(src_opt, str) else (t.source or 'Unknown')}", ""]
        want_c = head + carried
        x32 = {k: np.array(t.get_ndata(k), copy=True) for k in ("x", "y", "z", "r")}
        want_pid, want_t = [int(v) for v in t.pid()], [int(v) for v in t.type()]
        kw = dict(source=src_opt, comments=st.get("comments_flag", True), id_offset=st["off"])
        try:
            if st["via"] == "file":
                t.to_swc(fname, **kw)
                with open(fname, "rb") as f:
                    text = f.read().decode("utf-8")
            else:
                text = t.to_swc(**kw)
            if st["src"] == "path":
                if st["via"] != "file":
                    with open(fname, "w", encoding="utf-8", newline="") as f:
                        f.write(text)
                t2 = Tree.from_swc(fname)
            elif st["src"] == "text":
                t2 = Tree.from_swc(io.StringIO(text))
            else:
                t2 = Tree.from_swc(io.BytesIO(text.encode("utf-8")))
        except Exception as e:
            msg = re.sub(r" at 0x[0-9a-fA-F]+", "", f"{type(e).__name__}: {e} (cause: {type(e.__cause__).__name__}: {e.__cause__})").replace(base, "<scratch>")
            rep.add("Tree.from_swc", f"history/{gen}/operation-raises", spec, msg, "no exception")
            return
        if t2.number_of_nodes() != n:
            rep.add("Tree.from_swc", f"history/{gen}/node-count", spec, t2.number_of_nodes(), n)
            return
        if [int(v) for v in t2.id()] != list(range(n)) or [int(v) for v in t2.pid()] != want_pid:
            rep.add("Tree.from_swc", f"history/{gen}/parents", spec, dict(id=[int(v) for v in t2.id()], pid=[int(v) for v in t2.pid()]), dict(id=list(range(n)), pid=want_pid))
        if [int(v) for v in t2.type()] != want_t:
            rep.add("Tree.from_swc", f"history/{gen}/types", spec, [int(v) for v in t2.type()], want_t)
        for k in ("x", "y", "z", "r"):
            want = np.array([_fmt4(v) for v in x32[k]], dtype=np.float32)
            if not np.array_equal(np.asarray(t2.get_ndata(k)), want):
                rep.add("Tree.from_swc", f"history/{gen}/coordinates-4-decimals", spec, {k: [repr(float(v)) for v in t2.get_ndata(k)]}, {k: [repr(float(v)) for v in want]})
                break
        got_c = [c.lstrip() for c in t2.comments]
        if got_c != want_c:
            if not _is_subsequence(header_like_of(want_c), header_like_of(got_c)):  # one of them did not come back
                rep.add("parse_swc", HEADER_LIKE, spec, got_c, want_c)
            rep.add("Tree.from_swc", f"history/{gen}/comments-are-the-source-header-of-this-export-then-every-comment-the-written-tree-carried", spec, got_c, want_c)
        t = t2


# ---------------------------------------------------------------- enumeration

def _types_for(n, k):
    return [1] + [TYPE_POOL[(k + 3 * i) % len(TYPE_POOL)] for i in range(1, n)]


def _coords_for(n, k, corners):
    xyz = [[corners[(k + 3 * i + j) % len(corners)] if (i + j + k) % 2 == 0 else round(1.5 * i - 0.75 * j + 0.1 * (k % 7), 6) for j in range(3)] for i in range(n)]
    r = [corners[(k + 5 * i + 1) % len(corners)] if (i + k) % 3 == 0 else 0.5 + 0.25 * ((i + k) % 4) for i in range(n)]
    return xyz, r


def _case_id(spec):
    return {k: spec[k] for k in ("pid", "type", "xyz", "r", "off", "via", "src", "source", "comments", "comments_flag", "tree_source") if k in spec}


def run(ctx):
    base = scratch_dir("c01")
    rep = Reporter()
    rng = random.Random(ctx.seed)
    thorough = ctx.tier != "quick"
    nmax = 6 if thorough else 5
    corners = CORNERS_THOROUGH if thorough else CORNERS_QUICK
    try:
        def go(group, spec):
            check_roundtrip(rep, spec, base)
            ctx.case(group, _case_id(spec), nontrivial=True)

        # (1) every sorted shape x every offset x every read source; other dimensions rotate
        k = 0
        for n in range(1, nmax + 1):
            for pid in sorted_parent_tables(n):
                for off, src, via in itertools.product(OFFSETS, READ_SRC, WRITE_VIA):
                    xyz, r = _coords_for(n, k, corners)
                    nc = k % 4
                    comments = [COMMENT_POOL[(k + 2 * j) % len(COMMENT_POOL)] for j in range(nc)] if nc < 3 else None
                    spec = dict(pid=list(pid), type=_types_for(n, k), xyz=xyz, r=r, off=off, via=via, src=src,
                                source=SOURCE_OPTS[(k // 2) % 3], comments=comments, comments_flag=(k % 11 != 10),
                                tree_source=("/data/neuron 1.swc" if k % 5 == 0 else ""))
                    go("shapes", spec)
                    k += 1

        # (2) unsorted numberings (root 0, parents not necessarily before children), n <= 4 (5 thorough)
        for n in range(3, (5 if thorough else 4) + 1):
            for pid in sorted_parent_tables(n):
                for perm in itertools.permutations(range(1, n)):
                    lab = (0,) + perm  # old index -> new label
                    new = [None] * n
                    for i in range(n):
                        new[lab[i]] = -1 if pid[i] == -1 else lab[pid[i]]
                    if all(new[i] < i for i in range(n)):
                        continue  # already covered by (1)
                    xyz, r = _coords_for(n, k, corners)
                    spec = dict(pid=new, type=_types_for(n, k), xyz=xyz, r=r, off=OFFSETS[k % 5], via=WRITE_VIA[k % 2], src=READ_SRC[k % 3],
                                source=SOURCE_OPTS[k % 3], comments=[COMMENT_POOL[k % 7]] if k % 2 else [], comments_flag=True, tree_source="")
                    go("unsorted-numbering", spec)
                    k += 1

        # (3) comment lists: all lists of length <= 2 (3 thorough) x source header variants
        small = [(-1,), (-1, 0, 0)]
        for L in range(0, (3 if thorough else 2) + 1):
            for cl in itertools.product(COMMENT_POOL, repeat=L):
                for source in SOURCE_OPTS:
                    for flag in ((True, False) if L == 1 else (True,)):
                        pid = small[k % 2]
                        n = len(pid)
                        xyz, r = _coords_for(n, k, [1.0, 2.5])
                        spec = dict(pid=list(pid), type=_types_for(n, k), xyz=xyz, r=r, off=OFFSETS[k % 5], via=WRITE_VIA[k % 2], src=READ_SRC[(k // 2) % 3],
                                    source=source, comments=list(cl), comments_flag=flag, tree_source=("" if k % 3 else "orig.swc"))
                        go("comments", spec)
                        k += 1
        if not thorough:
            triples = list(itertools.product(COMMENT_POOL, repeat=3))
            rng.shuffle(triples)
            for cl in triples[:60]:
                spec = dict(pid=[-1, 0], type=[1, 3], xyz=[[0.0, 0.0, 0.0], [1.0, 0.0, 0.0]], r=[1.0, 0.5], off=OFFSETS[k % 5], via=WRITE_VIA[k % 2],
                            src=READ_SRC[k % 3], source=SOURCE_OPTS[k % 3], comments=list(cl), comments_flag=True, tree_source="")
                go("comments", spec)
                k += 1

        # (3b) comments that look like the writer's own output (source header, column header, '#', a data row): all single comments and all
        # pairs drawn from one writer-like and one arbitrary comment, every source-header setting
        wl = [(c,) for c in WRITER_LIKE] + [p for a in WRITER_LIKE for b in COMMENT_POOL[:5] for p in ((a, b), (b, a))] + [(a, b) for a in WRITER_LIKE[:6] for b in WRITER_LIKE[:6]]
        for cl in wl if thorough else wl[::2] + wl[1::6]:
            for source in SOURCE_OPTS:
                pid = small[k % 2]
                n = len(pid)
                xyz, r = _coords_for(n, k, [1.0, 2.5])
                spec = dict(pid=list(pid), type=_types_for(n, k), xyz=xyz, r=r, off=OFFSETS[k % 5], via=WRITE_VIA[k % 2], src=READ_SRC[(k // 2) % 3],
                            source=source, comments=list(cl), comments_flag=True, tree_source=("" if k % 3 else "orig.swc"))
                go("writer-like-comments", spec)
                k += 1

        # (3d) comments that start like the writer's column header in EVERY position of the comment list: first, in the middle, last (= right in
        # front of the writer's own header line), repeated, next to each other, alone; plain / with extra columns / with a suffix / indented;
        # every source-header setting, comments switched off as well (then nothing comes back but the header is still dropped once)
        plain = ["x", ""]
        hl = []
        for L in (1, 2, 3):
            for cl in itertools.product(HEADER_LIKES[:3] + plain, repeat=L):
                if any(c.startswith(HEADER_COLS) for c in cl):
                    hl.append(cl)
        hl += [(h,) for h in HEADER_LIKES[3:]] + [(HEADER_LIKES[3], "x", HEADER_LIKES[4]), (HEADER_COLS,) * 4, ("x", "y", "z", HEADER_COLS), (HEADER_COLS, "x", "y", "z")]
        for j, cl in enumerate(hl):
            if not thorough and len(cl) == 3 and j % 2 and len(set(cl)) == 3:
                continue
            for source in SOURCE_OPTS if (thorough or len(cl) < 3) else (SOURCE_OPTS[j % 3],):
                pid = small[k % 2]
                n = len(pid)
                xyz, r = _coords_for(n, k, [1.0, 2.5])
                spec = dict(pid=list(pid), type=_types_for(n, k), xyz=xyz, r=r, off=OFFSETS[k % 5], via=WRITE_VIA[k % 2], src=READ_SRC[(k // 2) % 3],
                            source=source, comments=list(cl), comments_flag=(k % 11 != 0), tree_source=("" if k % 3 else "orig.swc"))
                go("header-like-comments", spec)
                k += 1

        # (3c) histories: write -> read -> write again -> read [-> a third time], every source option at every generation, offsets / write
        # routes / read sources rotating; the starting comments range over nothing, plain, and writer-like texts
        starts = [[], ["x", "  y "], ["source: x"], [HEADER_COLS], [HEADER_COLS, "x", HEADER_COLS + " e"], ["x", HEADER_COLS], ["", "# x", " source: /data/n 1.swc"]] + ([[c] for c in WRITER_LIKE] if thorough else [["#"], ["x # y", "\tx\t"]])
        for cm in starts:
            for s1 in SOURCE_OPTS:
                for s2 in SOURCE_OPTS:
                    for s3 in ((None,) if not thorough else (None, True, False)):
                        pid = [(-1,), (-1, 0, 0), (-1, 0, 1, 1)][k % 3]
                        n = len(pid)
                        xyz, r = _coords_for(n, k, corners)
                        steps = [dict(source=s, off=OFFSETS[(k + j) % 5], via=WRITE_VIA[(k + j) % 2], src=READ_SRC[(k // 2 + j) % 3], comments_flag=True)
                                 for j, s in enumerate((s1, s2, s3)) if s is not None]
                        spec = dict(pid=list(pid), type=_types_for(n, k), xyz=xyz, r=r, comments=list(cm), tree_source=("" if k % 2 else "first.swc"), steps=steps)
                        check_history(rep, spec, base)
                        ctx.case("histories", spec, nontrivial=True)
                        k += 1

        # (4) float corner values: every corner in every float column, every read source
        for ci, c in enumerate(corners):
            for col in range(4):
                for src in READ_SRC:
                    pid = [-1, 0, 1] if (ci + col) % 2 else [-1, 0, 0]
                    xyz = [[0.5 * i + 0.25 * j for j in range(3)] for i in range(3)]
                    r = [1.0, 0.75, 0.5]
                    node = (ci + col) % 3
                    if col < 3:
                        xyz[node][col] = c
                    else:
                        r[node] = c
                    spec = dict(pid=pid, type=[1, 3, 2], xyz=xyz, r=r, off=OFFSETS[(ci + col) % 5], via=WRITE_VIA[(ci + col) % 2], src=src,
                                source=False, comments=[], comments_flag=True, tree_source="")
                    go("float-corners", spec)
                    k += 1

        # (4b) magnitudes: every type of the magnitude pool on the root / an inner node / a leaf x every read source, and every large id
        # offset x write route x read source, on coordinates around 1e5 with four decimals and tiny / huge radii
        shapes = [(-1,), (-1, 0), (-1, 0, 0, 1), (-1, 0, 1, 2, 2)]
        for ti, T in enumerate(MAG_TYPES):
            for si, src in enumerate(READ_SRC):
                pid = shapes[(ti + si) % len(shapes)]
                n = len(pid)
                types = [MAG_TYPES[(ti + 5 * i) % len(MAG_TYPES)] if i % 2 else 1 + (i % 4) for i in range(n)]
                types[(ti + si) % n] = T
                xyz = [[MAG_COORDS[(ti + i + j) % len(MAG_COORDS)] if (i + j) % 2 == 0 else 0.5 * i - 0.25 * j for j in range(3)] for i in range(n)]
                r = [MAG_RADII[(ti + si + i) % len(MAG_RADII)] for i in range(n)]
                spec = dict(pid=list(pid), type=types, xyz=xyz, r=r, off=(OFFSETS + MAG_IDS)[(ti + si) % (len(OFFSETS) + len(MAG_IDS))], via=WRITE_VIA[(ti + si) % 2], src=src,
                            source=SOURCE_OPTS[ti % 3], comments=[COMMENT_POOL[ti % 7]] if ti % 2 else [], comments_flag=True, tree_source="")
                go("magnitudes", spec)
                k += 1
        for oi, off in enumerate(MAG_IDS):
            for via, src in itertools.product(WRITE_VIA, READ_SRC):
                pid = shapes[(oi + k) % len(shapes)]
                n = len(pid)
                xyz, r = _coords_for(n, k, MAG_COORDS + MAG_RADII)
                spec = dict(pid=list(pid), type=[TYPE_POOL[(k + 7 * i) % len(TYPE_POOL)] for i in range(n)], xyz=xyz, r=r, off=off, via=via, src=src,
                            source=False, comments=[], comments_flag=True, tree_source="")
                go("magnitudes", spec)
                k += 1

        # (5) seeded random tail: bigger trees, random floats of many magnitudes
        for _ in range(4000 if thorough else 800):
            n = rng.randint(1, 12 if thorough else 9)
            pid = random_sorted_table(rng, n)
            mags = [1e-4, 1e-2, 1.0, 1e2, 1e4, 1e6]
            xyz = [[rng.choice([-1, 1]) * rng.random() * rng.choice(mags) for _ in range(3)] for _ in range(n)]
            r = [rng.random() * rng.choice(mags[:4]) for _ in range(n)]
            types = [1] + [rng.choice(TYPE_POOL) for _ in range(n - 1)]
            nc = rng.randint(0, 3)
            spec = dict(pid=list(pid), type=types, xyz=xyz, r=r, off=rng.choice(OFFSETS + [3, 100, 65536] + MAG_IDS), via=rng.choice(WRITE_VIA), src=rng.choice(READ_SRC),
                        source=rng.choice(SOURCE_OPTS), comments=[rng.choice(FULL_POOL if rng.random() < 0.3 else COMMENT_POOL) for _ in range(nc)], comments_flag=rng.random() < 0.9,
                        tree_source=rng.choice(["", "a/b.swc"]))
            go("random", spec)

        # (6) column -> array construction keeps requested extra columns (FINDING of contracts/C01.py: Tree.from_data_frame drops them)
        from swcgeom.core import Tree
        from swcgeom.core.swc_utils import read_swc

        for rows in (["1 1 0 0 0 1 -1 7.5"], ["1 1 0 0 0 1 -1 7.5", "2 3 1 0 0 1 1 8.25", "3 3 2 0 0 1 2 -1"]):
            text = "\n".join(rows) + "\n"
            df, _ = read_swc(io.StringIO(text), extra_cols=["e"])
            t = Tree.from_data_frame(df)
            ctx.case("extra-columns", dict(text=text, extra_cols=["e"]), nontrivial=True)
            if "e" not in list(t.keys()) or [float(v) for v in t.get_ndata("e")] != [float(v) for v in df["e"]]:
                ctx.violation("Tree.from_data_frame", "extra-columns-of-the-frame-are-kept", dict(text=text, extra_cols=["e"]),
                              f"tree columns {list(t.keys())}", f"tree columns {list(df.columns)} with e = {list(df['e'])}")

        rep.flush(ctx)
        ctx.rule(f"all sorted parent tables with <= {nmax} nodes x id offsets {OFFSETS} x read sources {READ_SRC} x write via to_swc() string / to_swc(fname) ("
                 f"source header False/True/custom, comments from {COMMENT_POOL!r}, types from {TYPE_POOL}); magnitudes: every type of {MAG_TYPES} on root / inner node / leaf x read "
                 f"sources and id offsets {MAG_IDS} x write routes x read sources, coordinates {MAG_COORDS}, radii {MAG_RADII}; all unsorted numberings with root 0 up to "
                 f"{5 if thorough else 4} nodes; all comment lists of length <= {3 if thorough else 2} x 3 source-header settings; comments that look like the "
                 f"writer's own output {WRITER_LIKE!r} alone and in pairs x 3 source-header settings; comments that start like the column header {HEADER_LIKES!r} in every "
                 f"position of lists of <= 3 (first, middle, last, repeated, adjacent) mixed with plain ones; HISTORIES write -> read -> write again -> read with every "
                 f"source option at both generations (a third generation in the thorough tier) from plain and writer-like starting comments; every float corner value "
                 f"{corners} in each of x/y/z/r x 3 read sources; seeded random tail (trees up to {12 if thorough else 9} nodes, magnitudes 1e-4..1e6). "
                 "Oracle: float32(float(format(v,'.4f'))), the parent table, the type list, [source header] + lstripped comments. Every case is non-trivial "
                 "(a full write + read).", exhaustive=False)
    finally:
        shutil.rmtree(base, ignore_errors=True)


def replay(spec):
    rep = Reporter()
    base = scratch_dir("c01r")
    try:
        (check_history if "steps" in spec else check_roundtrip)(rep, spec, base)
    finally:
        shutil.rmtree(base, ignore_errors=True)
    for key, items in rep.items.items():
        for it in items:
            print("  still failing:", key, "observed", str(it[3])[:200], "expected", str(it[4])[:200])
    return not rep.items
