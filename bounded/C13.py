"""C13 bounded stand-in: closed-form primitive volumes against numeric quadrature.

Every solid here is a solid of revolution about the line through the two centres, so its
volume is pi * int rho(z)^2 dz with rho the min (intersection) / max (union) of the member
profiles.  The oracle integrates that with a fine composite Simpson rule split at the ends
of the member supports and at numerically bisected profile crossings; it uses no closed
form from the library (and none of its case analysis)."""
from __future__ import annotations

import math
import random

import numpy as np

from . import common  # noqa: F401  (puts $VERIF_REPO on sys.path)

RTOL = 1e-6
N_SIMPSON = 4000  # intervals per smooth piece (each piece is a polynomial of degree 2: Simpson is exact up to rounding)


# --------------------------------------------------------------------------- quadrature
def sphere_sq(c, r):
    return (c - r, c + r, lambda x: np.maximum(r * r - (x - c) ** 2, 0.0))


def frustum_sq(z1, ra, z2, rb):
    return (z1, z2, lambda x: (ra + (rb - ra) * (x - z1) / (z2 - z1)) ** 2)


def _simpson(f, a, b, n=N_SIMPSON):
    x = np.linspace(a, b, n + 1)
    y = f(x)
    return (b - a) / n / 3.0 * (y[0] + y[-1] + 4.0 * y[1:-1:2].sum() + 2.0 * y[2:-1:2].sum())


def _crossings(fs, a, b, m=512):
    """Points of (a,b) where two of the profiles cross (sign change on a grid, then bisection)."""
    out = []
    x = np.linspace(a, b, m + 1)
    for i in range(len(fs)):
        for j in range(i + 1, len(fs)):
            g = lambda t: fs[i](t) - fs[j](t)  # noqa: E731
            y = g(x)
            for k in range(m):
                if y[k] == 0 or y[k] * y[k + 1] < 0:
                    lo, hi = x[k], x[k + 1]
                    if y[k] == 0:
                        out.append(float(lo))
                        continue
                    for _ in range(80):
                        mid = 0.5 * (lo + hi)
                        if g(np.array([lo]))[0] * g(np.array([mid]))[0] <= 0:
                            hi = mid
                        else:
                            lo = mid
                    out.append(0.5 * (lo + hi))
    return [t for t in out if a < t < b]


def revolve(solids, mode):
    """Volume of the union / intersection of coaxial solids of revolution.
    solids: (a, b, rho_squared) with support [a, b] on the common axis."""
    pts = sorted(set([s[0] for s in solids] + [s[1] for s in solids]))
    total = 0.0
    for u, v in zip(pts[:-1], pts[1:]):
        if v <= u:
            continue
        mid = 0.5 * (u + v)
        act = [s[2] for s in solids if s[0] <= mid <= s[1]]
        if mode == "union" and act:
            f = lambda x, act=act: np.max([g(x) for g in act], axis=0)  # noqa: E731
        elif mode == "intersection" and len(act) == len(solids):
            f = lambda x, act=act: np.min([g(x) for g in act], axis=0)  # noqa: E731
        else:
            continue
        cuts = [u] + sorted(_crossings(act, u, v)) + [v]
        for a, b in zip(cuts[:-1], cuts[1:]):
            if b > a:
                total += math.pi * _simpson(f, a, b)
    return total


# ------------------------------------------------------------------------------ helpers
FIXED_AXES = [(0.0, 0.0, 1.0), (1.0, 0.0, 0.0), (1 / math.sqrt(3),) * 3, (-2 / 7, 3 / 7, 6 / 7), (0.0, -0.6, 0.8)]
ORIGINS = [(0.0, 0.0, 0.0), (3.0, -1.0, 2.0), (391.58, 324.97, -12.89), (-7.5, 0.25, 40.0), (1.0, 2.0, 3.0)]


# poses FAR from the origin (coordinates exactly representable in float32 and float64, up to 1e6): a closed form must not depend on
# where the solid sits; relative tolerances (np.allclose: 1e-5 * |coordinate|) make centres a few units apart look "equal" out there
FAR_POSES = [[(983040.0, 0.0, 0.0), (1.0, 0.0, 0.0)], [(0.0, 0.0, -524288.0), (0.0, 0.0, -1.0)],
             [(65536.0, 131072.0, -262144.0), (-2 / 7, 3 / 7, 6 / 7)], [(1000000.0, -1000000.0, 1000000.0), (1 / math.sqrt(3),) * 3],
             [(-100000.0, 100000.0, 100000.0), (0.0, -0.6, 0.8)]]


def ok(got, want, scale):
    return abs(got - want) <= RTOL * abs(want) + 1e-12 * scale ** 3


class Rep:
    def __init__(self, ctx, cap=3):
        self.ctx, self.cap, self.seen, self.count = ctx, cap, {}, 0

    def v(self, carrier, clause, spec, observed, expected):
        self.count += 1
        k = (carrier, clause)
        self.seen[k] = self.seen.get(k, 0) + 1
        if self.seen[k] <= self.cap:
            self.ctx.violation(carrier, clause, spec, observed, expected, spec)


def _call(rep, carrier, spec, fn):
    try:
        return True, float(fn())
    except Exception as e:
        rep.v(carrier, "operation-raises", spec, f"{type(e).__name__}: {e}", "no exception")
        return False, None


def _same_over_orientations(rep, carrier, spec, vals, scale):
    got = [v for v in vals if v is not None]
    if got and max(got) - min(got) > RTOL * abs(max(got, key=abs)) + 1e-12 * scale ** 3:
        rep.v(carrier, "orientation-independent", spec, dict(min=min(got), max=max(got)), "one value for every orientation")


# ------------------------------------------------------------------------------- checks
def check_case(rep, spec):
    """spec: kind + parameters + poses [(origin, axis), ...]; returns number of evaluations."""
    from swcgeom.utils.volumetric_object import (VolFrustumCone, VolSphere, VolSphere2Intersection, VolSphereFrustumConeIntersection)

    np.random.seed(spec.get("np_seed", 0))  # find_unit_vector_on_plane draws from the global numpy generator
    kind, poses = spec["kind"], spec["poses"]
    n_eval = 0
    if kind == "sphere":
        r = spec["r"]
        want = revolve([sphere_sq(0.0, r)], "union")
        vals = []
        for o, _ in poses:
            sp = dict(spec, poses=[[o, _]])
            g, a = _call(rep, "VolSphere.get_volume", sp, lambda: VolSphere(np.array(o), r).get_volume())
            vals.append(a)
            g2, b = _call(rep, "VolSphere.calc_volume", sp, lambda: VolSphere.calc_volume(r))
            if g and g2 and not (ok(a, want, r) and ok(b, want, r)):
                rep.v("VolSphere.get_volume", "sphere", sp, (a, b), want)
            n_eval += 1
        _same_over_orientations(rep, "VolSphere.get_volume", spec, vals, r)
    elif kind == "cap":
        r, h = spec["r"], spec["h"]
        want = revolve([(r - h, r, sphere_sq(0.0, r)[2])], "union") if h > 0 else 0.0
        for o, _ in poses[:2]:
            sp = dict(spec, poses=[[o, _]])
            g, a = _call(rep, "VolSphere.get_volume_spherical_cap", sp, lambda: VolSphere(np.array(o), r).get_volume_spherical_cap(h))
            g2, b = _call(rep, "VolSphere.calc_volume_spherical_cap", sp, lambda: VolSphere.calc_volume_spherical_cap(r, h))
            if g and g2 and not (ok(a, want, r) and ok(b, want, r)):
                rep.v("VolSphere.get_volume_spherical_cap", "spherical-cap", sp, (a, b), want)
            n_eval += 1
    elif kind == "frustum":
        r1, r2, h = spec["r1"], spec["r2"], spec["h"]
        want = revolve([frustum_sq(0.0, r1, h, r2)], "union")
        vals = []
        for o, u in poses:
            sp = dict(spec, poses=[[o, u]])
            c1 = np.array(o)
            c2 = c1 + h * np.array(u)
            fc = None
            g, a = _call(rep, "VolFrustumCone.get_volume", sp, lambda: VolFrustumCone(c1, r1, c2, r2).get_volume())
            g2, b = _call(rep, "VolFrustumCone.calc_volume", sp, lambda: VolFrustumCone.calc_volume(r1, r2, h))
            g3, hh = _call(rep, "VolFrustumCone.height", sp, lambda: VolFrustumCone(c1, r1, c2, r2).height())
            vals.append(a)
            if g and g2 and g3 and not (ok(a, want, r1 + r2 + h) and ok(b, want, r1 + r2 + h) and abs(hh - h) <= 1e-9 * (h + np.abs(c1).max())):
                rep.v("VolFrustumCone.get_volume", "frustum", sp, dict(get_volume=a, calc_volume=b, height=hh), dict(volume=want, height=h))
            n_eval += 1
        _same_over_orientations(rep, "VolFrustumCone.get_volume", spec, vals, r1 + r2 + h)
    elif kind == "spheres":
        r1, r2, d = spec["r1"], spec["r2"], spec["d"]
        sol = [sphere_sq(0.0, r1), sphere_sq(d, r2)]
        wi, wu = revolve(sol, "intersection"), revolve(sol, "union")
        vi, vu = [], []
        for o, u in poses:
            sp = dict(spec, poses=[[o, u]])
            c1 = np.array(o)
            c2 = c1 + d * np.array(u)
            dd = float(np.linalg.norm(c2 - c1))  # the distance actually realised by the float64 centres
            if abs(dd - d) > 1e-12 * max(1.0, d) and d > 0:
                sol2 = [sphere_sq(0.0, r1), sphere_sq(dd, r2)]
                wi_, wu_ = revolve(sol2, "intersection"), revolve(sol2, "union")
            else:
                wi_, wu_ = wi, wu
            for a_, b_, tag in ((1, 2, "12"), (2, 1, "21")):
                s1, s2 = (VolSphere(c1, r1), VolSphere(c2, r2)) if tag == "12" else (VolSphere(c2, r2), VolSphere(c1, r1))
                g, a = _call(rep, "VolSphere2Intersection.get_volume", sp, lambda: s1.intersect(s2).get_volume())
                g2, a2 = _call(rep, "VolSphere2Intersection.calc_intersect_volume", sp, lambda: VolSphere2Intersection.calc_intersect_volume(s1, s2))
                if g and g2 and not (ok(a, wi_, r1 + r2) and ok(a2, wi_, r1 + r2)):
                    rep.v("VolSphere2Intersection.get_volume", "two-sphere-intersection", dict(sp, order=tag), (a, a2), wi_)
                g, b = _call(rep, "VolSphere2Union.get_volume", sp, lambda: s1.union(s2).get_volume())
                if g and not ok(b, wu_, r1 + r2):
                    rep.v("VolSphere2Union.get_volume", "two-sphere-union", dict(sp, order=tag), b, wu_)
                vi.append(a)
                vu.append(b if g else None)
            n_eval += 1
        _same_over_orientations(rep, "VolSphere2Intersection.get_volume", spec, vi, r1 + r2)
        _same_over_orientations(rep, "VolSphere2Union.get_volume", spec, vu, r1 + r2)
    elif kind == "sphere-frustum":
        r, ro, h, end = spec["r"], spec["ro"], spec["h"], spec["end"]  # sphere radius = frustum radius at the shared end
        sol = [sphere_sq(0.0, r), frustum_sq(0.0, r, h, ro)]
        wi, wu = revolve(sol, "intersection"), revolve(sol, "union")
        vi, vu = [], []
        for o, u in poses:
            sp = dict(spec, poses=[[o, u]])
            cs = np.array(o)
            co = cs + h * np.array(u)
            s = VolSphere(cs, r)
            mk = (lambda: VolFrustumCone(cs, r, co, ro)) if end == 1 else (lambda: VolFrustumCone(co, ro, cs, r))
            g, a = _call(rep, "VolSphereFrustumConeIntersection.get_volume", sp, lambda: s.intersect(mk()).get_volume())
            g2, a2 = _call(rep, "VolSphereFrustumConeIntersection.calc_concentric_intersect_volume", sp, lambda: VolSphereFrustumConeIntersection.calc_concentric_intersect_volume(s, mk()))
            if g and g2 and not (ok(a, wi, r + ro + h) and ok(a2, wi, r + ro + h)):
                rep.v("VolSphereFrustumConeIntersection.get_volume", "sphere-frustum-intersection", sp, (a, a2), wi)
            g3, b = _call(rep, "VolSphereFrustumConeUnion.get_volume", sp, lambda: s.union(mk()).get_volume())
            g4, b2 = _call(rep, "VolSphereFrustumConeUnion.get_volume", sp, lambda: mk().union(VolSphere(cs, r)).get_volume())
            if g3 and g4 and not (ok(b, wu, r + ro + h) and ok(b2, wu, r + ro + h)):
                rep.v("VolSphereFrustumConeUnion.get_volume", "sphere-frustum-union", sp, (b, b2), wu)
            vi.append(a)
            vu.append(b)
            n_eval += 1
        _same_over_orientations(rep, "VolSphereFrustumConeIntersection.get_volume", spec, vi, r + ro + h)
        _same_over_orientations(rep, "VolSphereFrustumConeUnion.get_volume", spec, vu, r + ro + h)
    else:
        raise ValueError(kind)
    return n_eval


# -------------------------------------------------------------------------- enumeration
def parameter_cases(tier, rng):
    radii = [0.5, 1.0, 2.0, 3.5] if tier == "quick" else [0.25, 0.5, 1.0, 1.5, 2.0, 3.5, 10.0]
    for r in radii + [9.0, 1e-3, 1e3]:
        yield dict(kind="sphere", r=r)
    for r in radii:
        for k in range(0, 9):
            yield dict(kind="cap", r=r, h=k * r / 4)
    hs = [0.125, 0.5, 1.0, 2.0, 5.0]
    for r1 in radii:
        for r2 in radii:
            for h in hs:
                yield dict(kind="frustum", r1=r1, r2=r2, h=h)
    for r1 in radii:
        for r2 in radii:
            lo, hi = abs(r1 - r2), r1 + r2
            ds = [0.0, lo / 2, lo, lo + (hi - lo) * 0.1, (lo + hi) / 2, hi - (hi - lo) * 0.1, hi * (1 - 1e-3), hi, hi * (1 + 1e-3), 1.5 * hi]
            ds += [0.37 * k for k in range(1, 13 if tier == "quick" else 25)]
            for d in sorted(set(ds)):
                yield dict(kind="spheres", r1=r1, r2=r2, d=d)
    ratios = [0.25, 0.5, 0.9, 1.0, 1.1, 1.5, 3.0]
    hratios = [0.25, 0.5, 0.9, 1.0, 1.1, 1.5, 3.0]
    for r in radii:
        for q in ratios:
            ro = q * r
            hh = [p * r for p in hratios]
            if ro < r:
                hh.append(math.sqrt(r * r - ro * ro))  # the far rim of the frustum lies exactly on the sphere
            for h in hh:
                for end in (1, 2):
                    yield dict(kind="sphere-frustum", r=r, ro=ro, h=h, end=end)
    yield dict(kind="sphere-frustum", r=5.0, ro=3.0, h=4.0, end=1)
    yield dict(kind="sphere-frustum", r=5.0, ro=4.0, h=3.0, end=2)
    yield dict(kind="sphere-frustum", r=0.493507, ro=0.493506, h=5.79, end=1)  # the almost-cylinder of the unit tests
    for _ in range(60 if tier == "quick" else 1500):
        k = rng.choice(["spheres", "sphere-frustum", "frustum"])
        if k == "spheres":
            yield dict(kind=k, r1=rng.uniform(0.1, 5), r2=rng.uniform(0.1, 5), d=rng.uniform(0, 11))
        elif k == "frustum":
            yield dict(kind=k, r1=rng.uniform(0.1, 5), r2=rng.uniform(0.1, 5), h=rng.uniform(0.05, 10))
        else:
            r = rng.uniform(0.1, 5)
            yield dict(kind=k, r=r, ro=rng.uniform(0.05, 3) * r, h=rng.uniform(0.05, 4) * r, end=rng.choice([1, 2]))


def nontrivial(spec):
    if spec["kind"] == "spheres":
        return abs(spec["r1"] - spec["r2"]) < spec["d"] < spec["r1"] + spec["r2"]  # a genuine lens
    if spec["kind"] == "cap":
        return 0 < spec["h"] < 2 * spec["r"]
    return True


def run(ctx):
    rep = Rep(ctx)
    rng = random.Random(ctx.seed)
    poses = [[list(o), list(u)] for o, u in zip(ORIGINS, FIXED_AXES)]
    for _ in range(1 if ctx.tier == "quick" else 3):
        v = np.array([rng.gauss(0, 1) for _ in range(3)])
        v /= np.linalg.norm(v)
        poses.append([[rng.uniform(-50, 50) for _ in range(3)], [float(a) for a in v]])
    poses += [[list(o), list(u)] for o, u in (FAR_POSES if ctx.tier != "quick" else FAR_POSES[:4])]
    n_or = len(poses)
    for k, p in enumerate(parameter_cases(ctx.tier, rng)):
        spec = dict(p, poses=poses, np_seed=ctx.seed + k)
        check_case(rep, spec)
        for i in range(n_or if p["kind"] != "cap" else 2):
            ctx.case(p["kind"], dict(p, pose=i), nontrivial=nontrivial(p))
    if rep.count:
        ctx.notes.append(f"{rep.count} failing clause evaluations in total; at most 3 reported per (carrier, clause)")
    ctx.notes.append("VolFrustumCone.intersect(VolSphere) and frustum-frustum combinations have no closed form in the library (Monte-Carlo objects): outside this property")
    ctx.notes.append("tolerance: |got - quadrature| <= 1e-6*|quadrature| + 1e-12*size^3; the library's own eps bands (|r2-r1| <= 1e-6, 1 < t <= 1+1e-6) are hit only by the "
                     "exactly-equal-radii and rim-on-sphere cases of the grid")
    ctx.rule("parameter grid: sphere radii x cap heights k*r/4 (k=0..8) x frustum (r1, r2, h) x two spheres (r1, r2, d in {0, nested, internally tangent, overlapping, "
             "nearly tangent, tangent, disjoint, sweep}) x sphere+frustum sharing one end (r, r_other/r in 0.25..3, h/r in 0.25..3 and the rim-on-sphere height, both ends) "
             "plus seeded random parameters; each in %d poses (5 fixed axes/origins + seeded random + poses 1e5..1e6 away from the origin, axis-parallel and oblique). Non-trivial = genuine lens / proper cap / any frustum case" % n_or, exhaustive=False)


def replay(spec):
    class C:
        def __init__(self):
            self.violations = []

        def violation(self, *a, **k):
            self.violations.append(a)

    c = C()
    check_case(Rep(c, cap=10 ** 9), spec)
    for v in c.violations:
        print("  still failing:", v[:2], v[3:5])
    return not c.violations
