"""C16 bounded stand-in: resampling and smoothing keep the shape.

Oracle (plain numpy, float64): a tree is cut at its critical nodes (root, furcations, tips) into
branches = polylines with radii at the knots.  The resampled tree is cut the same way and the two
sets of branches are paired by a recursive search that respects connectivity and end positions.
For a paired branch with m steps in the output, sample k must sit at arc length k*L/m of the
original polyline (equal steps), L/m must not exceed the spacing, and its radius must be the
piecewise-linear interpolation of the knot radii over arc length.  All lengths are computed in
float64 from the float32-stored coordinates (what the library sees).

Input space: every small parent table x coordinate modes x fixed spacings, plus generic derived
families whose spacings are computed from the geometry (see "generic input families" below):
tortuous branches (chord << path) with spacings between chord and path length, coincident nodes
with radius steps inserted on every edge, spacing = branch length / ratio (exact multiples,
slightly above a multiple, branch shorter than the spacing), permuted branch lists for the
assembler, sibling branches that end at one position, and seeded random combinations.

Degenerate geometry is part of the input space of every entry point (see "degenerate geometry"): duplicated first / middle /
last node of a branch (same and other radius, runs of 2 and 3), all nodes coincident, two-node branches, and inside trees a
duplicated node at a tip / on a furcation / on the soma and whole zero-length branches.  Every output number must be finite
(clause `output-finite`); tolerance tests are written so that a NaN fails them (`exceeds`).
"""
from __future__ import annotations

import itertools
import random

import numpy as np

from .common import all_sorted_tables_upto, children_of, coords_for, make_tree, random_sorted_table

TOL = 1e-4


def exceeds(v, tol=TOL):
    """v > tol, and True as well when v is NaN (`nan > tol` is False: a NaN must never pass a tolerance test)"""
    return not (v <= tol)


def all_finite(*arrays):
    return all(bool(np.all(np.isfinite(np.asarray(a, dtype=np.float64)))) for a in arrays)


def non_finite_rows(a):
    a = np.asarray(a, dtype=np.float64).reshape(len(a), -1)
    return [int(i) for i in np.nonzero(~np.isfinite(a).all(axis=1))[0]]


# ----------------------------------------------------------------------------- geometry helpers
def arc_lengths(P):
    P = np.asarray(P, dtype=np.float64)
    if len(P) < 2:
        return np.zeros(len(P))
    seg = np.sqrt(((P[1:] - P[:-1]) ** 2).sum(axis=1))
    return np.concatenate([[0.0], np.cumsum(seg)])


def at_arc(P, R, s):
    """Position at arc length s of polyline P, and the admissible radius interval there (an interval only
    where knots coincide, otherwise a single linearly interpolated value)."""
    P, R = np.asarray(P, dtype=np.float64), np.asarray(R, dtype=np.float64)
    a = arc_lengths(P)
    L = a[-1]
    s = min(max(s, 0.0), L)
    same = [i for i in range(len(a)) if abs(a[i] - s) <= 1e-7 * (1 + L)]
    if same:
        rs = R[same]
        return P[same[0]].copy(), (float(rs.min()), float(rs.max()))
    j = max(i for i in range(len(a) - 1) if a[i] <= s)
    w = (s - a[j]) / (a[j + 1] - a[j])
    r = R[j] + w * (R[j + 1] - R[j])
    return P[j] + w * (P[j + 1] - P[j]), (float(r), float(r))


def dist_point_polyline(q, P):
    q, P = np.asarray(q, dtype=np.float64), np.asarray(P, dtype=np.float64)
    best = float(np.sqrt(((P - q) ** 2).sum(axis=1)).min())
    for i in range(len(P) - 1):
        d = P[i + 1] - P[i]
        dd = float(d @ d)
        if dd == 0:
            continue
        w = min(1.0, max(0.0, float((q - P[i]) @ d) / dd))
        best = min(best, float(np.sqrt(((P[i] + w * d - q) ** 2).sum())))
    return best


def total_length(pid, xyz):
    xyz = np.asarray(xyz, dtype=np.float64)
    return float(sum(np.sqrt(((xyz[i] - xyz[p]) ** 2).sum()) for i, p in enumerate(pid) if p >= 0))


def cut_branches(pid):
    """critical nodes and {critical node: [list of node-id chains starting at it and ending at the next critical node]}"""
    ch = children_of(pid)
    root = [i for i, p in enumerate(pid) if p < 0]
    crit = {i for i in range(len(pid)) if pid[i] < 0 or len(ch[i]) != 1}
    out = {c: [] for c in crit}
    for c in crit:
        for k in ch[c]:
            chain = [c, k]
            while chain[-1] not in crit:
                chain.append(ch[chain[-1]][0])
            out[c].append(chain)
    return root, crit, out


def table_ok(pid):
    """single root at 0, all parents in range, acyclic"""
    n = len(pid)
    if n == 0 or pid[0] != -1 or sum(1 for p in pid if p == -1) != 1 or any(not (-1 <= p < n) for p in pid):
        return False
    for i in range(n):
        j, steps = i, 0
        while j != 0:
            j, steps = pid[j], steps + 1
            if steps > n or j < 0:
                return False
    return True


def dist_points_polyline(Q, P):
    """distance of every point of Q to the polyline P (vectorised form of dist_point_polyline)"""
    Q, P = np.asarray(Q, dtype=np.float64).reshape(-1, 3), np.asarray(P, dtype=np.float64).reshape(-1, 3)
    best = np.sqrt(((Q[:, None, :] - P[None, :, :]) ** 2).sum(axis=2)).min(axis=1)
    if len(P) >= 2:
        d = P[1:] - P[:-1]
        dd = (d * d).sum(axis=1)
        ok = dd > 0
        if ok.any():
            d, dd, P0 = d[ok], dd[ok], P[:-1][ok]
            w = np.clip(((Q[:, None, :] - P0[None, :, :]) * d[None, :, :]).sum(axis=2) / dd[None, :], 0.0, 1.0)
            foot = P0[None, :, :] + w[:, :, None] * d[None, :, :]
            best = np.minimum(best, np.sqrt(((foot - Q[:, None, :]) ** 2).sum(axis=2)).min(axis=1))
    return best


def at_arcs(P, R, S):
    """vectorised at_arc: positions at the arc lengths S and the admissible radius intervals (lo, hi) there"""
    P, R = np.asarray(P, dtype=np.float64).reshape(-1, 3), np.asarray(R, dtype=np.float64)
    a = arc_lengths(P)
    L = a[-1]
    S = np.clip(np.asarray(S, dtype=np.float64), 0.0, L)
    same = np.abs(a[None, :] - S[:, None]) <= 1e-7 * (1 + L)
    hit = same.any(axis=1)
    first = same.argmax(axis=1)
    if len(P) >= 2:
        j = np.clip(np.searchsorted(a, S, side="right") - 1, 0, len(a) - 2)
        den = a[j + 1] - a[j]
        w = np.where(den > 0, (S - a[j]) / np.where(den > 0, den, 1.0), 0.0)
        pos = P[j] + w[:, None] * (P[j + 1] - P[j])
        rad = R[j] + w * (R[j + 1] - R[j])
    else:
        pos, rad = np.repeat(P[:1], len(S), axis=0), np.repeat(R[:1], len(S))
    pos = np.where(hit[:, None], P[first], pos)
    lo = np.where(hit, np.where(same, R[None, :], np.inf).min(axis=1), rad)
    hi = np.where(hit, np.where(same, R[None, :], -np.inf).max(axis=1), rad)
    return pos, lo, hi


def branch_deviation(Pin, Rin, Pout, Rout):
    """(max position error vs equal arc steps, max radius error, max distance to polyline, step length)"""
    Pin, Pout, Rout = np.asarray(Pin, dtype=np.float64).reshape(-1, 3), np.asarray(Pout, dtype=np.float64).reshape(-1, 3), np.asarray(Rout, dtype=np.float64)
    L = arc_lengths(Pin)[-1]
    m = len(Pout) - 1
    want, rlo, rhi = at_arcs(Pin, Rin, np.arange(m + 1) * L / m)
    epos = float(np.sqrt(((Pout - want) ** 2).sum(axis=1)).max())
    erad = float(max((rlo - Rout).max(), (Rout - rhi).max(), 0.0))
    eline = float(dist_points_polyline(Pout, Pin).max())
    return epos, erad, eline, L / m


def pair_branches(A, B):
    """A, B = (pid, xyz, r).  Returns (cost, [(chain in A, chain in B, branch_deviation of the pair), ...]) for the cheapest
    pairing of the branches of the two trees that respects connectivity and (within TOL) the positions of the critical
    nodes, or None."""
    pa, xa, ra = A
    pb, xb, rb = B
    xa, xb, ra, rb = np.asarray(xa, dtype=np.float64), np.asarray(xb, dtype=np.float64), np.asarray(ra, dtype=np.float64), np.asarray(rb, dtype=np.float64)
    _, _, ba = cut_branches(pa)
    _, _, bb = cut_branches(pb)
    memo, devs = {}, {}

    def dev_of(ca, cb):
        k = (ca[-1], cb[-1])  # a chain is identified by its last node
        if k not in devs:
            devs[k] = branch_deviation(xa[ca], ra[ca], xb[cb], rb[cb])
        return devs[k]

    def match(i, j):
        if (i, j) not in memo:
            memo[(i, j)] = _match(i, j)
        return memo[(i, j)]

    def _match(i, j):
        if float(np.sqrt(((xa[i] - xb[j]) ** 2).sum())) > TOL or len(ba[i]) != len(bb[j]):
            return None
        # cost of pairing chain a of node i with chain b of node j (None = impossible), then the cheapest assignment
        cell = [[None] * len(bb[j]) for _ in ba[i]]
        for x, ca in enumerate(ba[i]):
            for y, cb in enumerate(bb[j]):
                sub = match(ca[-1], cb[-1])
                if sub is not None:
                    dev = dev_of(ca, cb)
                    cell[x][y] = (dev[0] + dev[1] + sub[0], [(ca, cb, dev)] + sub[1])
        best = None
        for perm in itertools.permutations(range(len(bb[j]))):
            if any(cell[x][y] is None for x, y in enumerate(perm)):
                continue
            cost = sum(cell[x][y][0] for x, y in enumerate(perm))
            if best is None or cost < best[0]:
                best = (cost, perm)
        if best is None:
            return None
        return best[0], [p for x, y in enumerate(best[1]) for p in cell[x][y][1]]

    return match(0, 0)


# ----------------------------------------------------------------------------- reporting
class Reporter:
    """at most 2 violations per (carrier, clause, variant, input family) and 6 per (carrier, clause) are handed to the driver"""

    def __init__(self, ctx):
        self.ctx, self.count = ctx, {}

    def __call__(self, carrier, clause, inp, observed, expected, variant=None):
        k = (carrier, clause)
        kv = (carrier, clause, variant, inp.get("family") if isinstance(inp, dict) else None)
        self.count[kv] = self.count.get(kv, 0) + 1
        self.count[k] = self.count.get(k, 0) + (1 if self.count[kv] <= 2 else 0)
        if self.count[kv] <= 2 and self.count[k] <= 6:
            self.ctx.violation(carrier, clause, inp, observed, expected, inp)


def tree_input(pid, xyz, r, root_type):
    n = len(pid)
    types = [root_type] + [3 if (i % 2) else 2 for i in range(1, n)]
    return dict(pid=[int(p) for p in pid], xyz=[[float(np.float32(a)) for a in row] for row in xyz], r=[float(np.float32(v)) for v in r], type=types)


def radii_for(n):
    return [1.0 + 0.25 * ((i * 3) % 5) for i in range(n)]


# ----------------------------------------------------------------------------- generic input families
def nth_permutation(m, k):
    """the k-th (modulo m!) permutation of range(m) in itertools order; k = 0 is the identity"""
    perms = list(itertools.permutations(range(m)))
    return perms[k % len(perms)]


def is_involution(p):
    return all(p[p[i]] == i for i in range(len(p)))


def permutation_indices(m, quick, rng):
    """indices k >= 1 of the permutations of m branches to try: all of them for m <= 3 (m <= 4 in the thorough tier, m <= 5
    there too), otherwise every permutation that is not its own inverse (m = 4) or a seeded sample (m >= 5), plus a few involutions"""
    perms = list(itertools.permutations(range(m)))
    if m <= 3 or (not quick and m <= 5):
        return list(range(1, len(perms)))
    non_inv = [k for k, p in enumerate(perms) if not is_involution(p)]
    inv = [k for k, p in enumerate(perms) if is_involution(p) and k > 0]
    if m == 4:
        return sorted(non_inv + inv[:3])
    return sorted(rng.sample(non_inv, 12) + rng.sample(inv, 3))


def expand_table(pid, s):
    """the sorted parent table in which every edge of `pid` is replaced by a chain of s segments (s - 1 new nodes)"""
    new, img = [-1], {0: 0}
    for i in range(1, len(pid)):
        prev = img[pid[i]]
        for _ in range(s - 1):
            new.append(prev)
            prev = len(new) - 1
        new.append(prev)
        img[i] = len(new) - 1
    return tuple(new)


_S = 0.5 ** 0.5
FRAMES = [((1, 0, 0), (0, 1, 0), (0, 0, 1)), ((0, 1, 0), (0, 0, 1), (1, 0, 0)), ((0, 0, 1), (1, 0, 0), (0, 1, 0)), ((-1, 0, 0), (0, -1, 0), (0, 0, 1)),
          ((0.6, 0.8, 0), (-0.8, 0.6, 0), (0, 0, 1)), ((0, -1, 0), (0, 0, 1), (-1, 0, 0)), ((_S, 0, _S), (0, 1, 0), (-_S, 0, _S)), ((0, 0.6, -0.8), (1, 0, 0), (0, -0.8, -0.6))]
FOLD_SHAPES = ("hairpin", "uturn", "loop", "closed")


def fold_point(shape, j, m):
    """local coordinates of node j of a branch with m >= 2 segments that starts at the origin (before the per-branch scale
    1..1.6).  The path length is about 1.5 m, the chord (distance of node m from the origin) is short: hairpin 0.3..0.6,
    uturn 0.5, loop < 0.14 m, closed 0."""
    u = j / m
    out = 1.5 * m * min(u, 1 - u)
    if shape == "hairpin":  # out along x and back, drifting sideways all the way
        return (out, 0.3 * u * (1 + m % 2), 0.0)
    if shape == "uturn":  # out along x, the sideways step in the turning segment only, back parallel to the way out
        return (1.5 * min(j, m - j), 0.0 if 2 * j < m else (0.5 if 2 * j > m else 0.25), 0.0)
    if shape == "loop":  # nearly closed polygon inscribed in a circle, slightly out of plane
        phi, rho = 2 * np.pi * 0.93 * u, 0.3 * m
        return (rho * (1 - np.cos(phi)), rho * np.sin(phi), 0.05 * u)
    if shape == "closed":  # ends exactly where it starts
        return (out, 0.0 if j == m else 0.4 * np.sin(2 * np.pi * u), 0.0)
    raise ValueError(shape)


def folded_coords(pid, shape, rng=None):
    """coords_for-style coordinates in which every branch (chain between critical nodes) with >= 2 segments folds back so
    that its end is close to (or at) its start; single-segment branches are straight.  The frame depends on the branch."""
    n = len(pid)
    xyz = np.zeros((n, 3), dtype=np.float64)
    xyz[0] = (1.0, 2.0, 3.0)
    _, _, br = cut_branches(list(pid))
    ordinal = 0
    for c in sorted(br):  # sorted table: a critical node precedes the ends of its branches
        for chain in br[c]:
            m, ordinal = len(chain) - 1, ordinal + 1
            d, e, f = (np.array(v, dtype=np.float64) for v in FRAMES[(ordinal * 3) % len(FRAMES)])  # up to 8 sibling branches get 8 frames
            scale = 1 + 0.2 * (ordinal % 4)  # branches of one tree differ in size
            for j in range(1, m + 1):
                a, b, g = (1.5, 0.0, 0.0) if m == 1 else fold_point(shape, j, m)
                xyz[chain[j]] = xyz[c] + scale * (a * d + b * e + g * f)
    if rng is not None:
        xyz += np.array([[rng.uniform(-0.05, 0.05) for _ in range(3)] for _ in range(n)])
    return xyz


def has_chain(pid):
    """some branch has >= 2 segments"""
    return any(i > 0 and list(pid).count(i) == 1 for i in range(len(pid)))


def stored(xyz):
    """the coordinates as the library sees them (float32 storage), in float64"""
    return np.asarray(xyz, dtype=np.float32).astype(np.float64)


def branch_geometry(pid, xyz):
    """[(chain, path length, chord)] of the branches, computed in float64 from the float32-stored coordinates"""
    X = stored(xyz)
    _, _, br = cut_branches(list(pid))
    return [(ch, float(arc_lengths(X[ch])[-1]), float(np.sqrt(((X[ch[-1]] - X[ch[0]]) ** 2).sum()))) for c in sorted(br) for ch in br[c]]


def tortuous_spacings(geom, fracs, most=2):
    """[(rule, spacing)] with chord < spacing < path length for the `most` most tortuous branches"""
    tort = sorted((g for g in geom if g[1] - g[2] > 0.05 * g[1] and g[1] > 0), key=lambda g: (g[2] / g[1], -g[1]))
    picked = tort[:most - 1] + (tort[-1:] if len(tort) >= most else []) if most > 1 else tort[:1]
    return [(f"chord+{f}*(path-chord) of branch {ch[0]}..{ch[-1]} (path {L:.4f}, chord {c:.4f})", c + f * (L - c)) for ch, L, c in picked for f in fracs]


RATIOS_QUICK = [1, 2, 5, 1.001, 1.004, 2.002, 3.001, 7.003, 0.4]
RATIOS_THOROUGH = sorted({k + e for k in (1, 2, 3, 4, 6, 9, 17) for e in (0, 0.001, 0.002, 0.003, 0.004)} | {0.4, 0.999, 0.05, 0.99999, 1.00001, 3.00001})


def ratio_spacings(L, ratios):
    """[(rule, spacing)]: branch length / ratio, i.e. the branch is `ratio` spacings long (exact multiples, slightly above a
    multiple, shorter than the spacing)"""
    return [(f"length {L:.6f} / {q}", L / q) for q in ratios] if L > 0 else []


def insert_coincident(pid, xyz, r, k, at, dr):
    """a new node on the edge (pid[k], k) at the position of its parent end (at='parent') or child end (at='child') with a
    radius that differs by dr from that end's radius: a zero-length segment with a radius step.  Sorted table again."""
    p = pid[k]
    src = p if at == "parent" else k
    sh = lambda q: q if q < k else q + 1  # noqa: E731
    npid = [sh(q) if q >= 0 else -1 for q in pid[:k]] + [p, k] + [k + 1 if q == k else sh(q) for q in pid[k + 1:]]
    nxyz = np.concatenate([xyz[:k], xyz[src][None, :], xyz[k:]])
    nr = list(r[:k]) + [max(0.05, r[src] + dr)] + list(r[k:])
    return tuple(npid), nxyz, nr


def sibling_end_pairs(pid):
    """[(u, w)]: ends of two different branches that start at the same critical node"""
    _, _, br = cut_branches(list(pid))
    return [(a[-1], b[-1]) for c in sorted(br) for a, b in itertools.combinations(br[c], 2)]


def make_siblings_coincide(pid, xyz, u, w):
    """translate the subtree of w so that w lies on u: two sibling branches with different routes end at one position"""
    out = np.array(xyz, dtype=np.float64, copy=True)
    ch, st, sub = children_of(pid), [w], []
    while st:
        v = st.pop()
        sub.append(v)
        st.extend(ch[v])
    out[sub] += out[u] - out[w]
    out[w] = out[u]
    return out


def coincident_sibling_ends(pid, xyz):
    """the pairs of sibling branch ends that lie (nearly) at one position: there pairing branches with children BY POSITION is
    ambiguous as soon as the branch list is not in the children's order"""
    X = stored(xyz)
    return [(u, w) for u, w in sibling_end_pairs(pid) if float(np.abs(X[u] - X[w]).max()) <= 1e-3]


def sibling_ends_distinct(pid, xyz):
    return not coincident_sibling_ends(pid, xyz)


# ----------------------------------------------------------------------------- IsometricResampler
def check_resample_tree(rep, spec):
    from swcgeom.transforms.tree import IsometricResampler

    carrier = "Resampler.__call__"
    pid, xyz, r, delta = spec["pid"], np.array(spec["xyz"], dtype=np.float32), np.array(spec["r"], dtype=np.float32), spec["distance"]
    variant = "root-type-%d" % spec["type"][0]
    t = make_tree(pid, xyz, r, spec["type"])
    try:
        if spec.get("rotate_branches") is not None or spec.get("permute_branches") is not None:
            # the assembler pairs each resampled branch with the child it ends at BY POSITION, so the order in which a node's
            # branches are stored must not matter: same pipeline as Resampler.__call__, every node's branch list reordered
            # (rotate_branches = k: cyclic rotation by k; permute_branches = k: the k-th permutation, in itertools order and
            # modulo m!, of a list of m branches; 0 = the order of BranchTree.from_tree)
            from swcgeom.core import BranchTree
            from swcgeom.transforms.branch import BranchIsometricResampler
            from swcgeom.transforms.branch_tree import BranchTreeAssembler

            carrier = "BranchTreeAssembler.__call__"
            bt, rs = BranchTree.from_tree(t), BranchIsometricResampler(delta)
            if spec.get("permute_branches") is not None:
                reorder = lambda L: [L[q] for q in nth_permutation(len(L), int(spec["permute_branches"]))]  # noqa: E731
            else:
                k0 = int(spec["rotate_branches"])
                reorder = lambda L: L[k0 % len(L):] + L[:k0 % len(L)]  # noqa: E731
            bt.branches = {k: reorder([rs(br) for br in brs]) for k, brs in bt.branches.items()}
            out = BranchTreeAssembler()(bt)
        else:
            out = IsometricResampler(delta)(t)
    except Exception as e:
        rep(carrier, "operation-raises", spec, f"{type(e).__name__}: {e}", "a resampled tree", variant=variant + "/" + type(e).__name__)
        return
    opid, oxyz, orr = [int(p) for p in out.pid()], np.array(out.xyz(), dtype=np.float64), np.array(out.r(), dtype=np.float64)
    if not table_ok(opid) or [int(v) for v in out.id()] != list(range(len(opid))):
        rep(carrier, "critical-nodes-kept", spec, f"output is not a single-rooted tree table: id={list(map(int, out.id()))} pid={opid}", "a tree")
        return
    if not all_finite(oxyz, orr):
        # every output number is finite; NaN would slip through every `> TOL` below (and pair with anything), so stop here
        bad = non_finite_rows(np.concatenate([oxyz, orr[:, None]], axis=1))
        rep(carrier, "output-finite", spec, f"non-finite x/y/z/r at output nodes {bad[:8]}: {[oxyz[i].tolist() + [float(orr[i])] for i in bad[:3]]}", "every output coordinate and radius finite")
        _, cb, _ = cut_branches(opid)
        if any(i in cb for i in bad):
            rep(carrier, "critical-nodes-kept", spec, f"critical output nodes {[i for i in bad if i in cb][:8]} are not finite", "root/furcations/tips at their positions", variant="non-finite")
        return
    A = (list(pid), xyz.astype(np.float64), r.astype(np.float64))
    B = (opid, oxyz, orr)
    pairing = pair_branches(A, B)
    lin, lout = total_length(pid, xyz), total_length(opid, oxyz)
    if lout > lin + TOL:
        rep(carrier, "length-does-not-grow", spec, f"length {lout:.6f}", f"<= {lin:.6f}")
    if pairing is None:
        _, ca, _ = cut_branches(list(pid))
        _, cb, _ = cut_branches(opid)
        rep(carrier, "critical-nodes-kept", spec,
            f"{len(opid)} nodes, pid={opid[:16]}, critical nodes at {[[round(float(v), 4) for v in oxyz[i]] for i in sorted(cb)][:8]}",
            f"root/furcations/tips at {[[round(float(v), 4) for v in xyz[i]] for i in sorted(ca)][:8]} with the same connectivity", variant="single-stem" if list(pid[1:2]) == [0] and list(pid).count(0) == 1 else None)
        # weaker polyline check without the pairing
        _, _, ba = cut_branches(list(pid))
        lines = [[xyz[v] for v in c] for cs in ba.values() for c in cs] or [[xyz[0]]]
        for k in range(len(opid)):
            d = min(dist_point_polyline(oxyz[k], P) for P in lines)
            if d > TOL:
                rep(carrier, "samples-on-polyline", spec, f"output node {k} at {oxyz[k].tolist()} is {d:.5f} away from every branch", f"<= {TOL}")
                break
        return
    for ca, cb, (epos, erad, eline, step) in pairing[1]:
        Pin, Rin = [A[1][v] for v in ca], [A[2][v] for v in ca]
        Pout, Rout = [oxyz[v] for v in cb], [orr[v] for v in cb]
        L = arc_lengths(Pin)[-1]
        desc = f"branch {ca} (length {L:.5f}) -> {len(cb)} output nodes"
        if eline > TOL:
            rep(carrier, "samples-on-polyline", spec, f"{desc}: a sample is {eline:.5f} off the polyline", f"<= {TOL}")
        if step > delta * (1 + 1e-6) + 1e-6 or epos > TOL:
            got_steps = [round(float(np.sqrt(((Pout[k + 1] - Pout[k]) ** 2).sum())), 5) for k in range(len(Pout) - 1)]
            rep(carrier, "equal-steps-not-longer-than-spacing", spec, f"{desc}: chord steps {got_steps[:10]}, max offset from equal arc steps {epos:.5f}",
                f"the {len(cb) - 1} steps equal in arc length (L/{len(cb) - 1} = {step:.5f}) and none longer than the spacing {delta}", variant="zero-length" if L == 0 else None)
        elif erad > TOL:
            rep(carrier, "radius-linear", spec, f"{desc}: radii {[round(float(v), 5) for v in Rout][:10]} off by {erad:.5f}",
                f"linear in arc length between knot radii {[round(float(v), 5) for v in Rin]}")


# ----------------------------------------------------------------------------- single branches
BRANCHES = {
    "straight2": [[0, 0, 0, 1], [3, 0, 0, 2]],
    "bent3": [[0, 0, 0, 1], [1, 0, 0, 2], [1, 2, 0, 1.5]],
    "zigzag4": [[0, 0, 0, 1], [1, 1, 0, 2], [2, 0, 0.5, 3], [3, 1, 1, 0.5]],
    "uneven5": [[1, 2, 3, 1], [1.25, 2, 3, 1.5], [4, 2, 3, 1], [4, 2.5, 3, 2], [4, 2.5, 9, 0.25]],
    "zero-mid": [[0, 0, 0, 1], [1, 0, 0, 2], [1, 0, 0, 2], [2, 0, 0, 3]],
    "zero-mid-r-jump": [[0, 0, 0, 1], [1, 0, 0, 2], [1, 0, 0, 4], [2, 0, 0, 3]],
    "zero-first": [[0, 0, 0, 1], [0, 0, 0, 1], [1, 0, 0, 3]],
    "zero-first-r-differs": [[0, 0, 0, 1], [0, 0, 0, 2], [1, 0, 0, 3]],
    "zero-last": [[0, 0, 0, 1], [1, 0, 0, 3], [1, 0, 0, 3]],
    "zero-last-r-differs": [[0, 0, 0, 1], [1, 0, 0, 2], [1, 0, 0, 3]],
    "revisit": [[0, 0, 0, 1], [2, 0, 0, 2], [0, 0, 0, 3], [0, 1, 0, 1]],
    "all-coincident2": [[1, 1, 1, 1], [1, 1, 1, 1]],
    "all-coincident3-r-differs": [[1, 1, 1, 1], [1, 1, 1, 2], [1, 1, 1, 3]],
    "closed-loop": [[0, 0, 0, 1], [1, 0, 0, 2], [1, 1, 0, 2], [0, 0, 0, 1]],
    # tortuous: the chord (end-to-end distance) is much shorter than the path
    "hairpin5": [[0, 0, 0, 1], [2, 0, 0, 2], [4, 0, 0, 1.5], [2, 0.3, 0, 1], [0, 0.3, 0, 2]],
    "uturn4": [[1, 1, 1, 1], [4, 1, 1, 2], [4, 1.5, 1, 2], [1, 1.5, 1, 0.5]],
    "nearly-closed-square5": [[0, 0, 0, 1], [2, 0, 0, 1.5], [2, 2, 0, 2], [0, 2, 0, 1.5], [0, 0.2, 0, 1]],
    "retrace3": [[1, 1, 1, 1], [4, 1, 1, 3], [1, 1, 1, 2]],
    "retrace5-zero-turn": [[0, 0, 0, 1], [0, 2, 0, 2], [0, 3, 0, 1], [0, 3, 0, 3], [0, 0.5, 0, 2]],
    "helix13": [[round(float(np.cos(0.5 * np.pi * k)), 3), round(float(np.sin(0.5 * np.pi * k)), 3), round(0.04 * k, 3), 1 + 0.25 * (k % 4)] for k in range(13)],
    "zigzag-fold8": [[0.4 * k, 1.5 * (k % 2), 0.1 * k, 0.5 + 0.3 * (k % 3)] for k in range(8)],
    # 2-node branches, exact and inexact lengths, short branches
    "short2": [[0, 0, 0, 1], [0.25, 0, 0, 2]],
    "diag2-length3": [[0, 0, 0, 1], [1, 2, 2, 0.5]],
    "tiny2": [[5, 5, 5, 2], [5, 5.001, 5, 1]],
    "unit-steps7": [[k, 0, 0, 1 + 0.5 * (k % 2)] for k in range(7)],
    "inexact3": [[0.1, 0.2, 0.3, 1], [1.3, 0.7, 2.9, 2], [2.2, 3.1, 3.3, 0.7]],
    "offset-origin4": [[100.1, 200.2, 300.3, 1], [101.3, 200.2, 300.3, 2], [101.3, 202.7, 300.3, 1], [101.3, 202.7, 304.1, 3]],
    # runs of coincident nodes with radius steps
    "zero-run-mid-r-steps": [[0, 0, 0, 1], [1, 0, 0, 2], [1, 0, 0, 4], [1, 0, 0, 0.5], [3, 0, 0, 1]],
    "zero-second-r-jump-then-long": [[0, 0, 0, 1], [0.5, 0, 0, 1], [0.5, 0, 0, 5], [4.5, 0, 0, 0.5]],
    "zero-twice": [[0, 0, 0, 1], [1, 1, 0, 3], [1, 1, 0, 1], [2, 1, 1, 2], [2, 1, 1, 0.5], [2, 3, 1, 1]],
}


def chord_path(b):
    P = stored(np.array(b, dtype=np.float64)[:, :3])
    return float(np.sqrt(((P[-1] - P[0]) ** 2).sum())), float(arc_lengths(P)[-1])


def branch_spacings(b, quick=True):
    """[(rule, spacing)] derived from the geometry of the branch: between chord and path length for tortuous branches;
    branch length = ratio * spacing for exact multiples, ratios slightly above a multiple and ratios < 1"""
    c, L = chord_path(b)
    out = []
    if L > 0 and L - c > 0.05 * L:
        out += [(f"chord+{f}*(path-chord) (path {L:.4f}, chord {c:.4f})", c + f * (L - c)) for f in ((0.02, 0.3, 0.6, 0.98) if quick else (0.0, 0.02, 0.1, 0.3, 0.5, 0.6, 0.8, 0.98))]
    out += ratio_spacings(L, RATIOS_QUICK if quick else RATIOS_THOROUGH)
    return [(rule, d) for rule, d in out if d > 0 and d >= L / 5000]  # a spacing is > 0 (and the output stays small)


def random_branch(rng):
    """(kind, xyzr): uniform cloud walk (the original generator), folded (out and back), loop (polygon that ends at or
    near its start), collinear with commensurable steps"""
    kind = rng.choice(["uniform", "uniform", "folded", "loop", "collinear"])
    k = rng.randint(2, 9) if kind in ("uniform", "collinear") else rng.randint(3, 9)
    rad = lambda: round(rng.uniform(0.2, 3), 2)  # noqa: E731
    if kind == "uniform":
        b = [[round(rng.uniform(-3, 3), 2) for _ in range(3)] + [rad()] for _ in range(k)]
    elif kind == "folded":
        d, e, f = FRAMES[rng.randrange(len(FRAMES))]
        t, ts = 0.0, [0.0]
        for j in range(1, k):
            t += rng.uniform(0.4, 2.0) * (1 if 2 * j <= k else -1)
            ts.append(t)
        shift = rng.choice([0.0, 1.0]) * ts[-1]  # 1.0: the end is brought back to the level of the start
        org = [rng.uniform(-2, 2) for _ in range(3)]
        b = [[round(org[a] + (ts[j] - shift * j / (k - 1)) * d[a] + 0.3 * rng.random() * (j / k) * e[a] + rng.uniform(-0.05, 0.05) * f[a], 3) for a in range(3)] + [rad()] for j in range(k)]
    elif kind == "loop":
        d, e, f = FRAMES[rng.randrange(len(FRAMES))]
        frac, rho = rng.choice([1.0, 1.0, 0.97, 0.9, 0.75]), rng.uniform(0.3, 2.5)
        org = [rng.uniform(-2, 2) for _ in range(3)]
        b = [[round(org[a] + rho * (1 - np.cos(2 * np.pi * frac * j / (k - 1))) * d[a] + rho * np.sin(2 * np.pi * frac * j / (k - 1)) * e[a] + rng.uniform(-0.1, 0.1) * f[a], 3) for a in range(3)] + [rad()] for j in range(k)]
        if frac == 1.0:
            b[-1][:3] = b[0][:3]
    else:
        step, axis, pos = rng.choice([0.25, 0.5, 1.0, 0.3]), rng.randrange(3), [float(rng.randint(-2, 2)) for _ in range(3)]
        b = []
        for _ in range(k):
            b.append([round(v, 6) for v in pos] + [rad()])
            pos[axis] += step * rng.randint(0, 4)
    if rng.random() < 0.3:
        j = rng.randrange(k - 1)
        b[j + 1][:3] = b[j][:3]
    return kind, b


def check_branch_resampler(rep, spec):
    from swcgeom.core import Branch
    from swcgeom.transforms.branch import BranchIsometricResampler, BranchLinearResampler

    xyzr = np.array(spec["xyzr"], dtype=np.float32)
    if spec["op"] == "linear":
        carrier, tr = "BranchLinearResampler.resample", BranchLinearResampler(spec["n"])
    else:
        carrier, tr = "BranchIsometricResampler.resample", BranchIsometricResampler(spec["distance"])
    try:
        out = tr(Branch.from_xyzr(xyzr))
        o = np.array(out.xyzr(), dtype=np.float64)
    except Exception as e:
        rep(carrier, "operation-raises", spec, f"{type(e).__name__}: {e}", "a resampled branch")
        return
    Pin, Rin = xyzr[:, :3].astype(np.float64), xyzr[:, 3].astype(np.float64)
    L = arc_lengths(Pin)[-1]
    if spec["op"] == "linear" and len(o) != spec["n"]:
        rep(carrier, "branch-endpoints-kept", spec, f"{len(o)} points", f"{spec['n']} points")
        return
    if len(o) == 1 and spec["op"] == "isometric" and L <= TOL:
        # a zero-length branch: both end points are the same position, one sample there carries them
        if not all_finite(o):
            rep(carrier, "output-finite", spec, f"non-finite single point {o[0].tolist()}", "every output coordinate and radius finite")
        if exceeds(float(np.abs(o[0, :3] - Pin[0]).max())) or exceeds(min(abs(o[0, 3] - x) for x in Rin)):
            rep(carrier, "branch-endpoints-kept", spec, f"single point {o[0].tolist()}", f"position {Pin[0].tolist()} with one of the radii {Rin.tolist()}")
        return
    if len(o) < 2:
        rep(carrier, "branch-endpoints-kept", spec, f"{len(o)} point(s): {o.tolist()}", "both end points")
        return
    if not all_finite(o):
        bad = non_finite_rows(o)
        rep(carrier, "output-finite", spec, f"non-finite x/y/z/r at output points {bad[:8]} of {len(o)}: {[o[i].tolist() for i in bad[:3]]}", "every output coordinate and radius finite")
    e0 = float(np.abs(o[0, :3] - Pin[0]).max())
    e1 = float(np.abs(o[-1, :3] - Pin[-1]).max())
    # Radii are a function of arc length.  Where a zero-length first / last segment gives several input nodes the
    # same arc length as an end point, the radius there is double-valued and any of those nodes' radii is a
    # correct "linear interpolation along the branch" (the property fixes end *points*; see DESIGN.md section 9).
    S = arc_lengths(Pin)
    r0 = min(abs(o[0, 3] - Rin[k]) for k in range(len(Rin)) if S[k] <= TOL)
    r1 = min(abs(o[-1, 3] - Rin[k]) for k in range(len(Rin)) if S[k] >= L - TOL)
    ends_r_ok = not (exceeds(r0) or exceeds(r1))
    if exceeds(e0) or exceeds(e1):
        rep(carrier, "branch-endpoints-kept", spec, f"ends at {o[0, :3].tolist()} and {o[-1, :3].tolist()}", f"{Pin[0].tolist()} and {Pin[-1].tolist()}", variant="position")
    elif not ends_r_ok:
        rep(carrier, "branch-endpoints-kept", spec, f"end radii {o[0, 3]:.4f}, {o[-1, 3]:.4f}", f"{Rin[0]:.4f}, {Rin[-1]:.4f}", variant="radius")
    if not all_finite(o):
        return  # distances to / along the polyline are not defined for non-finite samples (reported above)
    epos, erad, eline, step = branch_deviation(Pin, Rin, o[:, :3], o[:, 3])
    if exceeds(eline):
        rep(carrier, "samples-on-polyline", spec, f"a sample is {eline:.5f} off the polyline", f"<= {TOL}")
    if exceeds(epos) or (spec["op"] == "isometric" and step > spec["distance"] * (1 + 1e-6) + 1e-6):
        rep(carrier, "equal-steps-not-longer-than-spacing", spec, f"points {np.round(o[:, :3], 4).tolist()[:8]} (max offset {epos:.5f}, step {step:.5f})", "equal arc-length steps" + (f" <= {spec['distance']}" if spec["op"] == "isometric" else ""))
    elif exceeds(erad) and ends_r_ok:
        rep(carrier, "radius-linear", spec, f"radii {np.round(o[:, 3], 4).tolist()[:10]} off by {erad:.5f}", f"linear between knot radii {Rin.tolist()}")


# ----------------------------------------------------------------------------- degenerate geometry (generic)
# Coincident consecutive nodes are ordinary in reconstructions (a point clicked twice, a branch point traced again as the first
# point of the daughter).  Every entry point gets them: at the first / a middle / the last node of a branch, with the same and
# with another radius, in runs of 2 and 3, and as whole branches of length zero.
DEGENERATE_BASES = ("straight2", "diag2-length3", "tiny2", "bent3", "inexact3", "zigzag4", "offset-origin4", "uneven5")


def duplicate_node(b, j, copies, dr):
    """the branch with `copies` extra nodes at the position of node j, right after it: a run of copies + 1 coincident nodes
    (copies zero-length segments).  dr = 0: identical nodes, else the radii along the run step by dr."""
    b = [[float(v) for v in row] for row in b]
    run = [b[j][:3] + [max(0.05, b[j][3] + dr * (c + 1))] for c in range(copies)]
    return b[:j + 1] + run + b[j + 1:]


def coincident_branch(k, at, dr):
    """k nodes at one position: a branch of total length zero"""
    return [[float(v) for v in at] + [max(0.05, 1.0 + dr * i)] for i in range(k)]


def degenerate_branches():
    """yields (input family, how it was made, xyzr)"""
    for name in DEGENERATE_BASES:
        b = BRANCHES[name]
        if len(b) == 2:
            yield "two-node", dict(base=name), [[float(v) for v in row] for row in b]
        where = [("first", 0), ("last", len(b) - 1)] + ([("middle", len(b) // 2)] if len(b) >= 3 else [])
        for pos, j in where:
            for copies in (1, 2):
                for dr in (0.0, 0.75):
                    yield f"duplicated-{pos}-node" + ("-run3" if copies == 2 else ""), dict(base=name, node=j, copies=copies, dr=dr), duplicate_node(b, j, copies, dr)
        # both ends at once (every segment next to an end point has length zero)
        yield "duplicated-first-and-last-node", dict(base=name, node=[0, len(b)], copies=1, dr=0.5), duplicate_node(duplicate_node(b, len(b) - 1, 1, 0.5), 0, 1, 0.5)
    for k in (2, 3, 5):
        for at in ((0.0, 0.0, 0.0), (1.25, -2.5, 3.0), (100.1, 200.2, 300.3)):
            for dr in (0.0, 0.5):
                yield "all-nodes-coincident", dict(nodes=k, at=list(at), dr=dr), coincident_branch(k, at, dr)


def degenerate_branch_spacings(b):
    """[(rule, spacing)]: much larger and much smaller than the branch, about the branch length, and two fixed ones"""
    _, L = chord_path(b)
    if L <= 0:
        return [("fixed", 1e-3), ("fixed", 0.3), ("fixed", 100.0)]
    return [(f"100 * length {L:.6f}", 100 * L), (f"length {L:.6f} / 150", L / 150), (f"length {L:.6f} / 2.5", L / 2.5), (f"length {L:.6f} / 1", L), ("fixed", 0.3)]


def subtree_of(pid, w):
    ch, st, sub = children_of(pid), [w], []
    while st:
        v = st.pop()
        sub.append(v)
        st.extend(ch[v])
    return sub


def collapse_chain(pid, xyz, chain):
    """every node of the chain (a branch: critical node .. next critical node) moved onto its first node, the subtrees
    hanging below translated with it: a whole branch of length zero between two critical nodes"""
    out = np.array(xyz, dtype=np.float64, copy=True)
    for v in chain[1:]:
        out[subtree_of(pid, v)] += out[chain[0]] - out[v]
        out[v] = out[chain[0]]
    return out


def edge_place(pid, k, at):
    """where a coincident node inserted on the edge (pid[k], k) sits: on the soma, on a furcation (child on top of its parent),
    at the tip of a branch, at the furcation end of a branch, or inside a branch"""
    nch = lambda v: list(pid).count(v)  # noqa: E731
    if at == "parent":
        p = pid[k]
        return "on-soma" if p == 0 else ("on-furcation" if nch(p) >= 2 else "mid-branch")
    return "at-tip" if nch(k) == 0 else ("at-furcation-end" if nch(k) >= 2 else "mid-branch")


def non_root_furcations(pid):
    return [v for v in range(1, len(pid)) if list(pid).count(v) >= 2]


def degenerate_tree_tables(quick):
    """[(table, segments per edge)]: every small table plain and with 2-segment edges, plus the larger tables that have a
    furcation away from the soma (and, 6 nodes, a branch between two such furcations)"""
    out = [(pid0, s) for pid0 in all_sorted_tables_upto(4, 2) for s in (1, 2)]
    out += [(pid0, 1) for pid0 in all_sorted_tables_upto(5, 5) if non_root_furcations(pid0)]
    out += [(pid0, 1) for pid0 in all_sorted_tables_upto(6, 6) if len(non_root_furcations(pid0)) >= 2 and any(pid0[v] in non_root_furcations(pid0) for v in non_root_furcations(pid0))]
    if not quick:
        out += [(pid0, 2) for pid0 in all_sorted_tables_upto(5, 5) if non_root_furcations(pid0)] + [(pid0, 1) for pid0 in all_sorted_tables_upto(6, 6) if non_root_furcations(pid0) and (pid0, 1) not in out]
    return out


def degenerate_trees(quick):
    """yields (input family, how it was made, pid, xyz, r): trees with a run of coincident nodes on an edge (same radius; run
    of 3 with radius steps) and trees with a whole zero-length branch"""
    for pid0, s in degenerate_tree_tables(quick):
        pid1 = expand_table(pid0, s)
        xyz1, r1 = coords_for(pid1), radii_for(len(pid1))
        for k in range(1, len(pid1)):
            for at in ("parent", "child"):
                place = edge_place(pid1, k, at)
                if quick and ((place == "mid-branch" and len(pid0) > 3) or (place in ("on-soma", "at-tip") and len(pid0) > 4)):
                    continue  # inside a branch: also family (2) of derived_tree_cases; soma / tips: the small tables have them all
                for copies, dr in ((1, 0.0), (2, 0.6)):
                    pid, xyz, r = pid1, xyz1, r1
                    for c in range(copies):  # the edge into k keeps its number + c after each insertion at the child end
                        pid, xyz, r = insert_coincident(pid, xyz, r, k + (c if at == "child" else 0), at, dr)
                    yield f"duplicated-node-{place}" + ("-run3" if copies == 2 else ""), dict(expanded=[list(pid0), s], inserted=dict(on_edge_to=k, at=at, dr=dr, copies=copies)), pid, xyz, r
        _, _, br = cut_branches(list(pid1))
        for c in sorted(br):
            for chain in br[c]:
                if quick and c == 0 and len(pid0) > 4 and list(pid1).count(chain[-1]) == 0:
                    continue  # tips on the soma: the small tables have them all
                kind = ("tip" if list(pid1).count(chain[-1]) == 0 else "inner") + ("-from-soma" if c == 0 else "")
                yield f"zero-length-branch-{kind}", dict(expanded=[list(pid0), s], collapsed=[int(v) for v in chain]), pid1, collapse_chain(pid1, xyz1, chain), r1


def degenerate_tree_spacings(pid, xyz, most=4):
    """[(rule, spacing)]: much larger than every branch, much smaller than the shortest positive branch, about a branch, fixed"""
    Ls = sorted(L for _, L, _ in branch_geometry(pid, xyz) if L > 0)
    out = [("fixed", 0.3), ("fixed", 100.0)]
    if Ls:
        out += [(f"shortest positive branch length {Ls[0]:.6f} / 25", Ls[0] / 25), (f"longest branch length {Ls[-1]:.6f} / 1", Ls[-1])]
    return out if most >= 4 else (out[:3] if most == 3 else [out[0], out[-1]])


# ----------------------------------------------------------------------------- smoothing
def check_branch_smoother(rep, spec):
    from swcgeom.core import Branch
    from swcgeom.transforms.branch import BranchConvSmoother

    carrier = "BranchConvSmoother.__call__"
    xyzr = np.array(spec["xyzr"], dtype=np.float32)
    try:
        out = BranchConvSmoother(spec["window"])(Branch.from_xyzr(xyzr.copy()))
        o = np.array(out.xyzr(), dtype=np.float64)
        oid, opid = [int(v) for v in out.id()], [int(v) for v in out.pid()]
    except Exception as e:
        rep(carrier, "operation-raises", spec, f"{type(e).__name__}: {e}", "a smoothed branch")
        return
    n = len(xyzr)
    if len(o) != n or oid != list(range(n)) or opid != list(range(-1, n - 1)):
        rep(carrier, "smoothing-keeps-ends-count-radii", spec, f"{len(o)} nodes id={oid} pid={opid}", f"{n} nodes in a chain", variant="count")
        return
    if not np.array_equal(o[0, :3], xyzr[0, :3].astype(np.float64)) or not np.array_equal(o[-1, :3], xyzr[-1, :3].astype(np.float64)):
        rep(carrier, "smoothing-keeps-ends-count-radii", spec, f"ends {o[0, :3].tolist()} {o[-1, :3].tolist()}", f"{xyzr[0, :3].tolist()} {xyzr[-1, :3].tolist()}", variant="ends")
    if not np.array_equal(o[:, 3], xyzr[:, 3].astype(np.float64)):
        rep(carrier, "smoothing-keeps-ends-count-radii", spec, f"radii {o[:, 3].tolist()}", f"{xyzr[:, 3].tolist()}", variant="radii")
    if not np.all(np.isfinite(o)):
        rep(carrier, "smoothing-keeps-ends-count-radii", spec, f"non-finite coordinates {o.tolist()}", "finite coordinates", variant="finite")
        rep(carrier, "output-finite", spec, f"non-finite x/y/z/r at nodes {non_finite_rows(o)[:8]}", "every output coordinate and radius finite")


def check_tree_smoother(rep, spec):
    from swcgeom.transforms.tree import TreeSmoother

    carrier = "TreeSmoother.__call__"
    pid, xyz, r = spec["pid"], np.array(spec["xyz"], dtype=np.float32), np.array(spec["r"], dtype=np.float32)
    t = make_tree(pid, xyz, r, spec["type"])
    before = {k: np.array(t.get_ndata(k), copy=True) for k in t.keys()}
    try:
        out = TreeSmoother(spec["window"])(t)
    except Exception as e:
        rep(carrier, "operation-raises", spec, f"{type(e).__name__}: {e}", "a smoothed tree")
        return
    n = len(pid)
    if out.number_of_nodes() != n or [int(v) for v in out.pid()] != list(pid) or [int(v) for v in out.id()] != list(range(n)):
        rep(carrier, "smoothing-keeps-ends-count-radii", spec, f"{out.number_of_nodes()} nodes pid={list(map(int, out.pid()))}", f"{n} nodes pid={list(pid)}", variant="count")
        return
    if not np.array_equal(out.r(), r) or [int(v) for v in out.type()] != list(spec["type"]):
        rep(carrier, "smoothing-keeps-ends-count-radii", spec, f"r={out.r().tolist()} type={out.type().tolist()}", f"r={r.tolist()} type={spec['type']}", variant="radii")
    _, crit, _ = cut_branches(list(pid))
    oxyz = np.array(out.xyz())
    moved = [i for i in sorted(crit) if not np.array_equal(oxyz[i], xyz[i])]
    if moved:
        rep(carrier, "smoothing-keeps-ends-count-radii", spec, f"end point(s) {moved} moved to {[oxyz[i].tolist() for i in moved][:4]}", f"{[xyz[i].tolist() for i in moved][:4]}", variant="ends")
    if not np.all(np.isfinite(oxyz)):
        rep(carrier, "smoothing-keeps-ends-count-radii", spec, "non-finite coordinates", "finite coordinates", variant="finite")
    if not all_finite(oxyz, out.r()):
        rep(carrier, "output-finite", spec, f"non-finite x/y/z/r at nodes {non_finite_rows(np.concatenate([np.asarray(oxyz, dtype=np.float64), np.asarray(out.r(), dtype=np.float64)[:, None]], axis=1))[:8]}", "every output coordinate and radius finite")
    if any(not np.array_equal(t.get_ndata(k), before[k]) for k in before):
        rep(carrier, "smoothing-keeps-ends-count-radii", spec, "the input tree was modified", "input unchanged", variant="input-modified")


# ----------------------------------------------------------------------------- driver
DISTANCES = [0.3, 1, 2.5, 100]
LINEAR_N = (2, 3, 4, 7, 16, 64, 257)


def smoothing_windows(n_nodes):
    """window 1, even and odd windows, and windows larger than the branch (n + 1, 2 n + 1, 2 n + 2, 50)"""
    return sorted({1, 2, 3, 4, 5, 6, 8, n_nodes + 1, 2 * n_nodes + 1, 2 * n_nodes + 2, 50})


def tree_case(family, pid, xyz, r, delta, rule=None, root_type=1, **extra):
    spec = dict(kind="resample-tree", family=family, distance=float(delta), **extra, **tree_input(pid, xyz, r, root_type))
    if rule is not None:
        spec["spacing_rule"] = rule
    return spec


def derived_tree_cases(quick, rng, seed):
    """the generic input families for IsometricResampler / BranchTreeAssembler beyond (table x coordinates x fixed spacing):
    yields (case group, spec)"""
    tab4, tab5, tab6 = list(all_sorted_tables_upto(4, 2)), list(all_sorted_tables_upto(5, 2)), list(all_sorted_tables_upto(6, 2))

    # (1a) folded coordinate modes on the plain tables: chains fold back; spacing between chord and path of the most tortuous branches
    for pid in tab6 if quick else all_sorted_tables_upto(7, 2):
        if not has_chain(pid):
            continue
        for shape in FOLD_SHAPES:
            big = len(pid) == (6 if quick else 7)  # the largest tables: one shape each, fewer spacings
            if big and shape != FOLD_SHAPES[sum(pid) % len(FOLD_SHAPES)]:
                continue
            xyz = folded_coords(pid, shape)
            for rule, delta in tortuous_spacings(branch_geometry(pid, xyz), (0.3, 0.8) if quick else ((0.05, 0.4, 0.9) if big else (0.05, 0.3, 0.55, 0.8, 0.97)), most=1 if (quick or big) else 2):
                yield "resample-tree-folded", tree_case("folded-" + shape, pid, xyz, radii_for(len(pid)), delta, rule, coords="folded-" + shape)
    # (1b) every edge of a small table expanded to a chain of s segments, all branches folded
    for pid0 in tab4 if quick else tab5:
        for s in (2, 3, 4) if quick else (2, 3, 4, 5, 6):
            pid = expand_table(pid0, s)
            for shape in FOLD_SHAPES:
                xyz = folded_coords(pid, shape, None if (s + len(pid0)) % 2 else random.Random(seed * 77 + s))
                cases = tortuous_spacings(branch_geometry(pid, xyz), (0.15, 0.6) if quick else (0.02, 0.4, 0.9), most=2 if len(pid0) > 2 else 1)
                cases += [("fixed", d) for d in ((0.45,) if quick else (0.3, 0.45, 2.5))]
                for rule, delta in cases:
                    for root_type in (1,) if (quick or s > 2) else (1, 3):
                        yield "resample-tree-expanded-folded", tree_case("expanded-folded-" + shape, pid, xyz, radii_for(len(pid)), delta, rule, root_type, coords="folded-" + shape, expanded=[list(pid0), s])

    # (2) a coincident consecutive node with another radius on every edge, at its parent end (start of a branch at the soma / at a
    #     furcation, or middle of a branch) and at its child end (middle or end of a branch); the samples reach the next segment
    for pid0 in tab5 if quick else tab6:
        for coords in ("walk",) if (quick or len(pid0) > 5) else ("walk", "hairpin"):
            xyz0 = coords_for(pid0) if coords == "walk" else folded_coords(pid0, "hairpin")
            for k in range(1, len(pid0)):
                for at in ("parent", "child"):
                    dr = 1.5 if (k + len(at)) % 2 else -0.6
                    pid, xyz, r = insert_coincident(pid0, xyz0, radii_for(len(pid0)), k, at, dr)
                    nxt = float(np.sqrt(((stored(xyz0)[k] - stored(xyz0)[pid0[k]]) ** 2).sum()))
                    cases = [("fixed", 0.3)] + ([(f"0.45 * the segment ({nxt:.4f}) next to the zero-length one", 0.45 * nxt)] if nxt > 0 and (not quick or len(pid0) <= 4 or at == "parent") else [])
                    for rule, delta in cases + ([] if quick else [("fixed", 1.0)]):
                        yield "resample-tree-zero-length-radius-step", tree_case("zero-length-radius-step", pid, xyz, r, delta, rule, coords=coords, inserted=dict(on_edge_to=k, at=at, dr=dr))

    # (3) branch length = ratio * spacing: exact multiples, slightly above a multiple, branch shorter than the spacing
    for ti, pid in enumerate(tab5 if quick else tab6):
        for coords in ("walk", "jitter") if len(pid) <= 5 else (("walk", "jitter")[ti % 2],):
            xyz = coords_for(pid, random.Random(seed * 31 + ti) if coords == "jitter" else None)
            geom = branch_geometry(pid, xyz)
            picked = geom if len(pid) <= (3 if quick else 5) else [geom[ti % len(geom)]]
            for ch, L, _ in picked:
                for rule, delta in ratio_spacings(L, RATIOS_QUICK if quick else RATIOS_THOROUGH):
                    yield "resample-tree-length-spacing-ratio", tree_case("length-spacing-ratio", pid, xyz, radii_for(len(pid)), delta, f"branch {ch[0]}..{ch[-1]}: {rule}", coords=coords)

    # (5a) BranchTreeAssembler used directly, every node's branch list stored in another order: all permutations at nodes with
    #      <= 3 children, (at least) all permutations that are not their own inverse at nodes with 4 children, a sample for 5
    for pid in tab6 if quick else all_sorted_tables_upto(7, 2):
        mc = max(list(pid).count(i) for i in range(len(pid)))
        if mc < 2:
            continue
        xyz = coords_for(pid)
        for k in permutation_indices(mc, quick or len(pid) > 6, rng):
            cyc = not is_involution(nth_permutation(mc, k))
            for delta in (DISTANCES[0], DISTANCES[-1]) if (mc <= 3 and (cyc or mc == 2) or not quick) else (DISTANCES[0],):
                yield "assembler-permuted-branch-lists", tree_case("permuted-branch-lists", pid, xyz, radii_for(len(pid)), delta, coords="walk", permute_branches=k)
    for pid0 in [(-1, 0, 0, 0), (-1, 0, 0, 0, 0), (-1, 0, 1, 1, 1), (-1, 0, 0, 0, 1, 1, 1)]:  # furcations with 3 and 4 multi-segment branches
        for s in (2, 3):
            pid = expand_table(pid0, s)
            mc = max(list(pid).count(i) for i in range(len(pid)))
            for coords in ("walk", "hairpin"):
                xyz = coords_for(pid) if coords == "walk" else folded_coords(pid, "hairpin")
                if not sibling_ends_distinct(pid, xyz):
                    continue
                for k in permutation_indices(mc, quick, rng):
                    if quick and is_involution(nth_permutation(mc, k)) and coords != "walk":
                        continue
                    yield "assembler-permuted-branch-lists", tree_case("permuted-branch-lists-expanded", pid, xyz, radii_for(len(pid)), 0.7, coords=coords, permute_branches=k, expanded=[list(pid0), s])

    # (5b) two sibling branches with different routes end at ONE position (the subtree of the second is moved there)
    for pid0 in tab5 if quick else tab6:
        for s in (2, 3) if (quick or len(pid0) > 4) else (2, 3, 4):
            pid = expand_table(pid0, s)
            pairs = sibling_end_pairs(pid)
            if quick and len(pid0) == 5:
                pairs = pairs[(s + sum(pid0)) % 2::2]
            for u, w in pairs:
                for coords in ("walk",) if (quick or len(pid0) > 5) else ("walk", "hairpin"):
                    xyz = make_siblings_coincide(pid, coords_for(pid) if coords == "walk" else folded_coords(pid, "hairpin"), u, w)
                    r = radii_for(len(pid))
                    for delta in ((0.3, 0.7, 1.3) if len(pid0) <= 4 else (0.7,)) if quick else (0.3, 0.7, 1.3, 2.5):
                        yield "resample-tree-coincident-sibling-ends", tree_case("coincident-sibling-ends", pid, xyz, r, delta, coords=coords, expanded=[list(pid0), s], coincident=[u, w])
                    # the assembler used directly, in the stored order (well defined for any tree) ...
                    yield "assembler-coincident-sibling-ends", tree_case("coincident-sibling-ends", pid, xyz, r, 0.7, coords=coords, expanded=[list(pid0), s], coincident=[u, w], permute_branches=0)
                    # ... and in other orders where the coincident ends are interchangeable (two tips of equal radius)
                    if list(pid).count(u) == 0 and list(pid).count(w) == 0 and (not quick or len(pid0) <= 4) and coincident_sibling_ends(pid, xyz) == [(u, w)]:
                        r2 = list(r)
                        r2[w] = r2[u]
                        mc = max(list(pid).count(i) for i in range(len(pid)))
                        for k in permutation_indices(mc, True, rng)[:5 if len(pid0) <= 5 else 2]:
                            yield "assembler-coincident-sibling-ends", tree_case("coincident-equal-tips-permuted", pid, xyz, r2, 0.7, coords=coords, expanded=[list(pid0), s], coincident=[u, w], permute_branches=k)


def random_derived_tree(rng):
    """one seeded random member of the families above, freely combined"""
    pid0 = random_sorted_table(rng, rng.randint(2, 6))
    s = rng.randint(1, 4)
    pid = expand_table(pid0, s)
    n = len(pid)
    coords = rng.choice(["walk", "walk"] + list(FOLD_SHAPES))
    jit = random.Random(rng.randrange(10 ** 6))
    xyz = coords_for(pid, jit) if coords == "walk" else folded_coords(pid, coords, jit if rng.random() < 0.7 else None)
    r = [round(rng.uniform(0.2, 3), 2) for _ in range(n)]
    extra = dict(coords=coords, expanded=[list(pid0), s])
    if rng.random() < 0.25 and sibling_end_pairs(pid):
        u, w = rng.choice(sibling_end_pairs(pid))
        xyz = make_siblings_coincide(pid, xyz, u, w)
        extra["coincident"] = [u, w]
    if rng.random() < 0.4:
        k, at, dr = rng.randrange(1, n), rng.choice(["parent", "child"]), rng.choice([-0.15, 0.8, 2.0])
        pid, xyz, r = insert_coincident(pid, xyz, r, k, at, dr)
        extra["inserted"] = dict(on_edge_to=k, at=at, dr=dr)
    geom = [g for g in branch_geometry(pid, xyz) if g[1] > 0]
    how = rng.choice(["fixed", "tortuous", "ratio", "ratio"])
    tort = [g for g in geom if g[1] - g[2] > 0.05 * g[1]]
    if how == "tortuous" and tort:
        ch, L, c = rng.choice(tort)
        f = round(rng.uniform(0.0, 1.0), 3)
        rule, delta = f"chord+{f}*(path-chord) of branch {ch[0]}..{ch[-1]} (path {L:.4f}, chord {c:.4f})", c + f * (L - c)
    elif how == "ratio" and geom:
        ch, L, c = rng.choice(geom)
        q = rng.choice([0.3, 1, 1, 2, 3, 4, 6, 11]) + rng.choice([0, 0, 0.001, 0.002, 0.003, 0.004, round(rng.uniform(0.005, 0.995), 3)])
        rule, delta = f"branch {ch[0]}..{ch[-1]}: length {L:.6f} / {q}", L / q
    else:
        rule, delta = "fixed", round(rng.choice([0.2, 0.5, 1.0, 1.7, 3.3, 8.0]) * rng.uniform(0.8, 1.2), 3)
    if delta <= 1e-6:
        rule, delta = "fixed", 0.5
    if rng.random() < 0.25 and sibling_ends_distinct(pid, xyz):
        extra["permute_branches"] = rng.randrange(0, 120)
    return tree_case("random-derived", pid, xyz, r, delta, rule, rng.choice([1, 3]), **extra)


def run(ctx):
    rep = Reporter(ctx)
    rng = random.Random(ctx.seed)
    quick = ctx.tier == "quick"
    nmax = 6 if quick else 7

    tables = list(all_sorted_tables_upto(nmax))
    for pid in tables:
        n = len(pid)
        modes = [("walk", coords_for(pid)), ("lattice", coords_for(pid, mode="lattice"))]
        if n <= 5 or not quick:
            modes.append(("jitter", coords_for(pid, random.Random(ctx.seed * 1000 + n), mode="walk")))
        for mode, xyz in modes:
            for root_type in (1, 3):
                for delta in DISTANCES:
                    spec = dict(kind="resample-tree", distance=delta, coords=mode, **tree_input(pid, xyz, radii_for(n), root_type))
                    check_resample_tree(rep, spec)
                    ctx.case("resample-tree", dict(pid=list(pid), coords=mode, root_type=root_type, distance=delta), nontrivial=n >= 2)
    # folded / expanded / zero-length radius steps / length-spacing ratios / permuted branch lists / coincident sibling ends
    for group, spec in derived_tree_cases(quick, random.Random(ctx.seed * 7919 + 16), ctx.seed):  # own generators: the original random tail stays as it was
        check_resample_tree(rep, spec)
        ctx.case(group, {k: v for k, v in spec.items() if k not in ("xyz", "r", "type", "kind")})
    # seeded random tail: larger trees, generic coordinates and spacings
    for _ in range(60 if quick else 1500):
        n = rng.randint(7, 14)
        pid = random_sorted_table(rng, n)
        xyz = coords_for(pid, rng)
        delta = round(rng.choice([0.2, 0.5, 1.0, 1.7, 3.3, 8.0]) * rng.uniform(0.8, 1.2), 3)
        spec = dict(kind="resample-tree", distance=delta, coords="random", **tree_input(pid, xyz, [round(rng.uniform(0.2, 3), 2) for _ in range(n)], rng.choice([1, 3])))
        check_resample_tree(rep, spec)
        ctx.case("resample-tree-random", dict(pid=list(pid), distance=delta, xyz0=[float(v) for v in xyz[-1]]))
    rng2 = random.Random(ctx.seed * 7919 + 17)
    for _ in range(80 if quick else 3000):
        spec = random_derived_tree(rng2)
        check_resample_tree(rep, spec)
        ctx.case("resample-tree-random-derived", {k: v for k, v in spec.items() if k not in ("r", "type", "kind")})

    # single branches
    for name, b in BRANCHES.items():
        for nn in LINEAR_N:
            spec = dict(kind="resample-branch", op="linear", n=nn, branch=name, xyzr=b)
            check_branch_resampler(rep, spec)
            ctx.case("branch-linear", dict(branch=name, n=nn))
        for rule, delta in [("fixed", d) for d in DISTANCES + [0.7]] + branch_spacings(b, quick):
            spec = dict(kind="resample-branch", op="isometric", distance=delta, spacing_rule=rule, branch=name, family="fixed" if rule == "fixed" else "derived-spacing", xyzr=b)
            check_branch_resampler(rep, spec)
            ctx.case("branch-isometric", dict(branch=name, distance=delta))
        for w in smoothing_windows(len(b)):
            spec = dict(kind="smooth-branch", window=w, branch=name, xyzr=b)
            check_branch_smoother(rep, spec)
            ctx.case("branch-smooth", dict(branch=name, window=w), nontrivial=len(b) > 2)
    for _ in range(150 if quick else 3000):
        kind, b = random_branch(rng)
        derived = branch_spacings(b, False)
        specs = [dict(kind="resample-branch", op="linear", n=rng.choice([2, 2, 3, 5, 12, rng.randint(2, 12), 40 * len(b)]), branch="random-" + kind, xyzr=b),
                 dict(kind="resample-branch", op="isometric", distance=rng.choice([0.3, 1, 2.5]), spacing_rule="fixed", branch="random-" + kind, family="random-fixed", xyzr=b)]
        for rule, delta in rng.sample(derived, min(3, len(derived))):
            specs.append(dict(kind="resample-branch", op="isometric", distance=delta, spacing_rule=rule, branch="random-" + kind, family="random-derived-spacing", xyzr=b))
        for spec in specs:
            check_branch_resampler(rep, spec)
            ctx.case("branch-random", dict(spec))
        spec = dict(kind="smooth-branch", window=rng.choice([1, 2, 3, 4, 5, len(b), len(b) + 1, 2 * len(b) + 3]), branch="random-" + kind, xyzr=b)
        check_branch_smoother(rep, spec)
        ctx.case("branch-smooth-random", dict(spec))

    # tree smoothing
    for pid in all_sorted_tables_upto(nmax):
        n = len(pid)
        for mode in ("walk", "lattice"):
            xyz = coords_for(pid, mode=mode)
            for w in (1, 3, 5) if quick else (1, 2, 3, 5, 8):
                spec = dict(kind="smooth-tree", window=w, coords=mode, **tree_input(pid, xyz, radii_for(n), 1))
                check_tree_smoother(rep, spec)
                ctx.case("tree-smooth", dict(pid=list(pid), coords=mode, window=w), nontrivial=n >= 3)
    # ... on trees whose branches all have s + 1 >= 3 nodes (straight-ish and folded), even windows, windows beyond the branch
    for pid0 in all_sorted_tables_upto(4 if quick else 5, 2):
        for s in (2, 3, 5) if quick else (2, 3, 4, 5, 7):
            pid = expand_table(pid0, s)
            for mode in ("walk", "hairpin", "closed") if (not quick or s < 5) else ("hairpin",):
                xyz = coords_for(pid) if mode == "walk" else folded_coords(pid, mode)
                for w in (2, 4, s + 2, 2 * len(pid) + 1) if quick else smoothing_windows(s + 1) + [2 * len(pid) + 1]:
                    spec = dict(kind="smooth-tree", family="expanded", window=w, coords=mode, expanded=[list(pid0), s], **tree_input(pid, xyz, radii_for(len(pid)), 1 + 2 * (s % 2)))
                    check_tree_smoother(rep, spec)
                    ctx.case("tree-smooth-expanded", dict(pid=list(pid), coords=mode, window=w))
    # degenerate geometry for every entry point: duplicated first / middle / last node (same and other radius, runs of 2 and 3), all
    # nodes coincident (2, 3, 5 nodes), two-node branches; n = 2 .. n >> knot count; spacings >> and << the branch length
    for family, how, b in degenerate_branches():
        for nn in (2, 3, 5, 40 * len(b)):
            spec = dict(kind="resample-branch", op="linear", n=nn, branch="degenerate", family=family, degenerate=how, xyzr=b)
            check_branch_resampler(rep, spec)
            ctx.case("branch-degenerate-linear", dict(family=family, n=nn, **how))
        for rule, delta in degenerate_branch_spacings(b):
            spec = dict(kind="resample-branch", op="isometric", distance=delta, spacing_rule=rule, branch="degenerate", family=family, degenerate=how, xyzr=b)
            check_branch_resampler(rep, spec)
            ctx.case("branch-degenerate-isometric", dict(family=family, distance=delta, **how))
        for w in sorted({1, 2, 3, 5, len(b), len(b) + 1, 50}):
            spec = dict(kind="smooth-branch", window=w, branch="degenerate", family=family, degenerate=how, xyzr=b)
            check_branch_smoother(rep, spec)
            ctx.case("branch-degenerate-smooth", dict(family=family, window=w, **how), nontrivial=len(b) > 2)
    # ... and inside trees: a duplicated node at the tip of a branch, on a furcation (child on top of its parent), on the soma, at
    # the furcation end of a branch, inside a branch; a whole zero-length branch between two critical nodes
    for family, how, pid, xyz, r in degenerate_trees(quick):
        for rule, delta in degenerate_tree_spacings(pid, xyz, 4 if (not quick or family.startswith("zero-length-branch")) else (2 if family.endswith("-run3") else 3)):
            spec = tree_case(family, pid, xyz, r, delta, rule, 1 + 2 * (len(pid) % 2), coords="walk", **how)
            check_resample_tree(rep, spec)
            ctx.case("resample-tree-degenerate", {k: v for k, v in spec.items() if k not in ("xyz", "r", "type", "kind")})
        for w in ((3, 2 * len(pid) + 2) if family.endswith("-run3") else (2, 5)) if quick else (2, 3, 5, 2 * len(pid) + 1, 2 * len(pid) + 2):
            spec = dict(kind="smooth-tree", family=family, window=w, coords="walk", **how, **tree_input(pid, xyz, r, 1))
            check_tree_smoother(rep, spec)
            ctx.case("tree-smooth-degenerate", dict(pid=list(pid), family=family, window=w, **how))
    ctx.rule(f"IsometricResampler: every sorted parent table with <= {nmax} nodes x coordinates (lattice walk, lattice with coincident points, jittered) x spacing {DISTANCES} x root type (1, 3), "
             "plus seeded random trees of 7-14 nodes.  Generic derived families (spacings computed from the float32-stored geometry): "
             "(1) tortuous branches - tables whose chains fold back (hairpin, U-turn, nearly closed loop, exactly closed loop; chord << path length) and small tables with every edge expanded to a "
             "folded chain of 2-4 (thorough: 2-6) segments, with spacings between chord and path length of the most tortuous branches; "
             f"(2) a coincident consecutive node with another radius inserted on every edge of every table with <= {5 if quick else 6} nodes, at its parent end (first node on the soma / on a furcation, middle of a "
             "branch) and at its child end (middle / end of a branch), spacings 0.3 and 0.45 x the neighbouring segment; "
             f"(3) spacing = branch length / ratio for ratios {RATIOS_QUICK if quick else 'k + (0, .001, .002, .003, .004), k in 1, 2, 3, 4, 6, 9, 17, and 0.05, 0.4, 0.999, 0.99999, 1.00001, 3.00001'} (exact multiples, slightly above a multiple, branch shorter than the spacing) on walk and jittered coordinates; "
             "(5) BranchTreeAssembler applied directly with every node's branch list permuted: all permutations at nodes with <= 3 children, all permutations that are not their own inverse (thorough: all) at nodes with 4 "
             "children, a seeded sample (thorough: all) for 5 children, also on stars / furcations with 3 and 4 multi-segment branches; trees in which two sibling branches with different routes end at one position "
             "(every pair of sibling branch ends of the expanded tables, via IsometricResampler with several spacings and via the assembler in stored order; permuted order only where the coincident ends are "
             "tips of equal radius, because otherwise pairing by position is ambiguous); seeded random combinations of all of these.  "
             f"BranchLinearResampler(n in {LINEAR_N}: n = 2 and n >> knot count) / BranchIsometricResampler on {len(BRANCHES)} hand-made branches (zero-length segments and runs with radius steps, coincident points, "
             "closed / nearly closed loops, hairpin, U-turn, retraced path, helix, 2-node, tiny, inexact lengths) and random branches (cloud, folded, loop, collinear commensurable), spacings fixed and derived (between chord and path; "
             "length / ratio); BranchConvSmoother windows 1, 2, 3, 4, 5, 6, 8, n+1, 2n+1, 2n+2, 50 (even windows, windows larger than the branch, 2-node branches); TreeSmoother on every table x windows and on expanded "
             "tables (every branch >= 3 nodes; walk, hairpin, closed) x even / oversized windows: count, id, pid, type, r, end points unchanged, all coordinates finite.  "
             f"Degenerate geometry for every entry point: {len(DEGENERATE_BASES)} base branches with the first / a middle / the last node duplicated (same radius and radius step, runs of 2 and 3 coincident nodes, both ends at once), "
             "2, 3, 5 nodes all at one position (total length zero), two-node branches, through BranchLinearResampler (n = 2, 3, 5, 40 x node count), BranchIsometricResampler (spacing 100 x, 1 x, 1/2.5, 1/150 of the length, 0.3; "
             "0.001, 0.3, 100 for length zero) and BranchConvSmoother (windows 1, 2, 3, 5, n, n+1, 50); trees (small tables plain and with 2-segment edges, larger tables with furcations away from the soma) with a duplicated "
             "node (run of 2 with equal radius, run of 3 with radius steps) at the tip of a branch, on a furcation (child on top of its parent), on the soma, at the furcation end of a branch, inside a branch, and with a "
             "whole zero-length branch between two critical nodes (tip and inner), through IsometricResampler (spacings 0.3, 100, shortest branch / 25, longest branch) and TreeSmoother.  "
             "Every output number (x, y, z, r) of every carrier must be finite (output-finite) and a NaN fails every tolerance test.  Non-trivial = tree with >= 2 nodes (>= 3 for smoothing).", exhaustive=False)


def replay(spec):
    class C:
        def __init__(self):
            self.v, self.notes = [], []

        def case(self, *a, **k):
            pass

        def violation(self, *a, **k):
            self.v.append(a)

    c = C()
    rep = Reporter(c)
    {"resample-tree": check_resample_tree, "resample-branch": check_branch_resampler, "smooth-branch": check_branch_smoother, "smooth-tree": check_tree_smoother}[spec["kind"]](rep, spec)
    for v in c.v:
        print("  still failing:", v[:2], v[3:5])
    return not c.v
