"""C16 bounded stand-in: resampling and smoothing keep the shape.

Oracle (plain numpy, float64): a tree is cut at its critical nodes (root, furcations, tips) into
branches = polylines with radii at the knots.  The resampled tree is cut the same way and the two
sets of branches are paired by a recursive search that respects connectivity and end positions.
For a paired branch with m steps in the output, sample k must sit at arc length k*L/m of the
original polyline (equal steps), L/m must not exceed the spacing, and its radius must be the
piecewise-linear interpolation of the knot radii over arc length.
"""
from __future__ import annotations

import itertools
import random

import numpy as np

from .common import all_sorted_tables_upto, children_of, coords_for, make_tree, random_sorted_table

TOL = 1e-4


# ----------------------------------------------------------------------------- geometry helpers
def arc_lengths(P):
    P = np.asarray(P, dtype=np.float64)
    if len(P) < 2:
        return np.zeros(len(P))
    seg = np.sqrt(((P[1:] - P[:-1]) ** 2).sum(axis=1))
    return np.concatenate([[0.0], np.cumsum(seg)])


def at_arc(P, R, s):
    """Position at arc length s of polyline P, and the admissible radius interval there (an interval only
    where knots coincide, otherwise a single linearly interpolated value)."""
    P, R = np.asarray(P, dtype=np.float64), np.asarray(R, dtype=np.float64)
    a = arc_lengths(P)
    L = a[-1]
    s = min(max(s, 0.0), L)
    same = [i for i in range(len(a)) if abs(a[i] - s) <= 1e-7 * (1 + L)]
    if same:
        rs = R[same]
        return P[same[0]].copy(), (float(rs.min()), float(rs.max()))
    j = max(i for i in range(len(a) - 1) if a[i] <= s)
    w = (s - a[j]) / (a[j + 1] - a[j])
    r = R[j] + w * (R[j + 1] - R[j])
    return P[j] + w * (P[j + 1] - P[j]), (float(r), float(r))


def dist_point_polyline(q, P):
    q, P = np.asarray(q, dtype=np.float64), np.asarray(P, dtype=np.float64)
    best = float(np.sqrt(((P - q) ** 2).sum(axis=1)).min())
    for i in range(len(P) - 1):
        d = P[i + 1] - P[i]
        dd = float(d @ d)
        if dd == 0:
            continue
        w = min(1.0, max(0.0, float((q - P[i]) @ d) / dd))
        best = min(best, float(np.sqrt(((P[i] + w * d - q) ** 2).sum())))
    return best


def total_length(pid, xyz):
    xyz = np.asarray(xyz, dtype=np.float64)
    return float(sum(np.sqrt(((xyz[i] - xyz[p]) ** 2).sum()) for i, p in enumerate(pid) if p >= 0))


def cut_branches(pid):
    """critical nodes and {critical node: [list of node-id chains starting at it and ending at the next critical node]}"""
    ch = children_of(pid)
    root = [i for i, p in enumerate(pid) if p < 0]
    crit = {i for i in range(len(pid)) if pid[i] < 0 or len(ch[i]) != 1}
    out = {c: [] for c in crit}
    for c in crit:
        for k in ch[c]:
            chain = [c, k]
            while chain[-1] not in crit:
                chain.append(ch[chain[-1]][0])
            out[c].append(chain)
    return root, crit, out


def table_ok(pid):
    """single root at 0, all parents in range, acyclic"""
    n = len(pid)
    if n == 0 or pid[0] != -1 or sum(1 for p in pid if p == -1) != 1 or any(not (-1 <= p < n) for p in pid):
        return False
    for i in range(n):
        j, steps = i, 0
        while j != 0:
            j, steps = pid[j], steps + 1
            if steps > n or j < 0:
                return False
    return True


def branch_deviation(Pin, Rin, Pout, Rout):
    """(max position error vs equal arc steps, max radius error, max distance to polyline, step length)"""
    a = arc_lengths(Pin)
    L = a[-1]
    m = len(Pout) - 1
    epos = erad = eline = 0.0
    for k in range(m + 1):
        want, (rlo, rhi) = at_arc(Pin, Rin, k * L / m)
        epos = max(epos, float(np.sqrt(((np.asarray(Pout[k], dtype=np.float64) - want) ** 2).sum())))
        r = float(Rout[k])
        erad = max(erad, rlo - r, r - rhi, 0.0)
        eline = max(eline, dist_point_polyline(Pout[k], Pin))
    return epos, erad, eline, L / m


def pair_branches(A, B):
    """A, B = (pid, xyz, r).  Returns (cost, [(chain in A, chain in B), ...]) for the cheapest pairing of the branches of
    the two trees that respects connectivity and (within TOL) the positions of the critical nodes, or None."""
    pa, xa, ra = A
    pb, xb, rb = B
    _, _, ba = cut_branches(pa)
    _, _, bb = cut_branches(pb)

    def close(i, j):
        return float(np.sqrt(((np.asarray(xa[i], dtype=np.float64) - np.asarray(xb[j], dtype=np.float64)) ** 2).sum())) <= TOL

    def match(i, j):
        if not close(i, j) or len(ba[i]) != len(bb[j]):
            return None
        best = None
        for perm in itertools.permutations(range(len(bb[j]))):
            cost, pairs, ok = 0.0, [], True
            for ca, kb in zip(ba[i], perm):
                cb = bb[j][kb]
                sub = match(ca[-1], cb[-1])
                if sub is None:
                    ok = False
                    break
                dev = branch_deviation([xa[v] for v in ca], [ra[v] for v in ca], [xb[v] for v in cb], [rb[v] for v in cb])
                cost += dev[0] + dev[1] + sub[0]
                pairs += [(ca, cb)] + sub[1]
            if ok and (best is None or cost < best[0]):
                best = (cost, pairs)
        return best

    return match(0, 0)


# ----------------------------------------------------------------------------- reporting
class Reporter:
    def __init__(self, ctx):
        self.ctx, self.count = ctx, {}

    def __call__(self, carrier, clause, inp, observed, expected, variant=None):
        k = (carrier, clause)
        kv = (carrier, clause, variant)
        self.count[kv] = self.count.get(kv, 0) + 1
        self.count[k] = self.count.get(k, 0) + (1 if self.count[kv] <= 2 else 0)
        if self.count[kv] <= 2 and self.count[k] <= 4:
            self.ctx.violation(carrier, clause, inp, observed, expected, inp)


def tree_input(pid, xyz, r, root_type):
    n = len(pid)
    types = [root_type] + [3 if (i % 2) else 2 for i in range(1, n)]
    return dict(pid=[int(p) for p in pid], xyz=[[float(np.float32(a)) for a in row] for row in xyz], r=[float(np.float32(v)) for v in r], type=types)


def radii_for(n):
    return [1.0 + 0.25 * ((i * 3) % 5) for i in range(n)]


# ----------------------------------------------------------------------------- IsometricResampler
def check_resample_tree(rep, spec):
    from swcgeom.transforms.tree import IsometricResampler

    carrier = "Resampler.__call__"
    pid, xyz, r, delta = spec["pid"], np.array(spec["xyz"], dtype=np.float32), np.array(spec["r"], dtype=np.float32), spec["distance"]
    variant = "root-type-%d" % spec["type"][0]
    t = make_tree(pid, xyz, r, spec["type"])
    try:
        if spec.get("rotate_branches"):
            # the assembler pairs each resampled branch with the child it ends at BY POSITION, so the order in which a node's
            # branches are stored must not matter: same pipeline as Resampler.__call__, branch lists cyclically rotated
            from swcgeom.core import BranchTree
            from swcgeom.transforms.branch import BranchIsometricResampler
            from swcgeom.transforms.branch_tree import BranchTreeAssembler

            carrier = "BranchTreeAssembler.__call__"
            bt, rs, k0 = BranchTree.from_tree(t), BranchIsometricResampler(delta), int(spec["rotate_branches"])
            bt.branches = {k: (lambda L: L[k0 % len(L):] + L[:k0 % len(L)])([rs(br) for br in brs]) for k, brs in bt.branches.items()}
            out = BranchTreeAssembler()(bt)
        else:
            out = IsometricResampler(delta)(t)
    except Exception as e:
        rep(carrier, "operation-raises", spec, f"{type(e).__name__}: {e}", "a resampled tree", variant=variant + "/" + type(e).__name__)
        return
    opid, oxyz, orr = [int(p) for p in out.pid()], np.array(out.xyz(), dtype=np.float64), np.array(out.r(), dtype=np.float64)
    if not table_ok(opid) or [int(v) for v in out.id()] != list(range(len(opid))):
        rep(carrier, "critical-nodes-kept", spec, f"output is not a single-rooted tree table: id={list(map(int, out.id()))} pid={opid}", "a tree")
        return
    A = (list(pid), xyz.astype(np.float64), r.astype(np.float64))
    B = (opid, oxyz, orr)
    pairing = pair_branches(A, B)
    lin, lout = total_length(pid, xyz), total_length(opid, oxyz)
    if lout > lin + TOL:
        rep(carrier, "length-does-not-grow", spec, f"length {lout:.6f}", f"<= {lin:.6f}")
    if pairing is None:
        _, ca, _ = cut_branches(list(pid))
        _, cb, _ = cut_branches(opid)
        rep(carrier, "critical-nodes-kept", spec,
            f"{len(opid)} nodes, pid={opid[:16]}, critical nodes at {[[round(float(v), 4) for v in oxyz[i]] for i in sorted(cb)][:8]}",
            f"root/furcations/tips at {[[round(float(v), 4) for v in xyz[i]] for i in sorted(ca)][:8]} with the same connectivity", variant="single-stem" if list(pid[1:2]) == [0] and list(pid).count(0) == 1 else None)
        # weaker polyline check without the pairing
        _, _, ba = cut_branches(list(pid))
        lines = [[xyz[v] for v in c] for cs in ba.values() for c in cs] or [[xyz[0]]]
        for k in range(len(opid)):
            d = min(dist_point_polyline(oxyz[k], P) for P in lines)
            if d > TOL:
                rep(carrier, "samples-on-polyline", spec, f"output node {k} at {oxyz[k].tolist()} is {d:.5f} away from every branch", f"<= {TOL}")
                break
        return
    for ca, cb in pairing[1]:
        Pin, Rin = [A[1][v] for v in ca], [A[2][v] for v in ca]
        Pout, Rout = [oxyz[v] for v in cb], [orr[v] for v in cb]
        epos, erad, eline, step = branch_deviation(Pin, Rin, Pout, Rout)
        L = arc_lengths(Pin)[-1]
        desc = f"branch {ca} (length {L:.5f}) -> {len(cb)} output nodes"
        if eline > TOL:
            rep(carrier, "samples-on-polyline", spec, f"{desc}: a sample is {eline:.5f} off the polyline", f"<= {TOL}")
        if step > delta * (1 + 1e-6) + 1e-6 or epos > TOL:
            got_steps = [round(float(np.sqrt(((Pout[k + 1] - Pout[k]) ** 2).sum())), 5) for k in range(len(Pout) - 1)]
            rep(carrier, "equal-steps-not-longer-than-spacing", spec, f"{desc}: chord steps {got_steps[:10]}, max offset from equal arc steps {epos:.5f}",
                f"the {len(cb) - 1} steps equal in arc length (L/{len(cb) - 1} = {step:.5f}) and none longer than the spacing {delta}", variant="zero-length" if L == 0 else None)
        elif erad > TOL:
            rep(carrier, "radius-linear", spec, f"{desc}: radii {[round(float(v), 5) for v in Rout][:10]} off by {erad:.5f}",
                f"linear in arc length between knot radii {[round(float(v), 5) for v in Rin]}")


# ----------------------------------------------------------------------------- single branches
BRANCHES = {
    "straight2": [[0, 0, 0, 1], [3, 0, 0, 2]],
    "bent3": [[0, 0, 0, 1], [1, 0, 0, 2], [1, 2, 0, 1.5]],
    "zigzag4": [[0, 0, 0, 1], [1, 1, 0, 2], [2, 0, 0.5, 3], [3, 1, 1, 0.5]],
    "uneven5": [[1, 2, 3, 1], [1.25, 2, 3, 1.5], [4, 2, 3, 1], [4, 2.5, 3, 2], [4, 2.5, 9, 0.25]],
    "zero-mid": [[0, 0, 0, 1], [1, 0, 0, 2], [1, 0, 0, 2], [2, 0, 0, 3]],
    "zero-mid-r-jump": [[0, 0, 0, 1], [1, 0, 0, 2], [1, 0, 0, 4], [2, 0, 0, 3]],
    "zero-first": [[0, 0, 0, 1], [0, 0, 0, 1], [1, 0, 0, 3]],
    "zero-first-r-differs": [[0, 0, 0, 1], [0, 0, 0, 2], [1, 0, 0, 3]],
    "zero-last": [[0, 0, 0, 1], [1, 0, 0, 3], [1, 0, 0, 3]],
    "zero-last-r-differs": [[0, 0, 0, 1], [1, 0, 0, 2], [1, 0, 0, 3]],
    "revisit": [[0, 0, 0, 1], [2, 0, 0, 2], [0, 0, 0, 3], [0, 1, 0, 1]],
    "all-coincident2": [[1, 1, 1, 1], [1, 1, 1, 1]],
    "all-coincident3-r-differs": [[1, 1, 1, 1], [1, 1, 1, 2], [1, 1, 1, 3]],
    "closed-loop": [[0, 0, 0, 1], [1, 0, 0, 2], [1, 1, 0, 2], [0, 0, 0, 1]],
}


def check_branch_resampler(rep, spec):
    from swcgeom.core import Branch
    from swcgeom.transforms.branch import BranchIsometricResampler, BranchLinearResampler

    xyzr = np.array(spec["xyzr"], dtype=np.float32)
    if spec["op"] == "linear":
        carrier, tr = "BranchLinearResampler.resample", BranchLinearResampler(spec["n"])
    else:
        carrier, tr = "BranchIsometricResampler.resample", BranchIsometricResampler(spec["distance"])
    try:
        out = tr(Branch.from_xyzr(xyzr))
        o = np.array(out.xyzr(), dtype=np.float64)
    except Exception as e:
        rep(carrier, "operation-raises", spec, f"{type(e).__name__}: {e}", "a resampled branch")
        return
    Pin, Rin = xyzr[:, :3].astype(np.float64), xyzr[:, 3].astype(np.float64)
    L = arc_lengths(Pin)[-1]
    if spec["op"] == "linear" and len(o) != spec["n"]:
        rep(carrier, "branch-endpoints-kept", spec, f"{len(o)} points", f"{spec['n']} points")
        return
    if len(o) == 1 and spec["op"] == "isometric" and L <= TOL:
        # a zero-length branch: both end points are the same position, one sample there carries them
        if float(np.abs(o[0, :3] - Pin[0]).max()) > TOL or min(abs(o[0, 3] - x) for x in Rin) > TOL:
            rep(carrier, "branch-endpoints-kept", spec, f"single point {o[0].tolist()}", f"position {Pin[0].tolist()} with one of the radii {Rin.tolist()}")
        return
    if len(o) < 2:
        rep(carrier, "branch-endpoints-kept", spec, f"{len(o)} point(s): {o.tolist()}", "both end points")
        return
    e0 = float(np.abs(o[0, :3] - Pin[0]).max())
    e1 = float(np.abs(o[-1, :3] - Pin[-1]).max())
    # Radii are a function of arc length.  Where a zero-length first / last segment gives several input nodes the
    # same arc length as an end point, the radius there is double-valued and any of those nodes' radii is a
    # correct "linear interpolation along the branch" (the property fixes end *points*; see DESIGN.md section 9).
    S = arc_lengths(Pin)
    r0 = min(abs(o[0, 3] - Rin[k]) for k in range(len(Rin)) if S[k] <= TOL)
    r1 = min(abs(o[-1, 3] - Rin[k]) for k in range(len(Rin)) if S[k] >= L - TOL)
    if max(e0, e1) > TOL:
        rep(carrier, "branch-endpoints-kept", spec, f"ends at {o[0, :3].tolist()} and {o[-1, :3].tolist()}", f"{Pin[0].tolist()} and {Pin[-1].tolist()}", variant="position")
    elif max(r0, r1) > TOL:
        rep(carrier, "branch-endpoints-kept", spec, f"end radii {o[0, 3]:.4f}, {o[-1, 3]:.4f}", f"{Rin[0]:.4f}, {Rin[-1]:.4f}", variant="radius")
    epos, erad, eline, step = branch_deviation(Pin, Rin, o[:, :3], o[:, 3])
    if eline > TOL:
        rep(carrier, "samples-on-polyline", spec, f"a sample is {eline:.5f} off the polyline", f"<= {TOL}")
    if epos > TOL or (spec["op"] == "isometric" and step > spec["distance"] * (1 + 1e-6) + 1e-6):
        rep(carrier, "equal-steps-not-longer-than-spacing", spec, f"points {np.round(o[:, :3], 4).tolist()[:8]} (max offset {epos:.5f}, step {step:.5f})", "equal arc-length steps" + (f" <= {spec['distance']}" if spec["op"] == "isometric" else ""))
    elif erad > TOL and max(r0, r1) <= TOL:
        rep(carrier, "radius-linear", spec, f"radii {np.round(o[:, 3], 4).tolist()[:10]} off by {erad:.5f}", f"linear between knot radii {Rin.tolist()}")


# ----------------------------------------------------------------------------- smoothing
def check_branch_smoother(rep, spec):
    from swcgeom.core import Branch
    from swcgeom.transforms.branch import BranchConvSmoother

    carrier = "BranchConvSmoother.__call__"
    xyzr = np.array(spec["xyzr"], dtype=np.float32)
    try:
        out = BranchConvSmoother(spec["window"])(Branch.from_xyzr(xyzr.copy()))
        o = np.array(out.xyzr(), dtype=np.float64)
        oid, opid = [int(v) for v in out.id()], [int(v) for v in out.pid()]
    except Exception as e:
        rep(carrier, "operation-raises", spec, f"{type(e).__name__}: {e}", "a smoothed branch")
        return
    n = len(xyzr)
    if len(o) != n or oid != list(range(n)) or opid != list(range(-1, n - 1)):
        rep(carrier, "smoothing-keeps-ends-count-radii", spec, f"{len(o)} nodes id={oid} pid={opid}", f"{n} nodes in a chain", variant="count")
        return
    if not np.array_equal(o[0, :3], xyzr[0, :3].astype(np.float64)) or not np.array_equal(o[-1, :3], xyzr[-1, :3].astype(np.float64)):
        rep(carrier, "smoothing-keeps-ends-count-radii", spec, f"ends {o[0, :3].tolist()} {o[-1, :3].tolist()}", f"{xyzr[0, :3].tolist()} {xyzr[-1, :3].tolist()}", variant="ends")
    if not np.array_equal(o[:, 3], xyzr[:, 3].astype(np.float64)):
        rep(carrier, "smoothing-keeps-ends-count-radii", spec, f"radii {o[:, 3].tolist()}", f"{xyzr[:, 3].tolist()}", variant="radii")
    if not np.all(np.isfinite(o)):
        rep(carrier, "smoothing-keeps-ends-count-radii", spec, f"non-finite coordinates {o.tolist()}", "finite coordinates", variant="finite")


def check_tree_smoother(rep, spec):
    from swcgeom.transforms.tree import TreeSmoother

    carrier = "TreeSmoother.__call__"
    pid, xyz, r = spec["pid"], np.array(spec["xyz"], dtype=np.float32), np.array(spec["r"], dtype=np.float32)
    t = make_tree(pid, xyz, r, spec["type"])
    before = {k: np.array(t.get_ndata(k), copy=True) for k in t.keys()}
    try:
        out = TreeSmoother(spec["window"])(t)
    except Exception as e:
        rep(carrier, "operation-raises", spec, f"{type(e).__name__}: {e}", "a smoothed tree")
        return
    n = len(pid)
    if out.number_of_nodes() != n or [int(v) for v in out.pid()] != list(pid) or [int(v) for v in out.id()] != list(range(n)):
        rep(carrier, "smoothing-keeps-ends-count-radii", spec, f"{out.number_of_nodes()} nodes pid={list(map(int, out.pid()))}", f"{n} nodes pid={list(pid)}", variant="count")
        return
    if not np.array_equal(out.r(), r) or [int(v) for v in out.type()] != list(spec["type"]):
        rep(carrier, "smoothing-keeps-ends-count-radii", spec, f"r={out.r().tolist()} type={out.type().tolist()}", f"r={r.tolist()} type={spec['type']}", variant="radii")
    _, crit, _ = cut_branches(list(pid))
    oxyz = np.array(out.xyz())
    moved = [i for i in sorted(crit) if not np.array_equal(oxyz[i], xyz[i])]
    if moved:
        rep(carrier, "smoothing-keeps-ends-count-radii", spec, f"end point(s) {moved} moved to {[oxyz[i].tolist() for i in moved][:4]}", f"{[xyz[i].tolist() for i in moved][:4]}", variant="ends")
    if not np.all(np.isfinite(oxyz)):
        rep(carrier, "smoothing-keeps-ends-count-radii", spec, "non-finite coordinates", "finite coordinates", variant="finite")
    if any(not np.array_equal(t.get_ndata(k), before[k]) for k in before):
        rep(carrier, "smoothing-keeps-ends-count-radii", spec, "the input tree was modified", "input unchanged", variant="input-modified")


# ----------------------------------------------------------------------------- driver
DISTANCES = [0.3, 1, 2.5, 100]


def run(ctx):
    rep = Reporter(ctx)
    rng = random.Random(ctx.seed)
    quick = ctx.tier == "quick"
    nmax = 6 if quick else 7

    tables = list(all_sorted_tables_upto(nmax))
    for pid in tables:
        n = len(pid)
        modes = [("walk", coords_for(pid)), ("lattice", coords_for(pid, mode="lattice"))]
        if n <= 5 or not quick:
            modes.append(("jitter", coords_for(pid, random.Random(ctx.seed * 1000 + n), mode="walk")))
        for mode, xyz in modes:
            for root_type in (1, 3):
                for delta in DISTANCES:
                    spec = dict(kind="resample-tree", distance=delta, coords=mode, **tree_input(pid, xyz, radii_for(n), root_type))
                    check_resample_tree(rep, spec)
                    _, crit, _ = cut_branches(list(pid))
                    ctx.case("resample-tree", dict(pid=list(pid), coords=mode, root_type=root_type, distance=delta), nontrivial=n >= 2)
    # BranchTreeAssembler used directly with the per-node branch lists stored in another order (rotation by 1 and 2)
    for pid in tables:
        if max(list(pid).count(i) for i in range(len(pid))) < 2:
            continue
        for rot in (1, 2):
            for delta in (DISTANCES[0], DISTANCES[-1]):
                spec = dict(kind="resample-tree", distance=delta, coords="walk", rotate_branches=rot, **tree_input(pid, coords_for(pid), radii_for(len(pid)), 1))
                check_resample_tree(rep, spec)
                ctx.case("assembler-rotated-branch-lists", dict(pid=list(pid), rot=rot, distance=delta))
    # seeded random tail: larger trees, generic coordinates and spacings
    for _ in range(60 if quick else 1500):
        n = rng.randint(7, 14)
        pid = random_sorted_table(rng, n)
        xyz = coords_for(pid, rng)
        delta = round(rng.choice([0.2, 0.5, 1.0, 1.7, 3.3, 8.0]) * rng.uniform(0.8, 1.2), 3)
        spec = dict(kind="resample-tree", distance=delta, coords="random", **tree_input(pid, xyz, [round(rng.uniform(0.2, 3), 2) for _ in range(n)], rng.choice([1, 3])))
        check_resample_tree(rep, spec)
        ctx.case("resample-tree-random", dict(pid=list(pid), distance=delta, xyz0=[float(v) for v in xyz[-1]]))

    # single branches
    for name, b in BRANCHES.items():
        for nn in (2, 3, 4, 7, 16):
            spec = dict(kind="resample-branch", op="linear", n=nn, branch=name, xyzr=b)
            check_branch_resampler(rep, spec)
            ctx.case("branch-linear", dict(branch=name, n=nn))
        for delta in DISTANCES + [0.7]:
            spec = dict(kind="resample-branch", op="isometric", distance=delta, branch=name, xyzr=b)
            check_branch_resampler(rep, spec)
            ctx.case("branch-isometric", dict(branch=name, distance=delta))
        for w in (1, 2, 3, 5, 8):
            spec = dict(kind="smooth-branch", window=w, branch=name, xyzr=b)
            check_branch_smoother(rep, spec)
            ctx.case("branch-smooth", dict(branch=name, window=w), nontrivial=len(b) > 2)
    for _ in range(40 if quick else 600):
        k = rng.randint(2, 9)
        b = [[round(rng.uniform(-3, 3), 2) for _ in range(3)] + [round(rng.uniform(0.2, 3), 2)] for _ in range(k)]
        if rng.random() < 0.3:
            j = rng.randrange(k - 1)
            b[j + 1][:3] = b[j][:3]
        for spec in (dict(kind="resample-branch", op="linear", n=rng.randint(2, 12), branch="random", xyzr=b),
                     dict(kind="resample-branch", op="isometric", distance=rng.choice([0.3, 1, 2.5]), branch="random", xyzr=b)):
            check_branch_resampler(rep, spec)
            ctx.case("branch-random", dict(spec))
        spec = dict(kind="smooth-branch", window=rng.choice([1, 2, 3, 5]), branch="random", xyzr=b)
        check_branch_smoother(rep, spec)
        ctx.case("branch-smooth-random", dict(spec))

    # tree smoothing
    for pid in all_sorted_tables_upto(nmax):
        n = len(pid)
        for mode in ("walk", "lattice"):
            xyz = coords_for(pid, mode=mode)
            for w in (1, 3, 5) if quick else (1, 2, 3, 5, 8):
                spec = dict(kind="smooth-tree", window=w, coords=mode, **tree_input(pid, xyz, radii_for(n), 1))
                check_tree_smoother(rep, spec)
                ctx.case("tree-smooth", dict(pid=list(pid), coords=mode, window=w), nontrivial=n >= 3)
    ctx.rule(f"IsometricResampler: every sorted parent table with <= {nmax} nodes x coordinates (lattice walk, lattice with coincident points, jittered) x spacing {DISTANCES} x root type (1, 3), "
             "plus seeded random trees of 7-14 nodes; BranchTreeAssembler applied directly with every node's branch list rotated by 1 and 2; BranchLinearResampler(n in 2,3,4,7,16) / BranchIsometricResampler on 14 hand-made branches (zero-length segments, coincident "
             "points, closed loop) and random branches; BranchConvSmoother windows (1,2,3,5,8); TreeSmoother on every table x windows. Non-trivial = tree with >= 2 nodes "
             "(>= 3 for smoothing).", exhaustive=False)


def replay(spec):
    class C:
        def __init__(self):
            self.v, self.notes = [], []

        def case(self, *a, **k):
            pass

        def violation(self, *a, **k):
            self.v.append(a)

    c = C()
    rep = Reporter(c)
    {"resample-tree": check_resample_tree, "resample-branch": check_branch_resampler, "smooth-branch": check_branch_smoother, "smooth-tree": check_tree_smoother}[spec["kind"]](rep, spec)
    for v in c.v:
        print("  still failing:", v[:2], v[3:5])
    return not c.v
