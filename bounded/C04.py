"""C04 bounded stand-in: traversal is structural recursion at any depth.

Carriers: swc_utils.traverse, Tree.traverse, Tree.Node.traverse (run on the real code).
Every callback invocation is logged; the clauses are evaluated on the log against a
naive oracle (children = rows whose pid is x, in table order; subtree = closure).
"""
from __future__ import annotations

import itertools
import random
import sys

import numpy as np

from .common import make_tree, sorted_parent_tables

CARRIERS = ("swc_utils.traverse", "Tree.traverse", "Tree.Node.traverse")
MODES = ("enter", "leave", "both")


class _Lim:
    """Forwards to ctx but reports each (carrier, clause) at most 3 times (enumeration is smallest-first)."""

    def __init__(self, ctx, cap=3):
        self.ctx, self.cap, self.n = ctx, cap, {}

    def case(self, *a, **k):
        self.ctx.case(*a, **k)

    def violation(self, carrier, clause, input, observed, expected, replay=None):
        k = (carrier, clause)
        self.n[k] = self.n.get(k, 0) + 1
        if self.n[k] <= self.cap:
            self.ctx.violation(carrier, clause, input, observed, expected, replay)


class _Tok:
    """A unique value; clauses compare by identity ('exactly the value the call returned')."""

    __slots__ = ("kind", "x")

    def __init__(self, kind, x):
        self.kind, self.x = kind, x

    def __repr__(self):
        return f"<{self.kind}{self.x}>"


def _oracle(rows):
    ids = [r[0] for r in rows]
    ch = {i: [] for i in ids}
    par = {}
    for i, p in rows:
        par[i] = p
        if p != -1:
            ch[p].append(i)
    return ids, par, ch


def _closure(ch, start):
    out, todo = [], [start]
    while todo:
        x = todo.pop()
        out.append(x)
        todo.extend(ch[x])
    return set(out)


def _invoke(carrier, rows, start, enter, leave, tree=None):
    kw = {}
    if enter is not None:
        kw["enter"] = enter
    if leave is not None:
        kw["leave"] = leave
    if carrier == "swc_utils.traverse":
        from swcgeom.core.swc_utils import traverse

        ids = np.array([r[0] for r in rows], dtype=np.int32)
        pids = np.array([r[1] for r in rows], dtype=np.int32)
        return traverse((ids, pids), root=start, **kw)
    if tree is None:
        assert [r[0] for r in rows] == list(range(len(rows)))
        tree = make_tree([r[1] for r in rows])
    if carrier == "Tree.traverse":
        return tree.traverse(root=start, **kw)
    if carrier == "Tree.Node.traverse":
        return tree.node(start).traverse(**kw)
    raise ValueError(carrier)


def check_small(ctx, carrier, rows, start, mode, tree=None):
    """rows = [(id, pid), ...] in table order; start = id of the start node."""
    rows = [tuple(int(v) for v in r) for r in rows]
    spec = dict(kind="small", carrier=carrier, rows=[list(r) for r in rows], start=int(start), mode=mode)
    ids, par, ch = _oracle(rows)
    sub = _closure(ch, start)
    log = []  # ("E", x, pre, ret) / ("L", x, args, ret)
    bad_arg = []
    node_based = carrier != "swc_utils.traverse"

    def ident(n):
        if node_based:
            from swcgeom.core import Tree

            if not isinstance(n, Tree.Node):
                bad_arg.append(repr(n))
                return int(n)
            return int(n.id)
        return int(n)

    def enter(n, pre):
        x = ident(n)
        ret = _Tok("e", x)
        log.append(("E", x, pre, ret))
        return ret

    def leave(n, args):
        x = ident(n)
        ret = _Tok("l", x)
        log.append(("L", x, args if not isinstance(args, list) else list(args), ret))
        if isinstance(args, list):
            # the property quantifies over ALL callbacks: this one scribbles on the list it was handed, which must
            # not leak into what any other call receives (each call gets its own list of its children's values)
            args.append(_Tok("scribble", x))
        return ret

    V = lambda clause, obs, exp: ctx.violation(carrier, clause, spec, obs, exp, spec)  # noqa: E731
    try:
        result = _invoke(carrier, rows, start, enter if mode != "leave" else None, leave if mode != "enter" else None, tree)
    except RecursionError as e:
        V("deep-chain-no-recursion-limit", f"RecursionError: {e}", "no exception")
        ctx.case(carrier, spec, nontrivial=len(rows) >= 2)
        return
    except Exception as e:
        V("operation-raises", f"{type(e).__name__}: {e}", "no exception")
        ctx.case(carrier, spec, nontrivial=len(rows) >= 2)
        return
    if bad_arg:
        V("enter-once-per-subtree-node", f"callback received {bad_arg[0]}", "a Tree.Node of the tree")

    tE, tL, entv, val, pre_of, args_of = {}, {}, {}, {}, {}, {}
    ecount = {i: 0 for i in ids}
    lcount = {i: 0 for i in ids}
    unknown = []
    for t, (k, x, a, ret) in enumerate(log):
        if x not in ecount:
            unknown.append(x)
            continue
        if k == "E":
            ecount[x] += 1
            tE.setdefault(x, t)
            entv.setdefault(x, ret)
            pre_of.setdefault(x, a)
        else:
            lcount[x] += 1
            tL.setdefault(x, t)
            val.setdefault(x, ret)
            args_of.setdefault(x, a)
    if unknown:
        V("outside-never-visited", f"callbacks on ids {unknown} not in the table", "only ids of the table")

    outside = sorted(x for x in ids if x not in sub and (ecount[x] or lcount[x]))
    if outside:
        V("outside-never-visited", f"visited {outside}", f"only {sorted(sub)}")

    if mode != "leave":
        wrong = {x: ecount[x] for x in sorted(sub) if ecount[x] != 1}
        if wrong:
            V("enter-once-per-subtree-node", f"enter counts {wrong}", "1 for each of " + str(sorted(sub)))
        for x in sorted(sub):
            if ecount[x] < 1:
                continue
            if x == start:
                if pre_of[x] is not None:
                    V("enter-after-parent-with-parent-value", f"start node received {pre_of[x]!r}", "None")
                continue
            p = par[x]
            if p not in tE or not tE[p] < tE[x]:
                V("enter-after-parent-with-parent-value", f"enter({x}) at {tE[x]} but enter({p}) at {tE.get(p)}", "parent entered first")
            elif pre_of[x] is not entv[p]:
                V("enter-after-parent-with-parent-value", f"enter({x}) received {pre_of[x]!r}", f"{entv[p]!r} (returned by enter({p}))")
    elif any(ecount.values()):
        V("enter-once-per-subtree-node", "enter events without an enter callback", "none")

    if mode != "enter":
        wrong = {x: lcount[x] for x in sorted(sub) if lcount[x] != 1}
        if wrong:
            V("leave-once-after-children-with-their-values", f"leave counts {wrong}", "1 for each of " + str(sorted(sub)))
        for x in sorted(sub):
            if lcount[x] < 1:
                continue
            late = [c for c in ch[x] if c not in tL or not tL[c] < tL[x]]
            if late:
                V("leave-once-after-children-with-their-values", f"leave({x}) at {tL[x]} before leave of children {late}", "after all children")
                continue
            if mode == "both" and (x not in tE or not tE[x] < tL[x]):
                V("leave-once-after-children-with-their-values", f"leave({x}) at {tL[x]}, enter({x}) at {tE.get(x)}", "leave after the node's own enter")
            got = args_of[x]
            want = [val[c] for c in ch[x]]
            if not isinstance(got, list):
                V("leave-once-after-children-with-their-values", f"leave({x}) received {got!r}", f"the list {want!r}")
            elif sorted(map(id, got)) != sorted(map(id, want)):
                V("leave-once-after-children-with-their-values", f"leave({x}) received {got!r}", f"exactly {want!r}")
            elif [id(g) for g in got] != [id(w) for w in want]:
                V("leave-once-after-children-with-their-values", f"leave({x}) received {got!r} (order)", f"{want!r} in child order of the table")
    elif any(lcount.values()):
        V("leave-once-after-children-with-their-values", "leave events without a leave callback", "none")

    if mode == "enter":
        if result is not None:
            V("returns-start-value", repr(result), "None (no leave callback)")
    else:
        if start not in val or result is not val[start]:
            V("returns-start-value", repr(result), repr(val.get(start)) + " (returned by leave(start))")
    ctx.case(carrier, dict(rows=spec["rows"], start=spec["start"], mode=mode), nontrivial=len(rows) >= 2)


def deep_table(shape, n):
    """parent table (parent-first numbering, root 0) of a deep tree with n nodes"""
    if shape == "chain":
        return np.arange(-1, n - 1, dtype=np.int32)
    if shape == "caterpillar":  # spine 0,1,3,5,..., one leg 2,4,6,... on every spine node
        pid = np.empty(n, dtype=np.int32)
        pid[0] = -1
        for k in range(1, n):
            if k <= 2:
                pid[k] = 0
            else:
                j = (k - 1) // 2  # k = 2j+1 (spine) or 2j+2 (leg)
                pid[k] = 2 * j - 1
        return pid
    if shape == "twigs":  # comb with teeth of two nodes: spine node s, then its twig a -> b, then the next spine node
        pid = np.empty(n, dtype=np.int32)
        pid[0] = -1
        spine = 0
        for k in range(1, n):
            r = (k - 1) % 3
            if r == 0:
                pid[k] = spine  # twig node a
            elif r == 1:
                pid[k] = k - 1  # twig node b
            else:
                pid[k] = spine  # next spine node
                spine = k
        return pid
    if shape == "broom":  # a handle (chain) of about 3n/4 nodes, the rest are bristles on its tip; one more bristle bundle on the root
        h = max(1, (3 * n) // 4)
        pid = np.empty(n, dtype=np.int32)
        pid[0] = -1
        for k in range(1, n):
            pid[k] = k - 1 if k < h else (h - 1 if k % 2 else 0)
        return pid
    raise ValueError(shape)


DEEP_SHAPES = ("chain", "caterpillar", "twigs", "broom")


def _size_for_depth(shape, d):
    """number of nodes that gives the deepest root-to-tip path about d nodes"""
    return {"chain": d, "caterpillar": 2 * d, "twigs": 3 * d, "broom": (4 * d) // 3 + 4}[shape]


def _with_frames(k, fn):
    """call fn() from k additional Python frames (a traversal is rarely started from the top of the stack)"""
    if k <= 0:
        return fn()
    return _with_frames(k - 1, fn)


def check_deep(ctx, carrier, shape, n, start=0, mode="both", shuffle=None, frames=0, limit=1000):
    """One deep tree, the callbacks COUNT every call (vectors ce / cl) and compute depth / subtree size through the values handed
    down / up.  start: id of the start node (in the shuffled numbering when `shuffle` is a seed: node ids are renamed by a seeded
    permutation fixing 0, rows stay in id order); frames: extra Python frames below the call; limit: interpreter recursion limit."""
    spec = dict(kind="deep", carrier=carrier, shape=shape, n=int(n), start=int(start), mode=mode, shuffle=shuffle, frames=int(frames), limit=int(limit))
    pid = deep_table(shape, n)
    if shuffle is not None:
        prm = np.concatenate([[0], 1 + np.random.default_rng(shuffle).permutation(n - 1)]).astype(np.int64)
        new = np.full(n, -1, dtype=np.int32)
        new[prm[1:]] = prm[pid[1:]]
        pid = new
    # oracle, any numbering: children lists, subtree of `start` in breadth-first order, depth below start, subtree sizes
    kids = [[] for _ in range(n)]
    for i in range(n):
        if pid[i] >= 0:
            kids[pid[i]].append(i)
    order, depth, in_sub = [start], np.zeros(n, dtype=np.int64), np.zeros(n, dtype=bool)
    in_sub[start] = True
    for x in order:
        for c in kids[x]:
            depth[c] = depth[x] + 1
            in_sub[c] = True
            order.append(c)
    size = np.zeros(n, dtype=np.int64)
    for x in reversed(order):
        size[x] = 1 + sum(size[c] for c in kids[x])
    sub = np.array(order, dtype=np.int64)
    inner = sub[sub != start]
    ce = np.zeros(n, dtype=np.int64)
    cl = np.zeros(n, dtype=np.int64)
    tE = np.zeros(n, dtype=np.int64)
    tL = np.zeros(n, dtype=np.int64)
    gd = np.full(n, -1, dtype=np.int64)
    gs = np.full(n, -1, dtype=np.int64)
    clock = [0]
    node_based = carrier != "swc_utils.traverse"

    def enter(nn, pre):
        x = int(nn.id) if node_based else int(nn)
        clock[0] += 1
        ce[x] += 1
        tE[x] = clock[0]
        d = 0 if pre is None else pre + 1
        gd[x] = d
        return d

    def leave(nn, vals):
        x = int(nn.id) if node_based else int(nn)
        clock[0] += 1
        cl[x] += 1
        tL[x] = clock[0]
        s = 1 + sum(vals)
        gs[x] = s
        return s

    kw = {}
    if mode != "leave":
        kw["enter"] = enter
    if mode != "enter":
        kw["leave"] = leave
    V = lambda clause, obs, exp: ctx.violation(carrier, clause, spec, obs, exp, spec)  # noqa: E731
    tree = None
    if node_based:
        tree = make_tree(pid, xyz=np.zeros((n, 3)), r=np.ones(n), types=np.ones(n, dtype=np.int32))
    old_limit = sys.getrecursionlimit()
    what = f"{shape} of {n} nodes from node {start}, {frames} frames deep, under recursion limit {limit}"
    try:
        sys.setrecursionlimit(limit)  # 1000 = the interpreter's default
        if carrier == "Tree.traverse":
            call = lambda: tree.traverse(root=start, **kw)  # noqa: E731
        elif carrier == "Tree.Node.traverse":
            call = lambda: tree.node(start).traverse(**kw)  # noqa: E731
        else:
            from swcgeom.core.swc_utils import traverse

            call = lambda: traverse((np.arange(n, dtype=np.int32), pid), root=start, **kw)  # noqa: E731
        result = _with_frames(frames, call)
    except RecursionError as e:
        V("deep-chain-no-recursion-limit", f"RecursionError: {str(e)[:80]}", what + " traversed")
        ctx.case("deep", spec)
        return
    except Exception as e:
        V("operation-raises", f"{type(e).__name__}: {e}", "no exception")
        ctx.case("deep", spec)
        return
    finally:
        sys.setrecursionlimit(old_limit)
    if mode != "leave":
        if not np.array_equal(ce, in_sub.astype(np.int64)):
            V("enter-once-per-subtree-node", f"{int(np.count_nonzero(ce != in_sub))} nodes with a wrong enter count (max {int(ce.max())}), {what}", "every subtree node once, no other node")
        elif not (np.all(tE[pid[inner]] < tE[inner]) and np.array_equal(gd[sub], depth[sub])):
            V("enter-after-parent-with-parent-value", "depth computed through enter values differs / parent entered later", "depth of every node below the start node")
    elif ce.any():
        V("enter-once-per-subtree-node", "enter events without an enter callback", "none")
    if mode != "enter":
        if not np.array_equal(cl, in_sub.astype(np.int64)):
            V("leave-once-after-children-with-their-values", f"{int(np.count_nonzero(cl != in_sub))} nodes with a wrong leave count (max {int(cl.max())}), {what}", "every subtree node once, no other node")
        elif not (np.all(tL[inner] < tL[pid[inner]]) and np.array_equal(gs[sub], size[sub])):
            V("leave-once-after-children-with-their-values", "subtree sizes computed through leave values differ / child left later", "subtree size of every node")
        if result != size[start]:
            V("returns-start-value", repr(result), f"{int(size[start])} (the start node's leave value)")
    elif result is not None:
        V("returns-start-value", repr(result), "None (no leave callback)")
    ctx.case("deep", spec)


def _relabel(pid, perm):
    """Rename node i to perm[i] (perm[0] = 0); rows stay in id order."""
    n = len(pid)
    new = [0] * n
    for i in range(n):
        new[perm[i]] = -1 if pid[i] == -1 else perm[pid[i]]
    return [(i, new[i]) for i in range(n)]


def run(ctx):
    rng = random.Random(ctx.seed)
    lim = _Lim(ctx)
    nmax = 6 if ctx.tier == "quick" else 7
    # 1. every sorted tree, every start node, the three callback configurations, the three carriers
    for n in range(1, nmax + 1):
        for pid in sorted_parent_tables(n):
            rows = [(i, pid[i]) for i in range(n)]
            tree = make_tree(pid)
            for start in range(n):
                for mode in MODES:
                    for carrier in CARRIERS:
                        check_small(lim, carrier, rows, start, mode, tree)
    # 2. non-sorted numberings with the root at 0 (permutation fixing 0)
    for n in range(3, 6 if ctx.tier == "quick" else 7):
        for pid in sorted_parent_tables(n):
            perms = []
            if n <= 4:
                perms = [(0,) + p for p in itertools.permutations(range(1, n))][1:]
            else:
                for _ in range(2):
                    p = list(range(1, n))
                    rng.shuffle(p)
                    perms.append((0,) + tuple(p))
            for perm in perms:
                rows = _relabel(pid, perm)
                tree = make_tree([r[1] for r in rows])
                for start in range(n):
                    for mode in MODES:
                        for carrier in CARRIERS:
                            check_small(lim, carrier, rows, start, mode, tree)
                # the table form also admits any row order (child order = row order)
                shuffled = rows[:]
                rng.shuffle(shuffled)
                for start in range(n):
                    check_small(lim, "swc_utils.traverse", shuffled, start, "both")
    # 3. depth: far beyond the recursion limit
    n_chain, n_cat = (20000, 20000) if ctx.tier == "quick" else (100000, 50000)
    for carrier in CARRIERS:
        check_deep(lim, carrier, "chain", n_chain)
        check_deep(lim, carrier, "caterpillar", n_cat)
        check_deep(lim, carrier, "twigs", n_cat, start=3 * (n_cat // 12), shuffle=rng.randrange(1 << 30))  # from a node inside, shuffled numbering
        check_deep(lim, carrier, "broom", n_cat, mode=("enter", "leave")[CARRIERS.index(carrier) % 2], frames=200)
    if ctx.tier == "quick":
        check_deep(lim, "swc_utils.traverse", "chain", 100000)  # the depth the property names
    # 4. depth AROUND the recursion limit (a traversal that recurses, or that recurses first and falls back to something else when the
    #    interpreter objects, shows exactly there): every deep shape x the three carriers x depths limit-120 .. limit+120, from the top
    #    of the stack and from a few hundred frames further down; start nodes inside the tree; single callbacks on the chain
    limit = 1000
    band = (-120, -40, -12, -4, 0, 4, 40, 120) if ctx.tier == "quick" else tuple(range(-150, 151, 10))
    for k, off in enumerate(band):
        d = limit + off
        for shape in DEEP_SHAPES:
            for carrier in CARRIERS:
                j = k + DEEP_SHAPES.index(shape) + CARRIERS.index(carrier)
                check_deep(lim, carrier, shape, _size_for_depth(shape, d), frames=(0, 300, 0, 650)[j % 4], limit=limit)
        for carrier in CARRIERS:
            n = _size_for_depth("chain", d + 60)
            check_deep(lim, carrier, "chain", n, start=60, mode=MODES[k % 3], limit=limit)
            n = _size_for_depth("caterpillar", d + 25)
            check_deep(lim, carrier, "caterpillar", n, start=int(rng.randrange(1, 50)), shuffle=rng.randrange(1 << 30), limit=limit)
    ctx.rule(
        f"every sorted parent table with <= {nmax} nodes x every start node x callbacks {{enter, leave, both}} x the three carriers (exhaustive); "
        "non-sorted numberings with root 0 (all relabellings for n<=4, two seeded ones per table above) and shuffled row order for the table form; "
        f"chain of {n_chain} (and of 100000 for the table form), caterpillar / comb with two-node twigs (start node inside, shuffled numbering) / broom of {n_cat} nodes "
        f"under recursion limit 1000; chains, caterpillars, combs and brooms whose depth is the recursion limit {limit} + {list(band)}, from 0 / 300 / 650 extra frames, "
        "the three carriers, start nodes inside the tree, single callbacks; every callback counts its calls. Non-trivial = table with >= 2 nodes",
        exhaustive=True,
    )


class _Collect:
    def __init__(self):
        self.v = []
        self.notes = []

    def case(self, *a, **k):
        pass

    def violation(self, *a, **k):
        self.v.append(a)


def replay(spec):
    c = _Collect()
    if spec["kind"] == "small":
        check_small(c, spec["carrier"], [tuple(r) for r in spec["rows"]], spec["start"], spec["mode"])
    elif spec["kind"] == "deep":
        check_deep(c, spec["carrier"], spec["shape"], spec["n"], start=spec.get("start", 0), mode=spec.get("mode", "both"), shuffle=spec.get("shuffle"),
                   frames=spec.get("frames", 0), limit=spec.get("limit", 1000))
    else:
        raise ValueError(spec["kind"])
    for v in c.v:
        print("  still failing:", v[:2], v[3:5])
    return not c.v
