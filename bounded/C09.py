"""C09 bounded stand-in: node, path, branch and segment views are faithful windows.

Every check builds a fresh tree from a sorted parent table (<= 5 nodes quick, <= 6 thorough; the
trees carry one extra column `level` so that "for every key" is not only the seven SWC columns),
keeps an independent model of the columns (plain numpy copies) and compares what the library's
views report with values gathered from the model by explicit indexing.

Groups (one `check_<group>(rep, pid, ...)` each; `replay` re-runs the group on the recorded tree):
index, slice, attrs, write, paths, branches, segments, detach, copy, adjacency, interleave.
"""
from __future__ import annotations

import itertools
import json
import random

import numpy as np

from .common import CURRENT_LAYOUT, LAYOUTS, children_of, make_tree, sorted_parent_tables, using_layout

MAX_REPORTS = 3
ATTRS = ["id", "type", "x", "y", "z", "r", "pid"]


# --------------------------------------------------------------------------- infrastructure
def build(pid, allow_readonly=False):
    """the tree of this case, its columns stored in the CURRENT layout (bounded/common.py: LAYOUTS; `run` iterates over them).  Checks that
    write into the columns themselves take read-only columns only when they say so (`allow_readonly`); otherwise that layout is `separate`"""
    n = len(pid)
    layout = CURRENT_LAYOUT[0]
    if layout == "readonly" and not allow_readonly:
        layout = "separate"
    return make_tree(tuple(pid), layout=layout, level=np.arange(n, dtype=np.int32) * 3 + 100)


def model_of(t):
    return {k: np.array(t.ndata[k], copy=True) for k in t.ndata}


def tree_equals(t, model):
    """Names of the columns in which the tree differs from the model ([] = equal)."""
    bad = [k for k in model if k not in t.ndata or t.ndata[k].shape != model[k].shape or not np.array_equal(t.ndata[k], model[k])]
    return bad + [k for k in t.ndata if k not in model]


def eq(a, b):
    a, b = np.asarray(a), np.asarray(b)
    return a.shape == b.shape and bool(np.array_equal(a, b))


def lst(a):
    return np.asarray(a).tolist()


class Rep:
    """Reporter bound to one (group, tree); throttles repeats per (carrier, clause)."""

    def __init__(self, ctx, counts, group, pid, params=None):
        self.ctx, self.counts, self.group, self.pid, self.params = ctx, counts, group, list(pid), params
        self.n = 0

    def viol(self, carrier, clause, detail, observed, expected):
        self.n += 1
        key = (carrier, clause)
        self.counts[key] = self.counts.get(key, 0) + 1
        told = self.counts.setdefault(("reported",) + key, [])
        if len(told) < MAX_REPORTS and self.pid not in told:
            told.append(self.pid)
            inp = dict(group=self.group, pid=self.pid, columns=CURRENT_LAYOUT[0], **detail)
            spec = dict(group=self.group, pid=self.pid, layout=CURRENT_LAYOUT[0])
            if self.params is not None:
                spec["params"] = self.params
            self.ctx.violation(carrier, clause, json.loads(json.dumps(inp, default=str)), observed, expected, spec)

    def item(self, detail):
        """One evaluated case of this group."""
        self.ctx.case(self.group, json.loads(json.dumps(dict(pid=self.pid, columns=CURRENT_LAYOUT[0], **detail), default=str)), nontrivial=len(self.pid) >= 2)

    def guard(self, carrier, clause, detail, fn, default=None):
        """Call a library routine that must not fail on this in-domain input."""
        try:
            return True, fn()
        except Exception as e:  # reported, never swallowed
            self.viol(carrier, clause, detail, f"{type(e).__name__}: {e}", "no exception")
            return False, default


def handle_reads(h, model, i, keys=None):
    """Mismatches between what node handle `h` reports and row `i` of the model."""
    bad = []
    for k in (keys or model.keys()):
        if not eq(h[k], model[k][i]):
            bad.append((k, lst(h[k]), lst(model[k][i])))
    for a in ATTRS:
        if not eq(getattr(h, a), model[a][i]):
            bad.append(("." + a, lst(getattr(h, a)), lst(model[a][i])))
    want = np.array([model["x"][i], model["y"][i], model["z"][i]], dtype=np.float32)
    if not eq(h.xyz(), want):
        bad.append(("xyz()", lst(h.xyz()), lst(want)))
    want4 = np.array([model["x"][i], model["y"][i], model["z"][i], model["r"][i]], dtype=np.float32)
    if not eq(h.xyzr(), want4):
        bad.append(("xyzr()", lst(h.xyzr()), lst(want4)))
    if hasattr(h, "is_root") and hasattr(h, "is_soma"):  # handles of a tree: root / soma status is read through the handle as well
        root = int(model["pid"][i]) == -1
        soma = root and int(model["type"][i]) == int(h.attach.types.soma)
        if bool(h.is_root()) != root:
            bad.append(("is_root()", bool(h.is_root()), root))
        if bool(h.is_soma()) != soma:
            bad.append(("is_soma()", bool(h.is_soma()), soma))
    return bad


# --------------------------------------------------------------------------- A. Tree[i]
def check_index(rep, pid):
    t = build(pid, allow_readonly=True)
    m, n = model_of(t), len(pid)
    for i in list(range(-n, n)) + [np.int32(-1), np.int64(n - 1), np.int32(-n)]:
        d = dict(index=int(i), kind=type(i).__name__)
        rep.item(d)
        ok, h = rep.guard("Tree.__getitem__", "index-normalisation", d, lambda: t[i])
        if not ok:
            continue
        if int(h.idx) != int(i) % n:
            rep.viol("Tree.__getitem__", "index-normalisation", d, f"handle.idx = {int(h.idx)}", f"idx = {int(i) % n}")
        bad = handle_reads(h, m, int(i) % n)
        if bad:
            rep.viol("Tree.__getitem__", "index-normalisation", d, f"(key, reported, column value): {bad}", f"row {int(i) % n} of every column")
    for i in (n, n + 1, -n - 1, -n - 2, np.int32(n)):
        try:
            h = t[i]
            rep.viol("Tree.__getitem__", "index-normalisation", dict(index=int(i)), f"no error, handle idx {lst(h.idx)}", "IndexError")
        except IndexError:
            pass
        except Exception as e:
            rep.viol("Tree.__getitem__", "index-normalisation", dict(index=int(i)), f"{type(e).__name__}: {e}", "IndexError")
    for k in m:  # Tree['x'] is the column itself
        ok, col = rep.guard("Tree.__getitem__", "index-normalisation", dict(key=k), lambda: t[k])
        if ok and (not eq(col, m[k]) or not np.shares_memory(col, t.ndata[k])):
            rep.viol("Tree.__getitem__", "index-normalisation", dict(key=k), f"{lst(col)} (shares memory with the column: {np.shares_memory(col, t.ndata[k])})", f"the column {lst(m[k])} itself")
    if tree_equals(t, m):
        rep.viol("Tree.__getitem__", "index-normalisation", {}, f"reading changed columns {tree_equals(t, m)}", "reads do not modify")


# --------------------------------------------------------------------------- B. Tree[a:b:c]
def slice_grid(n, quick):
    ends = [None] + list(range(-n - 1, n + 2))
    steps = [None, 2, -1] if quick else [None, 1, 2, 3, -1, -2]
    return [(a, b, c) for a in ends for b in ends for c in steps]


def check_slice_one(rep, t, m, sl, carrier="Tree.__getitem__"):
    n = len(m["id"])
    d = dict(slice=list(sl))
    want = list(range(n))[slice(*sl)]
    ok, hs = rep.guard(carrier, "slice-semantics", d, lambda: t[slice(*sl)])
    if not ok:
        return
    got = [int(h.idx) for h in hs]
    if got != want:
        rep.viol(carrier, "slice-semantics", d, f"node positions {got}", f"list(range({n}))[slice] = {want}")
        return
    for h, i in zip(hs, want):
        bad = handle_reads(h, m, i)
        if bad:
            rep.viol(carrier, "slice-semantics", d, f"element for position {i}: {bad}", "row of every column")
            return


def check_slice(rep, pid, quick=True):
    t = build(pid)
    m = model_of(t)
    for sl in slice_grid(len(pid), quick):
        rep.item(dict(slice=list(sl)))
        check_slice_one(rep, t, m, sl)
    if tree_equals(t, m):
        rep.viol("Tree.__getitem__", "slice-semantics", {}, f"slicing changed columns {tree_equals(t, m)}", "reads do not modify")


# --------------------------------------------------------------------------- C. attributes are read at call time
def new_values(model, k, salt):
    a = model[k]
    if np.issubdtype(a.dtype, np.floating):
        return (a * 2 + 0.5 + salt + np.arange(len(a))).astype(a.dtype)
    return (a + 40 + salt + np.arange(len(a)) * 2).astype(a.dtype)


def check_attrs(rep, pid):
    n = len(pid)
    for mode in ("in-place", "rebind"):
        t = build(pid)
        m = model_of(t)
        old = [t[i] for i in range(n)] + [t.node(i) for i in range(n)] + [t[-1]]
        rows = list(range(n)) + list(range(n)) + [n - 1]
        for salt, k in enumerate(m):
            if k in ("id", "pid"):
                continue  # handled below: they steer parent()/children(), not plain attributes only
            rep.item(dict(mode=mode, key=k))
            v = new_values(m, k, salt)
            if mode == "in-place":
                t.ndata[k][:] = v
            else:
                t.ndata[k] = v.copy()
            m[k] = v
            for h, i in zip(old, rows):
                bad = handle_reads(h, m, i)
                if bad:
                    rep.viol("Node.__getitem__", "attributes-at-call-time", dict(mode=mode, key=k, node=i),
                             f"handle made before the column was written ({mode}) reports {bad}", "the value in the column now")
                    break
        # id / pid columns: a handle made earlier follows them too
        for k in ("pid", "id"):
            v = new_values(m, k, 3)
            if mode == "in-place":
                t.ndata[k][:] = v
            else:
                t.ndata[k] = v.copy()
            m[k] = v
            for h, i in zip(old, rows):
                bad = handle_reads(h, m, i)
                if bad:
                    rep.viol("Node.__getitem__", "attributes-at-call-time", dict(mode=mode, key=k, node=i), f"older handle reports {bad}", "the value in the column now")
                    break


# --------------------------------------------------------------------------- D. writes through tree handles
WRITE_VALUES = dict(id=61, type=7, x=5, y=-2.5, z=1e3, r=0.125, pid=0, level=9)


def _expect_write(rep, carrier, t, m, i, k, detail):
    """After the library wrote WRITE_VALUES[k] at node i: the tree equals the model with only that cell changed."""
    m[k][i] = WRITE_VALUES[k]
    bad = tree_equals(t, m)
    if bad:
        rep.viol(carrier, "write-through", detail, "; ".join(f"{c}: {lst(t.ndata.get(c))}" for c in bad), "; ".join(f"{c}: {lst(m[c])}" for c in bad))
        return False
    return True


def check_write(rep, pid):
    n = len(pid)
    ch = children_of(pid)
    for i in range(n):
        for k in ATTRS + ["level"]:
            # a) attribute assignment / item assignment on Tree[i], Tree[i-n], Tree.node(i)
            for how in ("Tree[i]", "Tree[i-n]", "Tree.node(i)", "Tree[i][k]=v"):
                t = build(pid, allow_readonly=True)
                m = model_of(t)
                d = dict(node=i, key=k, via=how)
                rep.item(d)
                reader = t[i]  # an older handle that must see the write
                refused = not t.ndata[k].flags.writeable  # numpy refuses a store into a read-only column (ValueError): so must the handle
                try:
                    h = t[i] if how in ("Tree[i]", "Tree[i][k]=v") else t[i - n] if how == "Tree[i-n]" else t.node(i)
                    if how == "Tree[i][k]=v" or k == "level":
                        h[k] = WRITE_VALUES[k]
                    else:
                        setattr(h, k, WRITE_VALUES[k])
                except Exception as e:
                    if refused and isinstance(e, ValueError):
                        if tree_equals(t, m):
                            rep.viol("Node.__setitem__", "write-through", d, f"refused write changed columns {tree_equals(t, m)}", "a refused write changes nothing")
                    else:
                        rep.viol("Node.__setitem__", "write-through", d, f"{type(e).__name__}: {e}", "the cell is assigned")
                    continue
                if refused:
                    rep.viol("Node.__setitem__", "write-through", d, f"no exception; column now {lst(t.ndata[k])}", "ValueError: the owner's column is read-only, as a store into the column itself raises")
                    continue
                if _expect_write(rep, "Node.__setitem__", t, m, i, k, d) and not eq(reader[k], m[k][i]):
                    rep.viol("Node.__getitem__", "attributes-at-call-time", d, f"older handle reads {lst(reader[k])}", f"{lst(m[k][i])}")
        # b) parent() / children() handles: right node, and writes through them land in the owner
        t = build(pid)
        m = model_of(t)
        d = dict(node=i, via="parent()")
        rep.item(d)
        ok, p = rep.guard("Tree.Node.parent", "write-through", d, lambda: t[i].parent())
        if ok:
            if pid[i] == -1:
                if p is not None:
                    rep.viol("Tree.Node.parent", "write-through", d, f"handle idx {lst(p.idx)}", "None for the root")
            elif p is None or int(p.idx) != pid[i] or handle_reads(p, m, pid[i]):
                rep.viol("Tree.Node.parent", "write-through", d, f"handle {None if p is None else (int(p.idx), handle_reads(p, m, pid[i]))}", f"handle of node {pid[i]}")
            else:
                for k in ("x", "type", "r"):
                    setattr(p, k, WRITE_VALUES[k])
                    _expect_write(rep, "Tree.Node.parent", t, m, pid[i], k, dict(d, key=k))
        t = build(pid)
        m = model_of(t)
        d = dict(node=i, via="children()")
        rep.item(d)
        # a handle made with a negative position (Tree.node(i - n), as the library itself does with node(-1)) refers to
        # the same node: its parent() / children() must be that node's
        ok2, cs2 = rep.guard("Tree.Node.children", "write-through", dict(d, via="node(i-n).children()"), lambda: t.node(i - len(pid)).children())
        if ok2 and [int(c.idx) for c in cs2] != ch[i]:
            rep.viol("Tree.Node.children", "write-through", dict(d, via="node(i-n).children()"), f"handles of {[int(c.idx) for c in cs2]}", f"handles of {ch[i]}")
        ok2, p2 = rep.guard("Tree.Node.parent", "write-through", dict(d, via="node(i-n).parent()"), lambda: t.node(i - len(pid)).parent())
        if ok2 and (None if p2 is None else int(p2.idx)) != (None if pid[i] == -1 else pid[i]):
            rep.viol("Tree.Node.parent", "write-through", dict(d, via="node(i-n).parent()"), f"handle {None if p2 is None else int(p2.idx)}", f"handle of {pid[i]}")
        ok, cs = rep.guard("Tree.Node.children", "write-through", d, lambda: t[i].children())
        if ok:
            got = [int(c.idx) for c in cs]
            if got != ch[i]:
                rep.viol("Tree.Node.children", "write-through", d, f"handles of {got}", f"handles of {ch[i]}")
            else:
                for c, j in zip(cs, ch[i]):
                    for k in ("y", "type", "pid"):
                        setattr(c, k, WRITE_VALUES[k])
                        _expect_write(rep, "Tree.Node.children", t, m, j, k, dict(d, key=k, child=j))


# --------------------------------------------------------------------------- E. paths
def gather(model, idx):
    """Oracle: explicit loop, one row after the other."""
    return {k: np.array([model[k][int(i)] for i in idx], dtype=model[k].dtype) for k in model}


def check_window(rep, carrier, p, model, idx, detail, handles=True):
    """`p` (Path/Branch/Compartment attached to a tree with columns `model`) is the window `idx`."""
    idx = [int(i) for i in idx]
    g = gather(model, idx)
    L = len(idx)
    ok, length = rep.guard(carrier, "path-gathers-in-order", detail, lambda: len(p))
    if not ok:
        return False
    if length != L or p.number_of_nodes() != L:
        rep.viol(carrier, "path-gathers-in-order", detail, f"len {length}, number_of_nodes {p.number_of_nodes()}", f"{L}")
        return False
    if set(p.keys()) != set(model):
        rep.viol(carrier, "path-gathers-in-order", detail, f"keys {sorted(p.keys())}", f"{sorted(model)}")
    for k in model:
        ok, v = rep.guard(carrier, "path-gathers-in-order", dict(detail, key=k), lambda: p.get_ndata(k))
        if ok and not eq(v, g[k]):
            rep.viol(carrier, "path-gathers-in-order", dict(detail, key=k), f"get_ndata -> {lst(v)}", f"column gathered at {idx} in order: {lst(g[k])}")
            return False
        ok, v = rep.guard(carrier, "path-gathers-in-order", dict(detail, key=k), lambda: p[k])
        if ok and not eq(v, g[k]):
            rep.viol(carrier, "path-gathers-in-order", dict(detail, key=k), f"p[{k!r}] -> {lst(v)}", lst(g[k]))
    acc = dict(type=p.type(), x=p.x(), y=p.y(), z=p.z(), r=p.r(), origin_id=p.origin_id(), origin_pid=p.origin_pid())
    exp = dict(type=g["type"], x=g["x"], y=g["y"], z=g["z"], r=g["r"], origin_id=g["id"], origin_pid=g["pid"])
    for k in acc:
        if not eq(acc[k], exp[k]):
            rep.viol(carrier, "path-gathers-in-order", dict(detail, accessor=k), lst(acc[k]), lst(exp[k]))
    if not eq(p.id(), np.arange(L)) or not eq(p.pid(), np.arange(-1, L - 1)):
        rep.viol(carrier, "path-gathers-in-order", dict(detail, accessor="id/pid"), f"{lst(p.id())} / {lst(p.pid())}", f"{list(range(L))} / {list(range(-1, L - 1))}")
    if not eq(p.xyz(), np.stack([g["x"], g["y"], g["z"]], axis=1)) or not eq(p.xyzr(), np.stack([g["x"], g["y"], g["z"], g["r"]], axis=1)):
        rep.viol(carrier, "path-gathers-in-order", dict(detail, accessor="xyz/xyzr"), lst(p.xyzr()), "rows of the gathered columns")
    if not handles:
        return True
    # node handles of the window: Path[i], Path[-1], slices, out of range
    local = dict(g)
    local_attr = dict(g)  # a path node reports the ORIGINAL id / pid of the node (Path.get_ndata gathers them)
    for i in range(-L, L):
        ok, h = rep.guard("Path.__getitem__", "index-normalisation", dict(detail, index=i), lambda: p[i])
        if not ok:
            continue
        if int(h.idx) != i % L:
            rep.viol("Path.__getitem__", "index-normalisation", dict(detail, index=i), f"handle.idx = {int(h.idx)}", f"{i % L}")
        bad = handle_reads(h, local_attr, i % L)
        if bad:
            rep.viol("Path.__getitem__", "path-gathers-in-order", dict(detail, index=i), f"(key, reported, expected) {bad}", f"row of node {idx[i % L]}")
    for i in (L, -L - 1):
        try:
            p[i]
            rep.viol("Path.__getitem__", "index-normalisation", dict(detail, index=i), "no error", "IndexError")
        except IndexError:
            pass
        except Exception as e:
            rep.viol("Path.__getitem__", "index-normalisation", dict(detail, index=i), f"{type(e).__name__}: {e}", "IndexError")
    for sl in [(None, None, None), (1, None, None), (None, -1, None), (None, None, -1), (-2, None, None), (0, L + 3, 2), (L, None, None), (-L - 2, 1, None)]:
        want = list(range(L))[slice(*sl)]
        ok, hs = rep.guard("Path.__getitem__", "slice-semantics", dict(detail, slice=list(sl)), lambda: p[slice(*sl)])
        if not ok:
            continue
        got = [int(h.idx) for h in hs]
        if got != want or any(handle_reads(h, local, j) for h, j in zip(hs, want)):
            rep.viol("Path.__getitem__", "slice-semantics", dict(detail, slice=list(sl)), f"positions {got}", f"{want} with the rows of nodes {[idx[j] for j in want]}")
    return True


def all_chains(pid):
    """Every downward chain a -> ... -> b with >= 2 nodes (ancestor first)."""
    out = []
    for b in range(len(pid)):
        c = [b]
        while pid[c[-1]] != -1:
            c.append(pid[c[-1]])
            out.append(list(reversed(c)))
    return out


def check_paths(rep, pid, rng=None):
    n = len(pid)
    t = build(pid)
    m = model_of(t)
    ok, paths = rep.guard("Tree.get_paths", "path-gathers-in-order", {}, lambda: t.get_paths())
    if ok:
        for j, p in enumerate(paths):
            rep.item(dict(path=lst(p.idx)))
            check_window(rep, "Path.get_ndata", p, m, p.idx, dict(path=j, idx=lst(p.idx)))
        # at call time: write the tree, read through the paths made before
        for salt, k in enumerate(m):
            if k in ("id", "pid"):
                continue
            v = new_values(m, k, salt)
            t.ndata[k][:] = v
            m[k] = v
        for j, p in enumerate(paths):
            check_window(rep, "Path.get_ndata", p, m, p.idx, dict(path=j, idx=lst(p.idx), after="writing every column of the tree"), handles=False)
            h = p[-1]
            if handle_reads(h, gather(m, p.idx), len(p.idx) - 1):
                rep.viol("Path.__getitem__", "attributes-at-call-time", dict(path=j, idx=lst(p.idx)), "Path[-1] made after the write reports old values", "current values")
    # windows given explicitly: any order, repeats
    t = build(pid)
    m = model_of(t)
    idxs = [list(q) for q in itertools.permutations(range(n), min(n, 3))][:12] + [[n - 1, 0, n - 1], [0], list(range(n - 1, -1, -1))]
    for idx in idxs:
        rep.item(dict(window=idx))
        ok, p = rep.guard("Path.__init__", "path-gathers-in-order", dict(idx=idx), lambda: t.Path(t, idx))
        if ok:
            check_window(rep, "Path.get_ndata", p, m, idx, dict(idx=idx, made="Tree.Path(tree, idx)"))
    if tree_equals(t, m):
        rep.viol("Path.get_ndata", "path-gathers-in-order", {}, f"reading paths changed columns {tree_equals(t, m)}", "reads do not modify")
    return paths if ok else []


# --------------------------------------------------------------------------- F. branches and their compartments
def check_pairs(rep, b, detail, kind):
    """get_compartments()/get_segments() of branch `b`: len-1 of them, j-th = (node j, node j+1) for every key."""
    ok, L = rep.guard("Branch.__len__", "consecutive-pairs", detail, lambda: len(b))
    if not ok:
        return
    ok, cols = rep.guard("Branch.get_ndata", "consecutive-pairs", detail, lambda: {k: np.array(b.get_ndata(k), copy=True) for k in b.keys()})
    if not ok:
        return
    for method in ("get_compartments", "get_segments"):
        d = dict(detail, branch=kind, method=method)
        carrier = f"Branch.{method}"
        try:
            comps = getattr(b, method)()
            got_len = len(comps)
            got = [{k: np.array(c.get_ndata(k), copy=True) for k in cols} for c in comps]
        except Exception as e:
            rep.viol(carrier, "consecutive-pairs", d, f"{type(e).__name__}: {e}", f"{L - 1} compartments (node j, node j+1)")
            continue
        if got_len != L - 1:
            rep.viol(carrier, "consecutive-pairs", d, f"{got_len} compartments", f"len(branch) - 1 = {L - 1}")
            continue
        done = False
        for j in range(L - 1):
            for k in cols:
                want = np.array([cols[k][j], cols[k][j + 1]], dtype=cols[k].dtype)
                if not eq(got[j][k], want):
                    rep.viol(carrier, "consecutive-pairs", dict(d, compartment=j, key=k), f"compartment {j} reports {k} = {lst(got[j][k])}",
                             f"(branch.{k}[{j}], branch.{k}[{j + 1}]) = {lst(want)}")
                    done = True
                    break
            if done:
                break
        if done or L < 2:
            continue
        # the container stacks them: shape (L-1, 2)
        for k in cols:
            try:
                v = comps.get_ndata(k)
            except Exception as e:
                rep.viol("Compartments.get_ndata", "consecutive-pairs", dict(d, key=k), f"{type(e).__name__}: {e}", "array of pairs")
                break
            want = np.stack([cols[k][:-1], cols[k][1:]], axis=1)
            if not eq(v, want):
                rep.viol("Compartments.get_ndata", "consecutive-pairs", dict(d, key=k), lst(v), lst(want))
                break
        for c in comps:  # a compartment is a 2-node path of its own
            if len(c) != 2 or not eq(c.id(), [0, 1]) or not eq(c.pid(), [-1, 0]):
                rep.viol(carrier, "consecutive-pairs", d, f"compartment len {len(c)} id {lst(c.id())} pid {lst(c.pid())}", "2 nodes, id [0,1], pid [-1,0]")
                break


def check_branches(rep, pid):
    from swcgeom.core import Branch

    t = build(pid)
    m = model_of(t)
    ok, brs = rep.guard("Tree.get_branches", "path-gathers-in-order", {}, lambda: t.get_branches())
    brs = list(brs) if ok else []
    made = [(b, "Tree.get_branches") for b in brs]
    for chain in all_chains(pid):
        ok, b = rep.guard("Branch.__init__", "path-gathers-in-order", dict(idx=chain), lambda: t.Branch(t, chain))
        if ok:
            made.append((b, "Tree.Branch(tree, chain)"))
    for b, how in made:
        idx = lst(b.idx)
        d = dict(idx=idx, made=how)
        rep.item(d)
        if not check_window(rep, "Branch.get_ndata", b, m, idx, d):
            continue
        check_pairs(rep, b, d, "attached to the tree")
        ok, det = rep.guard("Branch.detach", "detach-equal-content", d, lambda: b.detach())
        if ok:
            check_pairs(rep, det, d, "detached")
    # Branch.from_xyzr
    for L in range(1, 5):
        xyzr = np.array([[1.0 + i, 2.0 * i, -0.5 * i, 1.0 + 0.25 * i] for i in range(L)], dtype=np.float32)
        for width in (4, 3):
            d = dict(made="Branch.from_xyzr", n=L, width=width)
            rep.item(d)
            ok, b = rep.guard("Branch.from_xyzr", "consecutive-pairs", d, lambda: Branch.from_xyzr(xyzr[:, :width].copy()))
            if not ok:
                continue
            want_r = xyzr[:, 3] if width == 4 else np.ones(L, dtype=np.float32)
            if not eq(b.xyz(), xyzr[:, :3]) or not eq(b.r(), want_r) or len(b) != L:
                rep.viol("Branch.from_xyzr", "path-gathers-in-order", d, lst(b.xyzr()), "the rows given")
            check_pairs(rep, b, d, "from_xyzr")
    if tree_equals(t, m):
        rep.viol("Branch.get_compartments", "consecutive-pairs", {}, f"reading changed columns {tree_equals(t, m)}", "reads do not modify")


# --------------------------------------------------------------------------- G. the tree's own segments
def check_segments(rep, pid):
    n = len(pid)
    t = build(pid)
    m = model_of(t)
    for method in ("get_compartments", "get_segments"):
        carrier = f"Tree.{method}"
        d = dict(method=method)
        rep.item(d)
        ok, comps = rep.guard(carrier, "tree-segments-are-parent-child", d, lambda: getattr(t, method)())
        if not ok:
            continue
        if len(comps) != n - 1:
            rep.viol(carrier, "tree-segments-are-parent-child", d, f"{len(comps)} segments", f"one per non-root node: {n - 1}")
            continue
        for j, c in enumerate(comps):
            i = j + 1
            want_idx = [pid[i], i]
            if lst(c.idx) != want_idx:
                rep.viol(carrier, "tree-segments-are-parent-child", dict(d, segment=j), f"nodes {lst(c.idx)}", f"(pid[{i}], {i}) = {want_idx}")
                break
            if not check_window(rep, carrier, c, m, want_idx, dict(d, segment=j), handles=False):
                break
        for k in m:  # also for the one-node tree: no segment, the documented (n_sample, 2) shape with n_sample = 0
            want = np.array([[m[k][pid[i]], m[k][i]] for i in range(1, n)], dtype=m[k].dtype).reshape(n - 1, 2)
            ok, v = rep.guard("Compartments.get_ndata", "tree-segments-are-parent-child", dict(d, key=k), lambda: comps.get_ndata(k))
            if ok and (np.shape(v) != (n - 1, 2) or not eq(v, want)):
                rep.viol("Compartments.get_ndata", "tree-segments-are-parent-child", dict(d, key=k), f"shape {np.shape(v)} {lst(v)}", f"shape {(n - 1, 2)} {lst(want)}")
                break
        for meth, cols in (("xyz", ("x", "y", "z")), ("xyzr", ("x", "y", "z", "r"))):
            want = np.array([[[m[k][pid[i]] for k in cols], [m[k][i] for k in cols]] for i in range(1, n)], dtype=np.float64).reshape(n - 1, 2, len(cols))
            ok, v = rep.guard(f"Compartments.{meth}", "tree-segments-are-parent-child", dict(d, accessor=meth), lambda: getattr(comps, meth)())
            if ok and (np.shape(v) != want.shape or not np.array_equal(np.asarray(v, dtype=np.float64), want)):
                rep.viol(f"Compartments.{meth}", "tree-segments-are-parent-child", dict(d, accessor=meth), f"shape {np.shape(v)}", f"shape {want.shape} with the (parent, child) coordinates")
    if tree_equals(t, m):
        rep.viol("Tree.get_compartments", "tree-segments-are-parent-child", {}, f"reading changed columns {tree_equals(t, m)}", "reads do not modify")


# --------------------------------------------------------------------------- H. detach
def root_to_tip_chains(pid):
    ch = children_of(pid)
    out = []
    for tip in range(len(pid)):
        if not ch[tip]:
            c = [tip]
            while pid[c[-1]] != -1:
                c.append(pid[c[-1]])
            out.append(list(reversed(c)))
    return out


def views_of(t, pid):
    """(kind, carrier, window, factory) for every view whose detach() is examined."""
    n = len(pid)
    out = [("node", "Node.detach", [i], (lambda t, i=i: t[i])) for i in range(n)]
    out += [("node", "Node.detach", [n - 1], (lambda t: t.node(n - 1)))]
    out += [("path", "Path.detach", c, (lambda t, c=c: t.Path(t, c))) for c in root_to_tip_chains(pid)]
    out += [("branch", "Branch.detach", c, (lambda t, c=c: t.Branch(t, c))) for c in all_chains(pid)]
    out += [("compartment", "Compartment.detach", [pid[i], i], (lambda t, i=i: t.Compartment(t, pid[i], i))) for i in range(1, n)]
    return out


def detached_content(d, kind):
    """What a detached view reports, key by key (through its public accessors)."""
    if kind == "node":
        return {k: np.array([d[k]]) for k in d.keys()}
    return {k: np.array(d.get_ndata(k), copy=True) for k in d.keys()}


def expected_detached(model, window, kind):
    g = gather(model, window)
    L = len(window)
    g["id"] = np.arange(L, dtype=np.int32)  # a detached view is renumbered 0..L-1, its first node a root
    g["pid"] = np.arange(-1, L - 1, dtype=np.int32)
    return g


def content_mismatch(got, want):
    return [(k, lst(got.get(k)), lst(want[k])) for k in want if k not in got or not eq(got[k], want[k])] + [(k, "unexpected key", None) for k in got if k not in want]


def check_detach(rep, pid):
    probe = build(pid)
    for kind, carrier, window, factory in views_of(probe, pid):
        d0 = dict(view=kind, window=window)
        rep.item(d0)
        t = build(pid)
        m = model_of(t)
        ok, view = rep.guard(carrier, "detach-equal-content", d0, lambda: factory(t))
        if not ok:
            continue
        ok, d = rep.guard(carrier, "detach-equal-content", d0, lambda: view.detach())
        if not ok:
            continue
        want = expected_detached(m, window, kind)
        ok, got = rep.guard(carrier, "detach-equal-content", d0, lambda: detached_content(d, kind))
        if not ok:
            continue
        bad = content_mismatch(got, want)
        if bad:
            rep.viol(carrier, "detach-equal-content", d0, f"(key, detached, expected) {bad}", "content of the window, renumbered from 0")
            continue
        if kind != "node":
            if len(d) != len(window) or not eq(d.id(), want["id"]) or not eq(d.pid(), want["pid"]) or not eq(d.xyz(), np.stack([want["x"], want["y"], want["z"]], axis=1)):
                rep.viol(carrier, "detach-equal-content", d0, f"len {len(d)} id {lst(d.id())} pid {lst(d.pid())}", f"len {len(window)}, id 0.., pid -1..")
        if tree_equals(t, m):
            rep.viol(carrier, "detach-independent", d0, f"detach() changed the tree columns {tree_equals(t, m)}", "tree untouched")
        # storage
        owner = getattr(d, "attach", None)
        if owner is t or not hasattr(owner, "ndata"):
            rep.viol(carrier, "detach-independent", d0, f"the detached view is attached to {type(owner).__name__}{' (the tree itself)' if owner is t else ''}", "a private DictSWC")
            continue
        shared = [(a, b) for a, va in owner.ndata.items() for b, vb in t.ndata.items() if np.shares_memory(va, vb)]
        if shared:
            rep.viol(carrier, "detach-independent", d0, f"np.shares_memory true for (detached column, tree column) {shared}", "no shared storage")
        # edit the tree: the detached copy keeps its content
        for salt, k in enumerate(list(m)):
            v = new_values(m, k, salt)
            t.ndata[k][:] = v
            m[k] = v
        bad = content_mismatch(detached_content(d, kind), want)
        if bad:
            rep.viol(carrier, "detach-independent", dict(d0, edit="every column of the tree"), f"detached content changed: {bad}", "unchanged")
        # edit the detached copy (columns and, for nodes, through the handle): the tree keeps its content
        for salt, k in enumerate(list(owner.ndata)):
            a = owner.ndata[k]
            a[:] = a * 3 + 7 + salt if np.issubdtype(a.dtype, np.floating) else a + 23 + salt
        if kind == "node":
            d.x = 12345.0
            d.type = 77
        else:
            h = d[0]
            h["r"] = 54321.0
        if tree_equals(t, m):
            rep.viol(carrier, "detach-independent", dict(d0, edit="every column of the detached copy"), f"tree columns changed: {tree_equals(t, m)}", "unchanged")
        # the attached view still shows the tree
        if kind == "node":
            if handle_reads(view, m, window[0]):
                rep.viol(carrier, "detach-independent", d0, "the attached handle no longer reports the tree", "tree values")
        else:
            g = gather(m, window)
            if any(not eq(view.get_ndata(k), g[k]) for k in m):
                rep.viol(carrier, "detach-independent", d0, "the attached view no longer reports the tree", "tree values")
        # detaching a detached view again
        if kind != "node":
            ok, d2 = rep.guard(carrier, "detach-equal-content", dict(d0, again=True), lambda: d.detach())
            if ok:
                c1, c2 = detached_content(d, kind), detached_content(d2, kind)
                c1["id"] = np.arange(len(window))  # (the columns of d, id/pid included, were edited above; detach renumbers)
                c1["pid"] = np.arange(-1, len(window) - 1)
                if content_mismatch(c2, c1):
                    rep.viol(carrier, "detach-equal-content", dict(d0, again=True), f"{content_mismatch(c2, c1)}", "same content, renumbered from 0")
                if any(np.shares_memory(va, vb) for va in d2.attach.ndata.values() for vb in d.attach.ndata.values()):
                    rep.viol(carrier, "detach-independent", dict(d0, again=True), "second detach shares storage with the first", "no shared storage")


# --------------------------------------------------------------------------- I. Tree.copy
def check_copy(rep, pid):
    rep.item({})
    t = build(pid)
    t.comments.append("a comment")
    m = model_of(t)
    old_handles = [t[i] for i in range(len(pid))]
    ok, c = rep.guard("DictSWC.copy", "copy-independent", {}, lambda: t.copy())
    if not ok:
        return
    if type(c) is not type(t) or tree_equals(c, m) or any(c.ndata[k].dtype != m[k].dtype for k in m) or list(c.ndata) != list(m) or c.source != t.source or c.comments != t.comments:
        rep.viol("DictSWC.copy", "detach-equal-content", {}, f"type {type(c).__name__}, differing columns {tree_equals(c, m)}, dtypes {[str(v.dtype) for v in c.ndata.values()]}", "equal content")
        return
    if c is t or c.ndata is t.ndata or c.comments is t.comments:
        rep.viol("DictSWC.copy", "copy-independent", {}, "copy shares the object / ndata dict / comments list", "fresh containers")
    shared = [(a, b) for a, va in c.ndata.items() for b, vb in t.ndata.items() if np.shares_memory(va, vb)]
    if shared:
        rep.viol("DictSWC.copy", "copy-independent", {}, f"np.shares_memory true for {shared}", "no shared storage")
    mc = model_of(c)
    # edit the original (columns, handle, new key): the copy is unchanged
    for salt, k in enumerate(list(m)):
        t.ndata[k][:] = new_values(m, k, salt)
    old_handles[0].x = -8.0
    t.ndata["brand_new"] = np.zeros(len(pid))
    t.comments.append("later")
    if tree_equals(c, mc) or c.comments != ["a comment"]:
        rep.viol("DictSWC.copy", "copy-independent", dict(edit="original"), f"copy changed in {tree_equals(c, mc)}, comments {c.comments}", "unchanged")
    mt = model_of(t)
    # edit the copy: the original is unchanged, and handles stay with their own owner
    hc = c[-1]
    hc.x = 31.0
    hc.type = 9
    c.node(0).pid = 5
    for k in list(c.ndata):
        c.ndata[k][:] = c.ndata[k] + 1
    c.ndata["only_copy"] = np.ones(len(pid))
    if tree_equals(t, mt):
        rep.viol("DictSWC.copy", "copy-independent", dict(edit="copy"), f"original changed in {tree_equals(t, mt)}", "unchanged")
    for i, h in enumerate(old_handles):
        if handle_reads(h, {k: mt[k] for k in m}, i, keys=list(m)):
            rep.viol("DictSWC.copy", "copy-independent", dict(edit="copy", node=i), "a handle of the original reports the copy's values", "the original's values")
            break


# --------------------------------------------------------------------------- J. adjacency matrix
def check_adjacency(rep, pid):
    rep.item({})
    n = len(pid)
    t = build(pid)
    m = model_of(t)
    want = np.zeros((n, n), dtype=np.int64)
    for i in range(1, n):
        want[pid[i], i] = 1
    ok, a = rep.guard("SWCLike.get_adjacency_matrix", "adjacency-matrix", {}, lambda: t.get_adjacency_matrix())
    if ok:
        try:
            dense, shape, nnz = np.asarray(a.toarray()), tuple(a.shape), int(a.nnz)
            trip = sorted(zip(lst(a.row), lst(a.col), lst(a.data)))
        except Exception as e:
            rep.viol("SWCLike.get_adjacency_matrix", "adjacency-matrix", {}, f"{type(e).__name__}: {e}", "a sparse matrix")
        else:
            exp_trip = sorted((pid[i], i, 1) for i in range(1, n))
            if shape != (n, n) or not eq(dense, want) or trip != exp_trip or nnz != n - 1:
                rep.viol("SWCLike.get_adjacency_matrix", "adjacency-matrix", {}, f"shape {shape}, triplets {trip}", f"shape {(n, n)}, triplets (pid[i], i, 1) = {exp_trip}")
    # a path is a chain of its own
    for c in root_to_tip_chains(pid):
        p = t.Path(t, c)
        ok, a = rep.guard("SWCLike.get_adjacency_matrix", "adjacency-matrix", dict(path=c), lambda: p.get_adjacency_matrix())
        if ok:
            L = len(c)
            w = np.zeros((L, L), dtype=np.int64)
            for j in range(1, L):
                w[j - 1, j] = 1
            if tuple(a.shape) != (L, L) or not eq(np.asarray(a.toarray()), w):
                rep.viol("SWCLike.get_adjacency_matrix", "adjacency-matrix", dict(path=c), lst(a.toarray()), lst(w))
    if tree_equals(t, m):
        rep.viol("SWCLike.get_adjacency_matrix", "adjacency-matrix", {}, f"changed columns {tree_equals(t, m)}", "reads do not modify")


# --------------------------------------------------------------------------- K. interleavings
WKEYS = ["type", "x", "y", "z", "r", "level"]
WVALS = [0, 4, -3, 17, 250]


def random_steps(rng, length):
    steps = []
    for _ in range(length):
        kind = rng.choice(["read", "write", "write", "copy", "detach", "slice", "dwrite"])
        if kind == "read":
            steps.append(["read", rng.randrange(8), rng.randrange(-6, 6), rng.choice(WKEYS + ["id", "pid"])])
        elif kind == "write":
            steps.append(["write", rng.randrange(8), rng.randrange(-6, 6), rng.choice(WKEYS), rng.choice(WVALS), rng.choice(["old", "new", "parent", "child"])])
        elif kind == "copy":
            steps.append(["copy", rng.randrange(8)])
        elif kind == "detach":
            steps.append(["detach", rng.randrange(8), rng.choice(["node", "path", "branch", "compartment"]), rng.randrange(16)])
        elif kind == "slice":
            steps.append(["slice", rng.randrange(8), rng.choice([None, -7, -2, 0, 1, 3, 7]), rng.choice([None, -7, -1, 0, 2, 4, 7]), rng.choice([None, 1, 2, -1])])
        else:
            steps.append(["dwrite", rng.randrange(8), rng.choice(["x", "r", "type"]), rng.choice(WVALS)])
    return steps


def check_interleave(rep, pid, steps):
    """Worlds = (tree, model); detached = (object, kind, frozen expected content).  After every step
    the WHOLE state is compared with the models."""
    n = len(pid)
    ch = children_of(pid)
    views = None

    def new_world(tree, model):
        return dict(tree=tree, model=model, handles=[tree[i] for i in range(n)])

    t0 = build(pid)
    worlds = [new_world(t0, model_of(t0))]
    detached = []

    def whole_state(step_no, step, touched_world=None, touched_detached=None):
        d = dict(steps=steps, at=step_no)
        for wi, w in enumerate(worlds):
            bad = tree_equals(w["tree"], w["model"])
            if bad:
                if touched_world == wi:
                    rep.viol("Node.__setitem__", "write-through", d, f"after {step}: tree #{wi} columns {bad}: {[lst(w['tree'].ndata.get(k)) for k in bad]}", f"{[lst(w['model'][k]) for k in bad]}")
                else:
                    other = detached[touched_detached]["carrier"] if touched_detached is not None else "Node.detach"
                    rep.viol("DictSWC.copy" if touched_world is not None else other, "copy-independent" if touched_world is not None else "detach-independent", d,
                             f"after {step}: tree #{wi} (not the one written) changed in {bad}", "unchanged")
                w["model"] = model_of(w["tree"])  # re-baseline: one report per leak
            for i, h in enumerate(w["handles"]):
                if handle_reads(h, w["model"], i):
                    rep.viol("Node.__getitem__", "attributes-at-call-time", d, f"after {step}: the handle of node {i} of tree #{wi} made at the start reports {handle_reads(h, w['model'], i)}", "current column values")
                    break
        for di, x in enumerate(detached):
            bad = content_mismatch(detached_content(x["obj"], x["kind"]), x["frozen"])
            if bad:
                rep.viol(x["carrier"] if touched_detached != di else "Node.__setitem__", "detach-independent" if touched_detached != di else "write-through", d, f"after {step}: detached {x['kind']} #{di} changed: {bad}", "unchanged")
                x["frozen"] = detached_content(x["obj"], x["kind"])

    for no, s in enumerate(steps):
        w = worlds[s[1] % len(worlds)] if s[0] != "dwrite" else None
        wi = s[1] % len(worlds)
        d = dict(steps=steps, at=no)
        try:
            if s[0] == "read":
                i = s[2] % n if -n <= s[2] < n else None
                if i is None:
                    try:
                        w["tree"][s[2]]
                        rep.viol("Tree.__getitem__", "index-normalisation", d, "no error", "IndexError")
                    except IndexError:
                        pass
                else:
                    h = w["tree"][s[2]]
                    if not eq(h[s[3]], w["model"][s[3]][i]):
                        rep.viol("Node.__getitem__", "attributes-at-call-time", d, f"read {lst(h[s[3]])}", f"{lst(w['model'][s[3]][i])}")
                whole_state(no, s)
            elif s[0] == "write":
                i = s[2] % n
                k, v, via = s[3], s[4], s[5]
                if via == "old":
                    h = w["handles"][i]
                elif via == "new":
                    h = w["tree"][i - n]
                elif via == "parent":
                    i = pid[i] if pid[i] != -1 else i
                    h = w["tree"][s[2] % n].parent() if pid[s[2] % n] != -1 else w["tree"].node(i)
                else:
                    h = w["tree"][i].children()[0] if ch[i] else w["tree"][i]
                    i = ch[i][0] if ch[i] else i
                h[k] = v
                w["model"][k][i] = v
                whole_state(no, s, touched_world=wi)
            elif s[0] == "copy":
                c = w["tree"].copy()
                worlds.append(new_world(c, {k: a.copy() for k, a in w["model"].items()}))
                whole_state(no, s)
            elif s[0] == "detach":
                if views is None:
                    views = {}
                    for kind, carrier, window, factory in views_of(t0, pid):
                        views.setdefault(kind, []).append((carrier, window, factory))
                cands = views.get(s[2], [])
                if cands:
                    carrier, window, factory = cands[s[3] % len(cands)]
                    obj = factory(w["tree"]).detach()
                    frozen = expected_detached(w["model"], window, s[2])
                    got = detached_content(obj, s[2])
                    if content_mismatch(got, frozen):
                        rep.viol(carrier, "detach-equal-content", d, f"{content_mismatch(got, frozen)}", "content of the window now")
                        frozen = got
                    detached.append(dict(obj=obj, kind=s[2], frozen=frozen, carrier=carrier))
                whole_state(no, s)
            elif s[0] == "slice":
                check_slice_one(rep, w["tree"], w["model"], (s[2], s[3], s[4]))
                whole_state(no, s)
            elif s[0] == "dwrite":
                if detached:
                    di = s[1] % len(detached)
                    x = detached[di]
                    k, v = s[2], s[3]
                    if x["kind"] == "node":
                        x["obj"][k] = v
                    else:
                        x["obj"].attach.ndata[k][0] = v  # the private columns of the detached view
                    x["frozen"][k] = x["frozen"][k].copy()
                    x["frozen"][k][0] = v
                    whole_state(no, s, touched_detached=di)
        except Exception as e:
            rep.viol("Tree", "operation-raises", d, f"step {s}: {type(e).__name__}: {e}", "no exception")
            return


# --------------------------------------------------------------------------- driver
GROUPS = dict(index=check_index, slice=check_slice, attrs=check_attrs, write=check_write, paths=check_paths, branches=check_branches,
              segments=check_segments, detach=check_detach, copy=check_copy, adjacency=check_adjacency)


def _note_path_node_write(ctx):
    t = build((-1, 0, 1))
    p = t.get_paths()[0]
    before = float(t.x()[1])
    try:
        p[1].x = 999.0
        after = float(t.x()[1])
        ctx.notes.append("observation (out of scope per the C09 scope note, not a violation): a write through a Path.Node handle (path[1].x = 999) "
                         + (f"is lost: tree x[1] stays {before} and path[1].x reads {float(p[1].x)}" if after == before else f"reaches the tree: x[1] = {after}"))
    except Exception as e:
        ctx.notes.append(f"observation (out of scope): a write through a Path.Node handle raises {type(e).__name__}: {e}")


def run(ctx):
    rng = random.Random(ctx.seed)
    quick = ctx.tier == "quick"
    nmax = 5 if quick else 6
    n_inter = 1500 if quick else 20000
    counts = {}
    tables = [p for n in range(1, nmax + 1) for p in sorted_parent_tables(n)]
    others = [l for l in LAYOUTS if l != "separate"]
    for ti, pid in enumerate(tables):
        # storage layout of the columns: all of them for trees of <= 3 nodes (thorough tier: every tree), `separate` + two rotating others beyond
        layouts = LAYOUTS if (len(pid) <= 3 or not quick) else ("separate", others[ti % len(others)], others[(ti + 3) % len(others)])
        for layout in layouts:
            with using_layout(layout):
                for g, fn in GROUPS.items():
                    rep = Rep(ctx, counts, g, pid, dict(quick=quick) if g == "slice" else None)
                    try:
                        if g == "slice":
                            fn(rep, pid, quick)
                        else:
                            fn(rep, pid)
                    except Exception as e:  # an oracle-side or library-side failure outside a guarded call: report, never hide
                        rep.viol("Tree", "operation-raises", dict(where=f"check_{g}"), f"{type(e).__name__}: {e}", "no exception")
    for _ in range(n_inter):
        pid = rng.choice(tables)
        steps = random_steps(rng, rng.choice([2, 3, 4, 4]))
        with using_layout(rng.choice(LAYOUTS)):
            rep = Rep(ctx, counts, "interleave", pid, dict(steps=steps))
            rep.item(dict(steps=steps))
            check_interleave(rep, pid, steps)
    _note_path_node_write(ctx)
    totals = {k: v for k, v in counts.items() if len(k) == 2}
    if totals:
        ctx.notes.append("C09 failing evaluations per (carrier, clause), at most " + str(MAX_REPORTS) + " trees of each reported individually: "
                         + ", ".join(f"{c}/{cl}={k}" for (c, cl), k in sorted(totals.items())))
    ctx.rule(f"columns handed to the constructor in the storage layouts {', '.join(LAYOUTS)} (bounded/common.py: lay_out; every layout for trees of <= 3 nodes, `separate` + two rotating "
             "others for larger trees in the quick tier, a seeded one per interleaving; a write through a handle into a read-only column must raise ValueError and change nothing); "
             f"every sorted parent table with <= {nmax} nodes (8 columns: the SWC ones + `level`): all indices in [-n, n) and 5 outside, a grid of slices "
             "(start, stop in {None, -n-1..n+1}, several steps), every (node, key) write through Tree[i] / Tree[i-n] / Tree.node / parent() / children(), every root-to-tip path, "
             "explicit index windows in arbitrary order, every downward chain as a branch (attached, detached) + Branch.from_xyzr, the tree's own segments, detach() of every "
             f"node / path / branch / compartment, Tree.copy, the adjacency matrix -- exhaustive over that scope; plus {n_inter} seeded interleavings of 2..4 steps from "
             "{read, write via handle, copy, detach, slice, write into a detached copy} with a whole-state comparison after every step.  Non-trivial = tree with >= 2 nodes", exhaustive=False)


def replay(spec):
    class C:
        def __init__(self):
            self.v, self.notes = [], []

        def case(self, *a, **k):
            pass

        def violation(self, *a, **k):
            self.v.append(a)

    c = C()
    pid = tuple(spec["pid"])
    g = spec["group"]
    rep = Rep(c, {}, g, pid, spec.get("params"))
    with using_layout(spec.get("layout", "separate")):
        if g == "interleave":
            check_interleave(rep, pid, spec["params"]["steps"])
        elif g == "slice":
            check_slice(rep, pid, bool(spec.get("params", {}).get("quick", True)))
        else:
            GROUPS[g](rep, pid)
    for v in c.v:
        print("  still failing:", v[:2], v[3:5])
    return not c.v
