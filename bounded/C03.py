"""C03 bounded stand-in: every tree operation returns a well-formed tree, leaves its
input(s) untouched and shares no storage with them.

Scope: every sorted tree with <= 5 nodes (quick; <= 6 thorough) x every operation with every
argument of a finite admissible grid (exhaustive), plus seeded random pipelines of length 2..3
whose arguments are chosen admissible for the *current* intermediate tree.  After EVERY step:
is_wf(result), snapshot equality of the step's input and of all earlier trees of the pipeline,
np.shares_memory pairwise on all columns, then an in-place mutation of every column of the
result followed by a re-check of the input snapshots (the result is restored afterwards so the
pipeline can go on).

An operation descriptor is a JSON list [name, *args]; see OPS below.
"""
from __future__ import annotations

import io
import itertools
import json
import os
import random
import shutil

import numpy as np

from .common import (
    ITERABLE_FORMS,
    as_iterable,
    is_wf,
    make_tree,
    same_snapshot,
    scratch_dir,
    shares_storage,
    snapshot_tree,
    sorted_parent_tables,
    tree_from_spec,
    tree_spec,
)

MAX_REPORTS = 3  # per distinct (carrier, clause)

# --------------------------------------------------------------------------- second operands of cat_tree
CAT_TABLES = [(-1,), (-1, 0), (-1, 0, 0), (-1, 0, 1)]


def _second_tree(pid2):
    # a different geometry from the first operand so that translate=False does not coincide by accident
    from .common import coords_for

    xyz = coords_for(tuple(pid2)) + np.array([10.0, -4.0, 2.5])
    return make_tree(tuple(pid2), xyz)


# --------------------------------------------------------------------------- cut_tree callbacks
def _cut_callbacks(kind, k):
    """Callbacks never remove the root (that would leave the empty table, outside WF)."""
    if kind == "none":
        return {}
    if kind == "enter-depth":  # remove every node deeper than k-1 (k >= 1)
        def enter(n, parent_depth):
            d = 0 if parent_depth is None else parent_depth + 1
            return d, d >= k

        return dict(enter=enter)
    if kind == "enter-type":  # remove non-root nodes of type k (and what hangs below)
        def enter(n, parent):
            return 0, (parent is not None and int(n.type) == k)

        return dict(enter=enter)
    if kind == "leave-size":  # remove non-root sub trees with at most k nodes
        def leave(n, children):
            size = 1 + sum(children)
            return size, (int(n.pid) != -1 and size <= k)

        return dict(leave=leave)
    raise ValueError(kind)


# --------------------------------------------------------------------------- transform-class operations
ALWAYS_ADMISSIBLE_TRANSFORMS = [
    ["Identity"], ["Translate", 1.0, -2.0, 0.5], ["Scale", 2.0, 2.0, 2.0, "root"], ["RotateZ", 0.5, "root"], ["TranslateOrigin"],
    ["RadiusReseter", 0.5], ["TreeSmoother", 3], ["CutByFurcationOrder", 1], ["CutShortTipBranch", 2.0],
]

TRANSFORM_PIPELINES = [
    [],
    [["Identity"]],
    [["Identity"], ["Identity"]],
    [["Transforms", []]],
    [["Translate", 1.0, -2.0, 0.5]],
    [["Identity"], ["Translate", 1.0, -2.0, 0.5]],
    [["Translate", 1.0, -2.0, 0.5], ["Identity"]],
    [["Translate", 1.0, -2.0, 0.5], ["Scale", 2.0, 2.0, 2.0, "root"]],
    [["RadiusReseter", 0.5], ["TreeSmoother", 3], ["TranslateOrigin"]],
    [["CutByType", 1], ["TranslateOrigin"]],
    [["CutByFurcationOrder", 1], ["RotateZ", 0.5, "root"], ["CutShortTipBranch", 2.0]],
    [["Transforms", [["Translate", 1.0, -2.0, 0.5], ["RotateX", 0.3, "origin"]]], ["RadiusReseter", 2.0]],
    [["Transforms", [["Identity"]]], ["Identity"]],
]


def _build_transform(op):
    """Construct the library transform object named by the descriptor."""
    import swcgeom.transforms as T

    name, args = op[0], op[1:]
    if name == "Identity":
        return T.Identity()
    if name == "Transforms":
        return T.Transforms(*[_build_transform(c) for c in args[0]])
    if name == "CutByType":
        return T.CutByType(int(args[0]))
    if name == "CutByFurcationOrder":
        return T.CutByFurcationOrder(int(args[0]))
    if name == "CutShortTipBranch":
        return T.CutShortTipBranch(float(args[0]))
    if name == "Translate":
        return T.Translate(*args)
    if name == "Scale":
        return T.Scale(args[0], args[1], args[2], center=args[3])
    if name in ("RotateX", "RotateY", "RotateZ"):
        return getattr(T, name)(args[0], center=args[1])
    if name == "Rotate":
        return T.Rotate(np.array(args[0], dtype=np.float32), args[1], center=args[2])
    if name == "TranslateOrigin":
        return T.TranslateOrigin()
    if name == "Normalizer":
        return T.Normalizer()
    if name == "RadiusReseter":
        return T.RadiusReseter(args[0])
    if name == "TreeSmoother":
        return T.TreeSmoother(int(args[0]))
    if name == "IsometricResampler":
        return T.IsometricResampler(float(args[0]))
    raise ValueError(f"unknown transform {name}")


TRANSFORM_NAMES = {"Identity", "Transforms", "CutByType", "CutByFurcationOrder", "CutShortTipBranch", "Translate", "Scale", "RotateX", "RotateY",
                   "RotateZ", "Rotate", "TranslateOrigin", "Normalizer", "RadiusReseter", "TreeSmoother", "IsometricResampler"}

FUNCTION_CARRIER = {"copy": "DictSWC.copy", "sort_tree": "sort_tree", "get_subtree": "get_subtree", "to_subtree": "to_subtree", "cut_tree": "cut_tree",
                    "redirect_tree": "redirect_tree", "cat_tree": "cat_tree", "swc_round_trip": "Tree.from_swc"}

ALL_OPS = ["copy", "sort_tree", "get_subtree", "to_subtree", "cut_tree", "redirect_tree", "cat_tree", "swc_round_trip"] + sorted(TRANSFORM_NAMES)


def carrier_of(op, stage="call"):
    if op[0] in FUNCTION_CARRIER:
        return FUNCTION_CARRIER[op[0]]
    return f"{op[0]}.__init__" if stage == "init" else f"{op[0]}.__call__"


def identity_like(op):
    """Identity and Transforms made of nothing but identities may return the input itself."""
    if op[0] == "Identity":
        return True
    if op[0] == "Transforms":
        return all(identity_like(c) for c in op[1])
    return False


# --------------------------------------------------------------------------- admissible arguments
def _normalizer_admissible(t):
    for k in ("x", "y", "z", "r"):
        v = np.asarray(t.get_ndata(k), dtype=np.float64)
        if not np.all(np.isfinite(v)) or np.max(v) == 0:  # (v - min) / max
            return False
    return True


def enum_args(name, t):
    """Every admissible argument list of the finite grid for operation `name` on tree `t`."""
    n = t.number_of_nodes()
    if name in ("copy", "sort_tree", "TranslateOrigin", "Identity"):
        return [[]]
    if name == "get_subtree":
        return [[i] for i in range(n)]
    if name == "to_subtree":  # every subset of the non-root nodes (+ one list with a repeated id); `removals: Iterable[int]` is handed over
        # in every FORM in rotation (bounded/common.py: ITERABLE_FORMS -- containers, arrays, dict keys, range, one-shot iterators)
        out, j = [], n
        for k in range(n):
            for c in itertools.combinations(range(1, n), k):
                form = ITERABLE_FORMS[j % len(ITERABLE_FORMS)]
                j += 1
                out.append([list(c), form if as_iterable(list(c), form) is not None else "list"])
        if n > 1:
            out.append([[n - 1, n - 1], "list"])
            out.append([[n - 1, n - 1], "generator-expression"])
        return out
    if name == "cut_tree":
        types = sorted({int(v) for v in t.type()[1:]})
        return [["none", 0]] + [["enter-depth", k] for k in (1, 2, 3)] + [["enter-type", ty] for ty in types] + [["leave-size", k] for k in (1, 2)]
    if name == "redirect_tree":
        return [[i, s] for i in range(n) for s in (True, False)]
    if name == "cat_tree":
        return [[list(p2), i, j, tr] for p2 in CAT_TABLES for i in range(n) for j in range(len(p2)) for tr in (True, False)]
    if name == "swc_round_trip":
        return [["text"], ["file"]]
    if name == "CutByType":
        return [[ty] for ty in sorted({int(v) for v in t.type()})]
    if name == "CutByFurcationOrder":
        return [[1], [2], [3]]
    if name == "CutShortTipBranch":
        return [[0.5], [2.0], [5.0], [100.0]]
    if name == "Translate":
        return [[1.0, -2.0, 0.5], [0.0, 0.0, 0.0]]
    if name == "Scale":
        return [[2.0, 2.0, 2.0, "root"], [0.5, 1.5, 2.0, "origin"], [0.5, 0.5, 0.5, "soma"]]
    if name in ("RotateX", "RotateY", "RotateZ"):
        return [[0.5, "root"], [-1.25, "origin"], [3.0, "soma"]]
    if name == "Rotate":
        return [[[0.0, 0.0, 1.0], 0.5, "root"], [[1.0, 0.0, 0.0], 1.0, "origin"]]
    if name == "Normalizer":
        return [[]] if _normalizer_admissible(t) else []
    if name == "RadiusReseter":
        return [[0.5], [2.0]]
    if name == "TreeSmoother":
        return [[3], [5]]
    if name == "IsometricResampler":
        return [[0.7], [2.0], [10.0]]
    if name == "Transforms":
        out = []
        types = {int(v) for v in t.type()}
        for p in TRANSFORM_PIPELINES:
            if p and p[0][0] == "CutByType" and p[0][1] not in types:
                continue
            out.append([p])
        if _normalizer_admissible(t):
            out.append([[["Normalizer"], ["RadiusReseter", 0.5], ["TreeSmoother", 3]]])
        return out
    raise ValueError(name)


def sample_args(name, t, rng):
    n = t.number_of_nodes()
    if name == "to_subtree":
        ids = [i for i in range(1, n) if rng.random() < 0.3]
        form = rng.choice(ITERABLE_FORMS)
        return [ids, form if as_iterable(ids, form) is not None else "list"]
    if name == "Transforms":
        k = rng.randrange(0, 4)
        kids = []
        for j in range(k):
            if j == 0 and rng.random() < 0.5:
                nm = rng.choice(sorted(TRANSFORM_NAMES - {"Transforms", "Rotate", "IsometricResampler"}))
                a = enum_args(nm, t)
                if a:
                    kids.append([nm] + rng.choice(a))
                    continue
            kids.append(rng.choice(ALWAYS_ADMISSIBLE_TRANSFORMS))
        return [kids]
    cands = enum_args(name, t)
    return rng.choice(cands) if cands else None


# --------------------------------------------------------------------------- applying one operation
class Raised(Exception):
    def __init__(self, stage, exc):
        super().__init__(str(exc))
        self.stage, self.exc = stage, exc


def apply_op(op, t, scratch=None, second=None):
    """Run the library operation; returns the result.  Raises `Raised`."""
    import swcgeom.core.tree_utils as U
    from swcgeom.core import Tree

    name, args = op[0], op[1:]
    if name in TRANSFORM_NAMES:
        try:
            tr = _build_transform(op)
        except Exception as e:  # constructing with admissible arguments must not fail
            raise Raised("init", e)
        try:
            return tr(t)
        except Exception as e:
            raise Raised("call", e)
    try:
        if name == "copy":
            return t.copy()
        if name == "sort_tree":
            return U.sort_tree(t)
        if name == "get_subtree":
            return U.get_subtree(t, int(args[0]))
        if name == "to_subtree":
            return U.to_subtree(t, as_iterable([int(i) for i in args[0]], args[1] if len(args) > 1 else "list"))
        if name == "cut_tree":
            return U.cut_tree(t, **_cut_callbacks(args[0], args[1]))
        if name == "redirect_tree":
            return U.redirect_tree(t, int(args[0]), sort=bool(args[1]))
        if name == "cat_tree":
            t2 = second if second is not None else _second_tree(args[0])
            return U.cat_tree(t, t2, int(args[1]), int(args[2]), translate=bool(args[3]))
        if name == "swc_round_trip":
            if args[0] == "text":
                return Tree.from_swc(io.StringIO(t.to_swc()))
            d = scratch if scratch is not None else scratch_dir("c03rt")
            try:
                p = os.path.join(d, "rt.swc")
                t.to_swc(p)
                return Tree.from_swc(p)
            finally:
                if scratch is None:
                    shutil.rmtree(d, ignore_errors=True)
    except Exception as e:
        raise Raised("call", e)
    raise ValueError(f"unknown operation {name}")


# --------------------------------------------------------------------------- oracles
def wf_rooted_at(t, root):
    """WF modulo 'the unique root sits at position `root`' (redirect_tree(sort=False))."""
    n = t.number_of_nodes()
    ids, pid = t.id(), t.pid()
    if n < 1 or any(len(t.get_ndata(k)) != n for k in t.keys()):
        return False, "column lengths"
    if not np.array_equal(ids, np.arange(n)):
        return False, "ids are not positions"
    if not (0 <= root < n) or pid[root] != -1 or np.count_nonzero(pid == -1) != 1:
        return False, f"node {root} is not the only root"
    for i in range(n):
        if i != root and not (0 <= pid[i] < n):
            return False, "parent id out of range"
    for i in range(n):
        j, steps = i, 0
        while j != root:
            j = int(pid[j])
            steps += 1
            if steps > n:
                return False, "node does not reach the root"
    return True, ""


def mutate_everything(t):
    """In-place edit of every column of `t` (every element changes)."""
    for k in list(t.ndata.keys()):
        a = t.ndata[k]
        if np.issubdtype(a.dtype, np.floating):
            a[:] += 1
        else:
            a[:] = a + 11
    if len(t.ndata["pid"]):
        t.ndata["pid"][-1] = 0


class Reporter:
    """Binds the pipeline description to violations and throttles repeats."""

    def __init__(self, ctx, counts, start_spec, ops):
        self.ctx, self.counts = ctx, counts
        self.spec, self.ops = start_spec, ops  # `ops` may still grow: copied at report time
        self.n = 0

    def viol(self, carrier, clause, observed, expected):
        self.n += 1
        key = (carrier, clause)
        self.counts[key] = self.counts.get(key, 0) + 1
        told = self.counts.setdefault(("reported",) + key, [])  # start trees already reported for this clause
        if len(told) < MAX_REPORTS and self.spec["pid"] not in told:
            told.append(self.spec["pid"])
            ops = json.loads(json.dumps(self.ops))
            self.ctx.violation(carrier, clause, dict(pid=self.spec["pid"], ops=ops), observed, expected, dict(tree=self.spec, ops=ops))


def check_step(rep, step, op, t, earlier, scratch=None):
    """Apply `op` to `t` and check every clause.  `earlier` = [(tree, snapshot)] of the trees met
    before `t` in this pipeline (distinct objects).  Returns the result, or None to stop."""
    from swcgeom.core import Tree

    where = f"step {step} {op}"
    snap = snapshot_tree(t)
    watched = [(x, s, f"earlier tree #{i}") for i, (x, s) in enumerate(earlier) if x is not t] + [(t, snap, "the input")]
    second = None
    if op[0] == "cat_tree":
        second = _second_tree(op[1])
        watched.append((second, snapshot_tree(second), "the second operand"))

    def inputs_untouched(clause, carrier):
        ok = True
        for x, s, what in watched:
            if not same_snapshot(x, s):
                diff = [k for k in s if k not in x.ndata or not np.array_equal(x.ndata[k], s[k]) or x.ndata[k].dtype != s[k].dtype]
                rep.viol(carrier, clause, f"{where}: {what} changed in columns {diff}: now {{{', '.join(f'{k}: {x.ndata[k].tolist()}' for k in diff if k in x.ndata)}}}",
                         f"unchanged: {{{', '.join(f'{k}: {s[k].tolist()}' for k in diff)}}}")
                ok = False
        return ok

    try:
        res = apply_op(op, t, scratch, second)
    except Raised as r:
        carrier = carrier_of(op, r.stage)
        rep.viol(carrier, "operation-raises", f"{where}: {type(r.exc).__name__}: {r.exc}", "a well-formed tree (admissible arguments)")
        inputs_untouched("input-untouched", carrier)
        return None
    carrier = carrier_of(op)

    if not isinstance(res, Tree) or not isinstance(getattr(res, "ndata", None), dict):
        rep.viol(carrier, "well-formed-result", f"{where}: returned {type(res).__name__}", "a Tree")
        inputs_untouched("input-untouched", carrier)
        return None

    # 1. well-formedness
    unsorted_root = None
    try:
        if op[0] == "redirect_tree" and not op[2]:
            unsorted_root = int(op[1])
            ok, why = wf_rooted_at(res, unsorted_root)
        else:
            ok, why = is_wf(res, sorted_required=True)
    except Exception as e:
        ok, why = False, f"checker could not read the result: {type(e).__name__}: {e}"
    if not ok:
        rep.viol(carrier, "well-formed-result", f"{where}: {why}; id={np.asarray(res.ndata.get('id')).tolist()} pid={np.asarray(res.ndata.get('pid')).tolist()}",
                 "ids = positions, single root" + (f" at {unsorted_root}" if unsorted_root is not None else " at 0, parents precede children") + ", all reach it")

    # 1b. values of the two non-affine geometry transforms (the clauses of contracts/C03.py, on the real arrays)
    if op[0] in ("RadiusReseter", "Normalizer") and ok:
        try:
            for k in res.ndata:
                a, b = np.asarray(res.ndata[k]), snap[k]
                if op[0] == "RadiusReseter" and k == "r":
                    want, clause = np.full_like(b, op[1]), "every-radius-is-the-requested-one"
                elif op[0] == "Normalizer" and k in ("x", "y", "z", "r"):
                    want, clause = (b - np.min(b)) / np.max(b), "x-y-z-r-shifted-by-their-minimum-and-divided-by-their-maximum"
                else:
                    want, clause = b, "everything-else-kept"
                if a.shape != want.shape or not np.allclose(a, want, rtol=1e-5, atol=1e-6, equal_nan=True):
                    rep.viol(carrier, clause, f"{where}: column {k} = {a.tolist()}", f"{np.asarray(want).tolist()}")
        except Exception as e:
            rep.viol(carrier, "values-readable", f"{where}: {type(e).__name__}: {e}", "comparable columns")

    # 2. frame
    inputs_untouched("input-untouched", carrier)

    # 3. ownership
    same_obj = any(res is x for x, _, _ in watched)
    if same_obj:
        if not (res is t and identity_like(op)):
            rep.viol(carrier, "no-shared-storage", f"{where}: the result IS one of its inputs (same object)", "a fresh tree")
    else:
        for x, _, what in watched:
            if res.ndata is x.ndata:
                rep.viol(carrier, "no-shared-storage", f"{where}: result.ndata is the ndata dict of {what}", "a fresh dict")
            elif shares_storage(res, x):
                cols = [(a, b) for a, va in res.ndata.items() for b, vb in x.ndata.items() if np.shares_memory(va, vb)]
                rep.viol(carrier, "no-shared-storage", f"{where}: result columns share memory with {what}: {cols}", "no shared storage")

    # 4. edits of the result do not leak into the inputs
    if not same_obj:
        rsnap = snapshot_tree(res)
        watched[:] = [(x, snapshot_tree(x), what) for x, _, what in watched]  # re-baseline: report only what the edit below leaks
        try:
            mutate_everything(res)
        except Exception as e:
            rep.ctx.notes.append(f"C03: could not mutate the result of {op} in place ({type(e).__name__}: {e})")
        inputs_untouched("input-untouched-after-mutating-result", carrier)
        for k, v in rsnap.items():  # put the result back (in place, so the pipeline goes on with the very same arrays)
            a = res.ndata.get(k)
            if a is not None and a.shape == v.shape and a.dtype == v.dtype and a.flags.writeable:
                a[:] = v
            else:
                res.ndata[k] = v.copy()
        if not same_snapshot(res, rsnap):  # columns of the result overlap each other: give it private ones
            res.ndata = {k: v.copy() for k, v in rsnap.items()}

    if not ok:
        return None
    if unsorted_root not in (None, 0):
        return None  # root not at position 0: not a WF input for a further step
    return res


def run_pipeline(ctx, counts, start, ops, scratch=None):
    """Run a fully specified pipeline.  Returns the number of violations it produced."""
    spec = tree_spec(start)
    rep = Reporter(ctx, counts, spec, ops)
    t, earlier = start, []
    for i, op in enumerate(ops):
        res = check_step(rep, i, op, t, earlier, scratch)
        if res is None:
            break
        earlier = [(x, snapshot_tree(x)) for x, _ in earlier]  # re-baseline: a leak is charged to the step that caused it
        if res is not t:
            earlier.append((t, snapshot_tree(t)))
        t = res
    return rep.n


def sample_pipeline(ctx, counts, start, length, rng, scratch):
    """Choose each operation with arguments admissible for the current tree."""
    spec = tree_spec(start)
    ops = []
    rep = Reporter(ctx, counts, spec, ops)
    t, earlier = start, []
    for i in range(length):
        for _ in range(20):
            name = rng.choice(ALL_OPS)
            args = sample_args(name, t, rng)
            if args is not None:
                break
        else:
            break
        op = [name] + list(args)
        ops.append(op)
        res = check_step(rep, i, op, t, earlier, scratch)
        if res is None:
            break
        earlier = [(x, snapshot_tree(x)) for x, _ in earlier]  # re-baseline: a leak is charged to the step that caused it
        if res is not t:
            earlier.append((t, snapshot_tree(t)))
        t = res
    return ops, rep.n


def _note_root_moves(ctx, t, op, noted):
    """Observation only (geometry is not a C03 clause): a root-centred map should fix the root."""
    if op[0] in noted or op[0] not in ("Scale", "RotateX", "RotateY", "RotateZ") or op[-1] not in ("root", "soma"):
        return
    try:
        res = apply_op(op, t)
    except Raised:
        return
    a, b = t.xyz()[0], res.xyz()[0]
    if not np.allclose(a, b, atol=1e-4):
        noted.add(op[0])
        ctx.notes.append(f"observation (not a C03 clause): {op} moves the root it is centred on: {a.tolist()} -> {b.tolist()} (pid {t.pid().tolist()})")


def run(ctx):
    rng = random.Random(ctx.seed)
    quick = ctx.tier == "quick"
    nmax = 5 if quick else 6
    n_pipelines = 1500 if quick else 30000
    counts = {}
    scratch = scratch_dir("c03")
    try:
        tables = [p for n in range(1, nmax + 1) for p in sorted_parent_tables(n)]
        noted = set()
        # ---- exhaustive: every tree x every operation x every argument of the grid
        for pid in tables:
            for name in ALL_OPS:
                probe = make_tree(pid)
                for args in enum_args(name, probe):
                    op = [name] + list(args)
                    run_pipeline(ctx, counts, make_tree(pid), [op], scratch)
                    ctx.case("single-op", dict(pid=list(pid), op=op), nontrivial=len(pid) >= 2)
                    if len(pid) == 3:
                        _note_root_moves(ctx, make_tree(pid), op, noted)
        # ---- sampled pipelines of length 2..3
        for _ in range(n_pipelines):
            pid = rng.choice(tables)
            length = rng.choice([2, 3, 3])
            ops, _nv = sample_pipeline(ctx, counts, make_tree(pid), length, rng, scratch)
            ctx.case("pipeline", dict(pid=list(pid), ops=ops), nontrivial=len(pid) >= 2 and len(ops) >= 2)
        totals = {k: v for k, v in counts.items() if len(k) == 2}
        if totals:
            ctx.notes.append("C03 failing evaluations per (carrier, clause), at most " + str(MAX_REPORTS) + " start trees of each reported individually: "
                             + ", ".join(f"{c}/{cl}={k}" for (c, cl), k in sorted(totals.items())))
        ctx.rule(f"every sorted parent table with <= {nmax} nodes (root type 1, deterministic walk coordinates) x {len(ALL_OPS)} operations x every argument of a finite "
                 "admissible grid (all node ids, all subsets of non-root removals, sort/translate flags, all second operands <= 3 nodes, occurring types, "
                 f"3-4 thresholds/angles/orders, 14 Transforms compositions) -- exhaustive over that grid; plus {n_pipelines} seeded pipelines of length 2..3 with arguments "
                 "admissible for the current intermediate tree.  Checked after every step: WF (sorted; root at its old place for redirect_tree(sort=False)), "
                 "snapshots of the input and all earlier trees, np.shares_memory on all column pairs, in-place mutation of every result column then snapshots again.  "
                 "Non-trivial = start tree with >= 2 nodes (pipelines: and >= 2 executed steps)", exhaustive=False)
    finally:
        shutil.rmtree(scratch, ignore_errors=True)


def replay(spec):
    class C:
        def __init__(self):
            self.v, self.notes = [], []

        def case(self, *a, **k):
            pass

        def violation(self, *a, **k):
            self.v.append(a)

    c = C()
    start = tree_from_spec(spec["tree"])
    run_pipeline(c, {}, start, [list(o) for o in spec["ops"]], None)
    for v in c.v:
        print("  still failing:", v[:2], v[3:5])
    return not c.v
