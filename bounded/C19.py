"""C19 bounded stand-in: population containers on real directory layouts."""
from __future__ import annotations

import itertools
import os
import random
import shutil

from .common import scratch_dir, swc_text, sorted_parent_tables


def _write(root, rel, nodes):
    p = os.path.join(root, rel)
    os.makedirs(os.path.dirname(p), exist_ok=True)
    pid = (-1,) + tuple(range(nodes - 1))
    with open(p, "w") as f:
        f.write(swc_text(pid))
    return p


class ReadCounter:
    """Counts Tree.from_swc calls per file (installed on the class attribute, so the
    lookup `Tree.from_swc` inside the library sees it)."""

    def __init__(self):
        from swcgeom.core.tree import Tree

        self.Tree = Tree
        self.orig = Tree.__dict__["from_swc"]
        self.reads = {}
        counter = self
        orig_f = self.orig.__func__

        def counted(cls, swc_file, **kw):
            counter.reads[str(swc_file)] = counter.reads.get(str(swc_file), 0) + 1
            return orig_f(cls, swc_file, **kw)

        self.patched = classmethod(counted)

    def __enter__(self):
        setattr(self.Tree, "from_swc", self.patched)
        return self

    def __exit__(self, *a):
        setattr(self.Tree, "from_swc", self.orig)
        return False


LAYOUTS = {
    "flat3": {"a.swc": 2, "b.swc": 3, "c.swc": 4},
    "nested": {"a.swc": 2, "sub/b.swc": 3, "sub/deep/c.swc": 4, "sub/deep/d.swc": 5},
    "single": {"only.swc": 3},
    "empty": {},
    "with-other-files": {"a.swc": 2, "notes.txt": 0, "b.swc": 3, "empty_dir/.keep": 0},
}


def _build(root, layout):
    shutil.rmtree(root, ignore_errors=True)
    os.makedirs(root, exist_ok=True)
    for rel, n in layout.items():
        if rel.endswith(".swc"):
            _write(root, rel, n)
        else:
            p = os.path.join(root, rel)
            os.makedirs(os.path.dirname(p), exist_ok=True)
            open(p, "w").write("x")


def check_ops(ctx, name, layout, ops, base):
    from swcgeom.core.population import Population

    root = os.path.join(base, name)
    _build(root, layout)
    nfiles = sum(1 for k in layout if k.endswith(".swc"))
    spec = dict(kind="ops", layout=name, ops=list(ops))
    with ReadCounter() as rc:
        import warnings

        with warnings.catch_warnings():
            warnings.simplefilter("ignore")
            try:
                pop = Population.from_swc(root)
            except Exception as e:  # building a population over any layout of the quantifier must not fail
                ctx.violation("Population.from_swc", "operation-raises", spec, f"{type(e).__name__}: {e}", "no exception", spec)
                return
        files = list(pop.trees.swcs)
        listed = sorted(os.path.relpath(f, root) for f in files)
        if listed != sorted(k for k in layout if k.endswith(".swc")):
            ctx.violation("Population.find_swcs", "exactly-the-names-with-the-extension-are-listed", spec, listed, sorted(k for k in layout if k.endswith(".swc")), spec)
            return
        if len(pop) != nfiles:
            ctx.violation("Population.__len__", "number-of-files", spec, len(pop), nfiles, spec)
        probe = dict(rc.reads)
        if any(f != files[0] for f in probe) or sum(probe.values()) > 1:
            ctx.violation("Population.__init__", "at-most-a-probe-of-the-first-file", spec, probe, "<= 1 read of file 0", spec)
        requested = set(probe)
        for op in ops:
            try:
                if op[0] == "idx":
                    i = op[1]
                    if not (-nfiles <= i < nfiles):
                        try:
                            pop[i]
                            ctx.violation("Population.__getitem__", "out-of-range-only", spec, "no error", "IndexError", spec)
                        except IndexError:
                            pass
                        continue
                    t = pop[i]
                    want = files[i % nfiles]
                    requested.add(want)
                    if os.path.abspath(t.source) != os.path.abspath(want) or t.number_of_nodes() != layout[os.path.relpath(want, root)]:
                        ctx.violation("Population.__getitem__", "tree-of-the-ith-file", spec, t.source, want, spec)
                elif op[0] == "slice":
                    sl = slice(*op[1])
                    sub = pop[sl]
                    idxs = list(range(nfiles))[sl]
                    if len(sub) != len(idxs):
                        ctx.violation("Population.__getitem__", "slice-length", spec, len(sub), len(idxs), spec)
                    for k, j in enumerate(idxs):
                        t = sub[k]
                        requested.add(files[j])
                        if os.path.abspath(t.source) != os.path.abspath(files[j]):
                            ctx.violation("Population.__getitem__", "slice-elements", spec, t.source, files[j], spec)
                elif op[0] == "iter":
                    got = [t.source for t in pop]
                    requested.update(files)
                    if [os.path.abspath(g) for g in got] != [os.path.abspath(f) for f in files]:
                        ctx.violation("Population.__iter__", "in-order", spec, got, files, spec)
                elif op[0] == "iter_trees":
                    # the container's own iterator (the route Population.map and a chain member's consumer take)
                    got = [t.source for t in pop.trees]
                    requested.update(files)
                    if [os.path.abspath(g) for g in got] != [os.path.abspath(f) for f in files]:
                        ctx.violation("LazyLoadingTrees.__iter__", "in-order", spec, got, files, spec)
                elif op[0] == "iter_trees_part":
                    # a consumer that stops early: only the items actually taken may have been read
                    it = iter(pop.trees)
                    got = [next(it).source for _ in range(min(op[1], nfiles))]
                    requested.update(files[: len(got)])
                    if [os.path.abspath(g) for g in got] != [os.path.abspath(f) for f in files[: len(got)]]:
                        ctx.violation("LazyLoadingTrees.__iter__", "in-order", spec, got, files[: len(got)], spec)
                elif op[0] == "map":
                    want = [layout[os.path.relpath(f, root)] for f in files]
                    try:
                        got = list(pop.map(_count_nodes, max_worker=1))
                    except (OSError, PermissionError, NotImplementedError, ImportError) as e:
                        ctx.notes.append(f"Population.map could not run in this sandbox: {type(e).__name__}: {e}")
                        continue
                    requested.update(files)
                    if got != want:
                        ctx.violation("Population.map", "one-result-per-tree-in-order", spec, got, want, spec)
                elif op[0] == "transform":
                    # PopulationTransform: one result per tree, in order; a result without a source inherits its input's
                    from swcgeom.transforms import Translate
                    from swcgeom.transforms.population import PopulationTransform

                    out = PopulationTransform(Translate(1.0, 0.0, 0.0))(pop)
                    requested.update(files)
                    got = [(os.path.abspath(out[k].source), out[k].number_of_nodes()) for k in range(len(out))]
                    want = [(os.path.abspath(f), layout[os.path.relpath(f, root)]) for f in files]
                    if got != want or out.root != pop.root:
                        ctx.violation("PopulationTransform.__call__", "one-result-per-tree-in-order", spec, got, want, spec)
                elif op[0] == "len":
                    len(pop)
            except Exception as e:  # an operation of the property's quantifier must not fail
                ctx.violation("Population", "operation-raises", spec, f"{type(e).__name__}: {e}", "no exception", spec)
            bad = {f: c for f, c in rc.reads.items() if c > 1}
            if bad:
                ctx.violation("LazyLoadingTrees.load", "never-reads-twice", spec, bad, "each file read at most once", spec)
            extra = set(rc.reads) - requested
            if extra:
                ctx.violation("LazyLoadingTrees.__getitem__", "loads-only-the-requested-file", spec, sorted(extra), "only requested files", spec)
    ctx.case("ops", dict(layout=name, ops=[list(map(str, o)) for o in ops]), nontrivial=nfiles > 0 and len(ops) > 0)


def check_chain(ctx, sizes, base):
    from swcgeom.core.population import ChainTrees, Population, Populations, LazyLoadingTrees

    spec = dict(kind="chain", sizes=list(sizes))
    roots, allfiles = [], []
    for k, n in enumerate(sizes):
        root = os.path.join(base, f"chain{k}")
        _build(root, {f"f{j}.swc": 2 + j + k for j in range(n)})
        roots.append(root)
    import warnings

    with warnings.catch_warnings():
        warnings.simplefilter("ignore")
        pops = [Population.from_swc(r) for r in roots]
        for p in pops:
            allfiles.extend(p.trees.swcs)
        try:
            chained = Populations(pops).to_population()
            n = len(chained)
            if n != sum(sizes):
                # who is wrong: the chain container (then a chain built directly from the members' containers is wrong as well) or to_population
                direct_ok = len(ChainTrees([p.trees for p in pops])) == sum(sizes)
                if direct_ok:
                    ctx.violation("Populations.to_population", "total-length-is-the-sum-of-all-member-lengths", spec, n, sum(sizes), spec)
                else:
                    ctx.violation("ChainTrees.__init__", "cumsum-length", spec, n, sum(sizes), spec)
            else:
                for i in range(-n, n):
                    if os.path.abspath(chained[i].source) != os.path.abspath(allfiles[i % n]):
                        ctx.violation("ChainTrees.__getitem__", "element-of-the-right-member", spec, chained[i].source, allfiles[i % n], spec)
                        break
                for bad in (n, -n - 1):
                    try:
                        chained[bad]
                        ctx.violation("ChainTrees.__getitem__", "out-of-range-only", spec, "no error", "IndexError", spec)
                    except IndexError:
                        pass
            # direct use with a list and with a one-shot iterator
            for mk in ("list", "iterator"):
                members = [p.trees for p in pops]
                ct = ChainTrees(members if mk == "list" else iter(members))
                if len(ct) != sum(sizes):
                    ctx.violation("ChainTrees.__init__", "cumsum-length", dict(spec, arg=mk), len(ct), sum(sizes), dict(spec, arg=mk))
        except Exception as e:
            ctx.violation("Populations.to_population", "operation-raises", spec, f"{type(e).__name__}: {e}", "no exception", spec)
    ctx.case("chain", dict(sizes=list(sizes)), nontrivial=sum(sizes) > 0)


SLICE_BOUNDS = (None, 0, 1, 2, -1, -2, 5, -5)
SLICE_STEPS = (None, 1, 2, -1, -2, 3)


def all_slices():
    return [slice(a, b, c) for a in SLICE_BOUNDS for b in SLICE_BOUNDS for c in SLICE_STEPS]


def _src(t):
    return os.path.abspath(t.source)


def _check_container(ctx, carrier, spec, cont, want, slices=None, far=3):
    """`cont` (anything with __len__ / __getitem__) must behave like the list `want` of file paths: length, every index from
    -len-far to len+far (IndexError exactly outside -len..len-1), and -- for a Population -- every slice form of `slices`"""
    n = len(want)
    if len(cont) != n:
        ctx.violation(carrier, "length", spec, len(cont), n, spec)
        return False
    ok = True
    for i in range(-n - far, n + far):
        try:
            got = _src(cont[i])
        except IndexError:
            got = IndexError
        exp = os.path.abspath(want[i]) if -n <= i < n else IndexError
        if got != exp:
            ctx.violation(carrier, "index-i-is-the-i-th-tree-negative-from-the-end-IndexError-outside", dict(spec, index=i), str(got), str(exp), spec)
            ok = False
            break
    for sl in slices or ():
        sub = cont[sl]
        exp = [os.path.abspath(w) for w in want[sl]]
        got = [_src(sub[k]) for k in range(len(sub))]
        if got != exp:
            ctx.violation(carrier, "slice-is-python's-slice-of-the-trees-in-order", dict(spec, slice=str(sl)), got, exp, spec)
            ok = False
            break
        # a slice is a container of its own: negative / out-of-range positions, and a slice of a slice
        m = len(exp)
        for i in (-m, -1, m - 1):
            if m and _src(sub[i]) != exp[i]:
                ctx.violation(carrier, "slice-view-index", dict(spec, slice=str(sl), index=i), _src(sub[i]), exp[i], spec)
                ok = False
        for i in (m, -m - 1):
            try:
                sub[i]
                ctx.violation(carrier, "slice-view-index-out-of-range", dict(spec, slice=str(sl), index=i), "no error", "IndexError", spec)
                ok = False
            except IndexError:
                pass
    return ok


def check_members(ctx, sizes, base, slices, via="list"):
    """Populations over members of the given sizes (unequal, empty, one, many): len(ps) is the minimum, row i holds tree i of every
    member, ps[slice] slices every member, to_population() is the concatenation of ALL members (length = sum), and the chained
    population answers every index / slice like the concatenated list; each file is read at most once over the whole history"""
    from swcgeom.core.population import ChainTrees, Population, Populations

    import warnings

    spec = dict(kind="members", sizes=list(sizes), via=via)
    roots = []
    for k, n in enumerate(sizes):
        root = os.path.join(base, f"mem{k}")
        _build(root, {(f"f{j}.swc" if j % 2 == 0 else f"sub{j}/f{j}.swc"): 2 + (j + k) % 3 for j in range(n)})
        roots.append(root)
    with ReadCounter() as rc, warnings.catch_warnings():
        warnings.simplefilter("ignore")
        try:
            if via == "list":
                ps = Populations([Population.from_swc(r) for r in roots])
            else:
                ps = Populations.from_swc(roots, intersect=False)
            files = [list(p.trees.swcs) for p in ps.populations]
            if [len(f) for f in files] != list(sizes) or ps.num_of_populations() != len(sizes):
                ctx.violation("Populations.from_swc", "without-intersection-each-population-lists-what-was-found-under-its-root", spec, [len(f) for f in files], list(sizes), spec)
                return
            if len(ps) != min(sizes):
                ctx.violation("Populations.__len__", "the-recorded-minimum-length", spec, len(ps), min(sizes), spec)
            for i in range(min(sizes)):
                row = [_src(t) for t in ps[i]]
                if row != [os.path.abspath(f[i]) for f in files]:
                    ctx.violation("Populations.__getitem__", "row-of-the-key-th-tree-of-every-population-in-order", dict(spec, index=i), row, [f[i] for f in files], spec)
                    break
            rows = [[_src(t) for t in r] for r in ps]
            if rows != [[os.path.abspath(f[i]) for f in files] for i in range(min(sizes))]:
                ctx.violation("Populations.__iter__", "len-rows-in-order", spec, rows, "rows 0..min-1", spec)
            for sl in slices[:: max(1, len(slices) // 12)]:
                parts = ps[sl]
                got = [[_src(v[k]) for k in range(len(v))] for v in parts]
                exp = [[os.path.abspath(x) for x in f[sl]] for f in files]
                if got != exp:
                    ctx.violation("Populations.__getitem__", "a-slice-slices-every-population", dict(spec, slice=str(sl)), got, exp, spec)
                    break
            allfiles = [x for f in files for x in f]
            chained = ps.to_population()
            direct = Population(ChainTrees(p.trees for p in ps.populations)) if sum(sizes) else None
            if len(chained) != sum(sizes):
                # who is wrong: the chain container (then the directly built chain is wrong as well) or the way to_population feeds it
                carrier = "ChainTrees.__init__" if direct is not None and len(direct) != sum(sizes) else "Populations.to_population"
                ctx.violation(carrier, "total-length-is-the-sum-of-all-member-lengths", spec, len(chained), sum(sizes), spec)
            elif not _check_container(ctx, "Populations.to_population", spec, chained, allfiles, slices):
                pass
            else:
                got = [_src(t) for t in chained]
                if got != [os.path.abspath(x) for x in allfiles]:
                    ctx.violation("Populations.to_population", "iteration-yields-the-members'-trees-concatenated-in-order", spec, got, allfiles, spec)
                _check_container(ctx, "ChainTrees.__getitem__", spec, chained.trees, allfiles)
            for k, p in enumerate(ps.populations):  # the members themselves, after all of the above
                _check_container(ctx, "LazyLoadingTrees.__getitem__", dict(spec, member=k), p.trees, files[k])
        except Exception as e:
            ctx.violation("Populations.to_population", "operation-raises", spec, f"{type(e).__name__}: {e}", "no exception", spec)
        bad = {f: c for f, c in rc.reads.items() if c > 1}
        if bad:
            ctx.violation("LazyLoadingTrees.load", "never-reads-twice", spec, bad, "each file read at most once", spec)
    ctx.case("members", dict(sizes=list(sizes), via=via), nontrivial=sum(sizes) > 0)


def check_dirs(ctx, name, layouts, base):
    """Populations.from_swc over directories with DIFFERENT file sets / file counts: intersect=True keeps exactly the common relative
    paths (rows of same-named files, every population equally long), intersect=False keeps every directory's own files"""
    from swcgeom.core.population import Populations

    import warnings

    roots = []
    for k, lay in enumerate(layouts):
        r = os.path.join(base, f"dir_{name}_{k}")
        _build(r, lay)
        roots.append(r)
    swcs = [sorted(x for x in lay if x.endswith(".swc")) for lay in layouts]
    common = sorted(set(swcs[0]).intersection(*map(set, swcs[1:]))) if swcs else []
    for intersect in (True, False):
        spec = dict(kind="dirs", layout=name, intersect=intersect)
        with ReadCounter() as rc, warnings.catch_warnings():
            warnings.simplefilter("ignore")
            try:
                ps = Populations.from_swc(roots, intersect=intersect)
                rels = [[os.path.relpath(f, r) for f in p.trees.swcs] for p, r in zip(ps.populations, roots)]
                if intersect:
                    if any(sorted(x) != common for x in rels) or any(x != rels[0] for x in rels):
                        ctx.violation("Populations.from_swc", "row-i-holds-same-named-files:the-same-relative-path-joined-with-each-root-same-order-everywhere", spec, rels, common, spec)
                elif [sorted(x) for x in rels] != swcs:
                    ctx.violation("Populations.from_swc", "without-intersection-each-population-lists-what-was-found-under-its-root", spec, rels, swcs, spec)
                want_len = len(common) if intersect else min(len(x) for x in swcs)
                if len(ps) != want_len:
                    ctx.violation("Populations.from_swc", "len-is-the-minimum-population-length", spec, len(ps), want_len, spec)
                for i in range(-len(ps), len(ps)) if intersect else range(len(ps)):
                    row = ps[i]
                    names = [os.path.relpath(t.source, r) for t, r in zip(row, roots)]
                    if names != [x[i] for x in rels] or (intersect and len(set(names)) != 1):
                        ctx.violation("Populations.__getitem__", "rows-of-same-named-files", dict(spec, index=i), names, [x[i] for x in rels], spec)
                        break
                chained = ps.to_population()
                allfiles = [f for p in ps.populations for f in p.trees.swcs]
                if len(chained) != len(allfiles):
                    ctx.violation("Populations.to_population", "total-length-is-the-sum-of-all-member-lengths", spec, len(chained), len(allfiles), spec)
                else:
                    _check_container(ctx, "Populations.to_population", spec, chained, allfiles, [slice(None), slice(None, None, -1), slice(1, -1), slice(None, None, 2)])
            except Exception as e:
                ctx.violation("Populations.from_swc", "operation-raises", spec, f"{type(e).__name__}: {e}", "no exception", spec)
            bad = {f: c for f, c in rc.reads.items() if c > 1}
            if bad:
                ctx.violation("LazyLoadingTrees.load", "never-reads-twice", spec, bad, "each file read at most once", spec)
        ctx.case("dirs", dict(layout=name, intersect=intersect))


DIR_SETS = {
    "equal": [{"x.swc": 2, "sub/y.swc": 3}, {"x.swc": 4, "sub/y.swc": 5}],
    "one-extra-each": [{"x.swc": 2, "y.swc": 3, "sub/z.swc": 4, "only_a.swc": 2}, {"x.swc": 5, "y.swc": 6, "sub/z.swc": 7, "only_b.swc": 2}],
    "different-counts": [{"x.swc": 2, "y.swc": 3, "z.swc": 4, "sub/w.swc": 2, "sub/v.swc": 3}, {"x.swc": 5, "sub/w.swc": 3}, {"x.swc": 2, "y.swc": 2, "sub/w.swc": 4}],
    "one-empty": [{"x.swc": 2, "y.swc": 3}, {"notes.txt": 0}],
    "disjoint": [{"a.swc": 2, "b.swc": 3}, {"c.swc": 2}],
    "single-root": [{"a.swc": 2, "sub/b.swc": 3, "sub/c.swc": 4}],
}


def check_slices(ctx, name, layout, base, slices):
    """every slice form on a Population over a directory, on the lazy container reached through a slice of a slice, on a filtered view"""
    from swcgeom.core.population import Population, filter_population

    import warnings

    root = os.path.join(base, "sl_" + name)
    _build(root, layout)
    spec = dict(kind="slices", layout=name)
    with ReadCounter() as rc, warnings.catch_warnings():
        warnings.simplefilter("ignore")
        try:
            pop = Population.from_swc(root)
            files = list(pop.trees.swcs)
            _check_container(ctx, "Population.__getitem__", spec, pop, files, slices)
            _check_container(ctx, "LazyLoadingTrees.__getitem__", spec, pop.trees, files)
            for sl in slices[::7]:
                inner = Population(pop[sl], root=root) if len(files[sl]) else None
                if inner is not None:
                    _check_container(ctx, "NestTrees.__getitem__", dict(spec, outer=str(sl)), inner, files[sl], slices[::11])
            sub = filter_population(pop, lambda t: t.number_of_nodes() % 2 == 0)
            want = [f for f in files if layout[os.path.relpath(f, root)] % 2 == 0]
            if want:
                _check_container(ctx, "filter_population", spec, sub, want, slices[::5])
        except Exception as e:
            ctx.violation("Population.__getitem__", "operation-raises", spec, f"{type(e).__name__}: {e}", "no exception", spec)
        bad = {f: c for f, c in rc.reads.items() if c > 1}
        if bad:
            ctx.violation("LazyLoadingTrees.load", "never-reads-twice", spec, bad, "each file read at most once", spec)
    ctx.case("slices", dict(layout=name), nontrivial=len(layout) > 0)


def check_populations(ctx, base):
    from swcgeom.core.population import Populations

    import warnings

    ra, rb = os.path.join(base, "pa"), os.path.join(base, "pb")
    _build(ra, {"x.swc": 2, "y.swc": 3, "sub/z.swc": 4, "only_a.swc": 2})
    _build(rb, {"x.swc": 5, "y.swc": 6, "sub/z.swc": 7, "only_b.swc": 2})
    spec = dict(kind="populations")
    with warnings.catch_warnings():
        warnings.simplefilter("ignore")
        ps = Populations.from_swc([ra, rb])
        if len(ps) != 3:
            ctx.violation("Populations.from_swc", "same-named-files", spec, len(ps), 3, spec)
        for i in range(len(ps)):
            row = ps[i]
            rels = [os.path.relpath(t.source, r) for t, r in zip(row, (ra, rb))]
            if len(set(rels)) != 1:
                ctx.violation("Populations.__getitem__", "rows-of-same-named-files", spec, rels, "equal relative names", spec)
    ctx.case("populations", dict(a=4, b=4))


def _count_nodes(t):
    return t.number_of_nodes()


def check_map(ctx, base):
    from swcgeom.core.population import Population
    from swcgeom.transforms.population import PopulationTransform
    from swcgeom.transforms import Identity  # noqa: F401

    import warnings

    root = os.path.join(base, "mp")
    _build(root, {"a.swc": 2, "b.swc": 3, "c.swc": 4})
    spec = dict(kind="map")
    with warnings.catch_warnings():
        warnings.simplefilter("ignore")
        pop = Population.from_swc(root)
        want = [pop[i].number_of_nodes() for i in range(len(pop))]
        try:
            got = list(pop.map(_count_nodes, max_worker=2))
            if got != want:
                ctx.violation("Population.map", "one-result-per-tree-in-order", spec, got, want, spec)
        except Exception as e:
            ctx.notes.append(f"Population.map could not run in this sandbox: {type(e).__name__}: {e}")
        try:
            from swcgeom.transforms import Translate

            out = PopulationTransform(Translate(0.0, 2.0, 0.0))(pop)
            got = [out[i].number_of_nodes() for i in range(len(out))]
            if got != want:
                ctx.violation("PopulationTransform.__call__", "one-result-per-tree-in-order", spec, got, want, spec)
        except Exception as e:
            ctx.violation("PopulationTransform.__call__", "operation-raises", spec, f"{type(e).__name__}: {e}", "no exception", spec)
    ctx.case("map", dict(files=3))


def check_filter(ctx, base):
    """filter_population keeps exactly the trees satisfying the predicate, in order, and reads no file twice"""
    from swcgeom.core.population import Population, filter_population

    import warnings

    root = os.path.join(base, "flt")
    layout = {"a.swc": 2, "b.swc": 3, "sub/c.swc": 4, "sub/d.swc": 5, "e.swc": 2}
    _build(root, layout)
    for name, pred in (("even", lambda t: t.number_of_nodes() % 2 == 0), ("none", lambda t: False), ("all", lambda t: True), ("big", lambda t: t.number_of_nodes() > 3)):
        spec = dict(kind="filter", predicate=name)
        with ReadCounter() as rc, warnings.catch_warnings():
            warnings.simplefilter("ignore")
            pop = Population.from_swc(root)
            files = list(pop.trees.swcs)
            want = [f for f in files if pred(pop[files.index(f)])]
            try:
                sub = filter_population(pop, pred)
                got = [sub[k].source for k in range(len(sub))]
                if [os.path.abspath(g) for g in got] != [os.path.abspath(w) for w in want] or sub.root != pop.root:
                    ctx.violation("filter_population", "keeps-exactly-the-trees-satisfying-the-predicate-in-order", spec, got, want, spec)
            except Exception as e:
                ctx.violation("filter_population", "operation-raises", spec, f"{type(e).__name__}: {e}", "no exception", spec)
            bad = {f: c for f, c in rc.reads.items() if c > 1}
            if bad:
                ctx.violation("filter_population", "each-file-read-at-most-once", spec, bad, "each file read at most once", spec)
        ctx.case("filter", dict(predicate=name))


def check_same(ctx, base):
    """Populations.from_swc(..., intersect=False, check_same=True): directories that do not hold the same relative paths must be
    rejected (AssertionError); if the call is accepted, every row holds same-named files"""
    from swcgeom.core.population import Populations

    import warnings

    for name, la, lb in (("different-sets", {"x.swc": 2, "y.swc": 3}, {"x.swc": 2, "only_b.swc": 3}), ("same-sets", {"x.swc": 2, "sub/y.swc": 3}, {"x.swc": 4, "sub/y.swc": 5})):
        ra, rb = os.path.join(base, "csa_" + name), os.path.join(base, "csb_" + name)
        _build(ra, la)
        _build(rb, lb)
        spec = dict(kind="check_same", layout=name)
        with warnings.catch_warnings():
            warnings.simplefilter("ignore")
            try:
                ps = Populations.from_swc([ra, rb], intersect=False, check_same=True)
                rows = [[os.path.relpath(t.source, r) for t, r in zip(ps[i], (ra, rb))] for i in range(len(ps))]
                if sorted(la) != sorted(lb) and any(len(set(r)) != 1 for r in rows):  # (listing order may differ between equal directories)
                    ctx.violation("Populations.from_swc", "check_same:accepted-only-if-every-root-lists-the-same-relative-paths", spec, rows, "AssertionError, or rows of same-named files", spec)
            except AssertionError:
                if sorted(la) == sorted(lb):
                    ctx.violation("Populations.from_swc", "check_same:same-sets-rejected", spec, "AssertionError", "accepted", spec)
        ctx.case("check_same", dict(layout=name))


def run(ctx):
    base = scratch_dir("c19")
    try:
        rng = random.Random(ctx.seed)
        ops_pool = [("idx", 0), ("idx", -1), ("idx", 1), ("idx", 2), ("idx", 7), ("idx", -9), ("slice", (0, 2, None)), ("slice", (1, None, None)),
                    ("slice", (None, None, -1)), ("slice", (-2, None, None)), ("iter",), ("len",)]
        depth = 2 if ctx.tier == "quick" else 3
        # ACCESS ROUTES to a file's tree: every ordered pair (quick) / triple (thorough) of routes is a history of its own --
        # load-once is a property of histories, and a route that fills no cache shows only when ANOTHER access follows it
        routes = [("idx", 1), ("idx", -1), ("slice", (None, None, None)), ("slice", (None, None, -1)), ("iter",), ("iter_trees",), ("iter_trees_part", 2), ("map",), ("transform",)]
        ops_pool = ops_pool + [("iter_trees",), ("iter_trees_part", 1), ("map",), ("transform",)]
        for name, layout in LAYOUTS.items():
            seqs = [()] + [(o,) for o in ops_pool]
            seqs += [h for d in range(2, depth + 1) for h in itertools.product(routes, repeat=d)]
            for d in range(2, depth + 1):
                allseq = list(itertools.product(ops_pool, repeat=d))
                rng.shuffle(allseq)
                seqs += allseq[: (60 if ctx.tier == "quick" else 400)]
            for ops in seqs:
                check_ops(ctx, name, layout, ops, base)
        # every split of up to 4 members with 0..2 trees each (thorough: 0..3): empty members in every position, runs of empty members
        top = 3 if ctx.tier == "quick" else 4
        size_sets = [t for m in (2, 3, 4) for t in itertools.product(range(0, top), repeat=m)] + [(3, 0, 1), (1, 2, 0, 0, 3, 1), (0, 0, 1, 0, 2, 0)]
        for sizes in size_sets:
            check_chain(ctx, sizes, base)
        # MEMBER LENGTHS are part of the input space of Populations: one member, unequal members, empty members in every position, many
        # members; built from separately made populations and from directories with different file counts (intersect=False)
        slices = all_slices()
        member_sets = [(1,), (0,), (3,), (4, 4)] + [t for t in itertools.product(range(0, top + 1), repeat=2) if t[0] != t[1]] + \
                      [(2, 4, 3), (3, 0, 1), (0, 2, 0), (1, 1, 1), (5, 1, 2, 4), (2, 0, 0, 3), tuple(rng.randrange(0, 4) for _ in range(8)), tuple(rng.randrange(1, 6) for _ in range(6))]
        if ctx.tier != "quick":
            member_sets += [t for t in itertools.product(range(0, 4), repeat=3)]
        for sizes in member_sets:
            for via in ("list", "from_swc"):
                check_members(ctx, sizes, base, slices if ctx.tier != "quick" else slices[::3], via)
        for name, lays in DIR_SETS.items():
            check_dirs(ctx, name, lays, base)
        for name, layout in LAYOUTS.items():
            check_slices(ctx, name, layout, base, slices)
        check_populations(ctx, base)
        check_map(ctx, base)
        check_filter(ctx, base)
        check_same(ctx, base)
        ctx.rule("directory layouts {flat, nested, single, empty, mixed} x operation sequences (all of length<=1, sampled length 2.." + str(depth) +
                 "; ALL histories of length 2.." + str(depth) + " over the access routes index / negative index / slice / reversed slice / Population iteration / "
                 "container iteration (whole, partial) / Population.map in a worker process / PopulationTransform) with a Tree.from_swc call counter checked after every step; chains of 2-4 populations with 0-2 (thorough: 0-3) trees each, all splits, and two 6-member chains with runs of empty members; two-directory intersection; map with 2 workers. "
                 "filter_population with 4 predicates; check_same on equal / different directory pairs. "
                 "Populations over members of every length pattern (one member, unequal pairs 0..3, empty members in every position, triples, 4-8 members) built from a list of populations "
                 "and by from_swc(intersect=False): len = minimum, rows, row slices, to_population = concatenation of ALL members (length = sum, every index from -len-3 to len+3, "
                 "every slice form start/stop in {None,0,1,2,-1,-2,5,-5} x step in {None,1,2,-1,-2,3}, iteration), members re-indexed afterwards, read counter; "
                 "from_swc with intersect True / False over directory sets with equal / differing / empty / disjoint file sets and 1-3 roots; every slice form on Population, on a slice of a slice, on a filtered view. "
                 "Non-trivial = layout with >=1 file and >=1 operation", exhaustive=False)
    finally:
        shutil.rmtree(base, ignore_errors=True)


def replay(spec):
    class C:
        def __init__(self):
            self.v = []
            self.notes = []

        def case(self, *a, **k):
            pass

        def violation(self, *a, **k):
            self.v.append(a)

    c = C()
    base = scratch_dir("c19r")
    try:
        if spec["kind"] == "ops":
            ops = [tuple(tuple(x) if isinstance(x, list) else x for x in o) for o in spec["ops"]]
            check_ops(c, spec["layout"], LAYOUTS[spec["layout"]], ops, base)
        elif spec["kind"] == "chain":
            check_chain(c, spec["sizes"], base)
        elif spec["kind"] == "members":
            check_members(c, spec["sizes"], base, all_slices(), spec.get("via", "list"))
        elif spec["kind"] == "dirs":
            check_dirs(c, spec["layout"], DIR_SETS[spec["layout"]], base)
        elif spec["kind"] == "slices":
            check_slices(c, spec["layout"], LAYOUTS[spec["layout"]], base, all_slices())
        elif spec["kind"] == "populations":
            check_populations(c, base)
        elif spec["kind"] == "map":
            check_map(c, base)
        elif spec["kind"] == "filter":
            check_filter(c, base)
        elif spec["kind"] == "check_same":
            check_same(c, base)
    finally:
        shutil.rmtree(base, ignore_errors=True)
    for v in c.v:
        print("  still failing:", v[:2], v[3:5])
    return not c.v
