"""C17 bounded stand-in: point cloud -> spanning tree (PointsToCuntzMST / PointsToMST).

Oracles (plain Python/numpy, float64, explicit loops):
  * Kruskal minimum spanning tree length with a label-array union-find;
  * an independent re-simulation of the greedy rule of the property: repeatedly attach the unconnected
    point j to the connected, non-saturated point i minimising  |p_i - p_j| + bf * pathlen(i)
    (saturated = already has k children, k the branching limit; the root is exempt if asked).
    Cases in which the simulation meets a near tie (two candidate costs closer than 1e-9) are not
    compared (they are outside "general position").
Output nodes are identified with input points by their coordinates (the library may re-number nodes when
sort=True), never by index.
"""
from __future__ import annotations

import itertools
import math
import random

import numpy as np

from . import common  # noqa: F401


# ----------------------------------------------------------------------------- oracles
def dist(a, b):
    return math.sqrt((a[0] - b[0]) ** 2 + (a[1] - b[1]) ** 2 + (a[2] - b[2]) ** 2)


def kruskal_length(P):
    n = len(P)
    edges = sorted((dist(P[i], P[j]), i, j) for i in range(n) for j in range(i + 1, n))
    label = list(range(n))
    total, used = 0.0, 0
    for d, i, j in edges:
        if label[i] != label[j]:
            old, new = label[j], label[i]
            for k in range(n):
                if label[k] == old:
                    label[k] = new
            total += d
            used += 1
            if used == n - 1:
                break
    return total


def simulate(P, bf, K, exempt_root):
    """Returns (parent list, attachment order, smallest gap between best and second-best cost)."""
    n = len(P)
    parent = [-1] * n
    acc = [0.0] * n
    nchild = [0] * n
    connected = [0]
    inside = [False] * n
    inside[0] = True
    order, gap = [], float("inf")
    for _ in range(n - 1):
        cands = []
        for i in connected:
            if K != -1 and nchild[i] >= K and not (exempt_root and i == 0):
                continue
            for j in range(n):
                if not inside[j]:
                    cands.append((dist(P[i], P[j]) + bf * acc[i], i, j))
        if not cands:
            return None, order, gap  # nothing can be attached (only possible for K = 0)
        cands.sort()
        if len(cands) > 1:
            gap = min(gap, cands[1][0] - cands[0][0])
        c, i, j = cands[0]
        parent[j] = i
        acc[j] = acc[i] + dist(P[i], P[j])
        nchild[i] += 1
        inside[j] = True
        connected.append(j)
        order.append(j)
    return parent, order, gap


# ----------------------------------------------------------------------------- check
class Reporter:
    def __init__(self, ctx):
        self.ctx, self.count = ctx, {}

    def __call__(self, carrier, clause, inp, observed, expected):
        k = (carrier, clause)
        self.count[k] = self.count.get(k, 0) + 1
        if self.count[k] <= 3:
            self.ctx.violation(carrier, clause, inp, observed, expected, inp)


def check(rep, spec):
    """spec: points, soma (list|None), bf, furcations, exclude_soma, sort, cls ('cuntz'|'mst')"""
    from swcgeom.transforms.mst import PointsToCuntzMST, PointsToMST

    f32 = spec.get("dtype") == "float32"  # the declared input dtype of the transform; far from the origin its resolution is coarse
    pts = np.array(spec["points"], dtype=np.float32 if f32 else np.float64)
    cloud_arg, soma_arg = pts.copy(), (None if spec["soma"] is None else list(spec["soma"]))
    if spec.get("cloud"):
        # the container / dtype of the cloud and the form of the soma are part of the input: the VALUES are spec["points"] / spec["soma"] (all of them exactly
        # representable in every dtype they are handed over in), the clauses speak about these values as real numbers
        cloud_arg, soma_arg = make_cloud(spec["points"], spec["cloud"]), make_soma(spec["soma"], spec.get("soma_form"))
    soma, bf, K, ex, sort, cls = spec["soma"], spec["bf"], spec["furcations"], spec["exclude_soma"], spec["sort"], spec["cls"]
    carrier = "PointsToCuntzMST.__call__"
    kw = {}
    if spec.get("names"):  # column names other than the default ones (constructor argument `names=`)
        from swcgeom.core.swc_utils import SWCNames

        kw["names"] = SWCNames(*spec["names"])
    try:
        if cls == "mst":
            tr = PointsToMST(K, exclude_soma=ex, sort=sort, **kw)
        else:
            tr = PointsToCuntzMST(bf=bf, furcations=K, exclude_soma=ex, sort=sort, **kw)
        if spec.get("warmup"):
            # a transform object is reusable: what it built for an earlier (tiny) cloud must not influence this call
            tr(np.array(spec["warmup"], dtype=np.float64))
        t = tr(cloud_arg, soma=soma_arg)
    except Exception as e:
        rep(carrier, "operation-raises", spec, f"{type(e).__name__}: {e}", "a tree")
        return None
    P = [tuple(map(float, p)) for p in pts]
    if soma is not None:
        P = [tuple(map(float, soma))] + P
    n = len(P)
    ids, pid, xyz = [int(v) for v in t.id()], [int(v) for v in t.pid()], np.array(t.xyz(), dtype=np.float64)
    if spec.get("names") and sorted(t.ndata.keys()) != sorted(spec["names"]):
        # FINDING (sort=True): _sort_tree writes the new numbering into columns "id" / "pid" instead of the columns that carry the ids under the given names
        rep(carrier, "columns-are-the-seven-named-ones", spec, f"columns {sorted(t.ndata.keys())}", f"columns {sorted(spec['names'])}")

    # well-formed
    problem = None
    if len(ids) != len(pid) or ids != list(range(len(ids))):
        problem = f"ids {ids[:10]}"
    elif sum(1 for p in pid if p == -1) != 1 or any(not (-1 <= p < len(pid)) for p in pid):
        problem = f"pid {pid[:20]} has not exactly one root / parents out of range"
    else:
        for i in range(len(pid)):
            j, steps = i, 0
            while pid[j] != -1 and steps <= len(pid):
                j, steps = pid[j], steps + 1
            if steps > len(pid):
                problem = f"node {i} does not reach the root, pid {pid[:20]}"
                break
        if problem is None and pid[0] != -1:
            problem = f"root is not node 0: pid {pid[:20]}"
        if problem is None and sort and any(pid[i] >= i for i in range(1, len(pid))):
            problem = f"sort=True but a parent does not precede its child: pid {pid[:20]}"
    if problem:
        rep(carrier, "well-formed", spec, problem, "one tree, ids = positions, root first")
        return None

    # spanning: every input point exactly once (nodes identified by position)
    if len(ids) != n:
        rep(carrier, "spanning-each-point-once", spec, f"{len(ids)} nodes", f"{n} nodes")
        return None
    Parr = np.array(P)
    owner = []
    if spec.get("exact32"):
        # every input coordinate is a float32 number: the tree (float32 columns) shows the input positions EXACTLY, so nodes are identified by equality - near-duplicate
        # points (a few float32 steps apart) stay distinct, exact duplicates are interchangeable (handed out in input order)
        key = lambda p: tuple(np.asarray(p, dtype=np.float32).tolist())
        buckets = {}
        for j, p in enumerate(P):
            buckets.setdefault(key(p), []).append(j)
        for k in range(n):
            b = buckets.get(key(xyz[k]))
            if not b:
                rep(carrier, "spanning-each-point-once", spec, f"node {k} at {xyz[k].tolist()} is not an input point, or is shown more often than it was given", "every input point exactly once")
                return None
            owner.append(b.pop(0))
    for k in range(n if not owner else 0):
        d = np.sqrt(((Parr - xyz[k]) ** 2).sum(axis=1))
        j = int(d.argmin())
        if d[j] > 1e-4 * (1 + float(np.abs(Parr[j]).max())):
            rep(carrier, "spanning-each-point-once", spec, f"node {k} at {xyz[k].tolist()} is not an input point", "every node is an input point")
            return None
        owner.append(j)
    if sorted(owner) != list(range(n)):
        miss = sorted(set(range(n)) - set(owner))
        rep(carrier, "spanning-each-point-once", spec, f"input points {miss[:6]} missing / others duplicated", "every input point exactly once")
        return None
    root = pid.index(-1)
    if owner[root] != 0:
        rep(carrier, "rooted-at-soma-or-first", spec, f"root is input point {owner[root]} at {xyz[root].tolist()}", f"{'the soma' if soma is not None else 'the first point'} {list(P[0])}")
    parent = [-1] * n  # in input numbering
    for k in range(n):
        parent[owner[k]] = -1 if pid[k] == -1 else owner[pid[k]]
    nchild = [0] * n
    for j in range(n):
        if parent[j] >= 0:
            nchild[parent[j]] += 1

    # branching limit
    if K != -1:
        over = [(i, nchild[i]) for i in range(n) if nchild[i] > K and not (ex and i == 0)]
        if over:
            rep(carrier, "furcation-cap", spec, f"(point, children): {over[:5]}; parent table {parent[:20]}", f"<= {K} children" + (" (root exempt)" if ex else ""))

    eff_bf = 0.0 if cls == "mst" else min(max(bf, 0.0), 1.0)
    length = sum(dist(P[j], P[parent[j]]) for j in range(n) if parent[j] >= 0)
    if eff_bf == 0 and K == -1:
        want = kruskal_length(P)
        if abs(length - want) > (1e-3 if f32 else 1e-6) * max(1.0, want):
            rep(carrier, "mst-length", spec, f"total length {length:.9f}, parent table {parent[:20]}", f"minimum spanning tree length {want:.9f}")

    # greedy choice
    sim, order, gap = simulate(P, eff_bf, K, ex)
    if sim is not None and gap > (1e-2 if f32 else 1e-9) and sim != parent:
        j = next(j for j in order if sim[j] != parent[j])
        rep(carrier, "greedy-balanced-choice", spec, f"point {j} attached to {parent[j]}; parent table {parent[:24]}",
            f"point {j} attached to {sim[j]} (minimises edge + {eff_bf} * path length among connected, non-saturated points); table {sim[:24]}")
    return gap


# ----------------------------------------------------------------------------- inputs
def grid_points():
    rng = random.Random(20240517)
    pts = []
    for i in range(3):
        for j in range(3):
            for k in range(2):
                pts.append((i + rng.uniform(-0.07, 0.07), j + rng.uniform(-0.07, 0.07), 1.3 * k + rng.uniform(-0.07, 0.07)))
    pts = [tuple(round(v, 6) for v in p) for p in pts]
    ds = sorted(dist(a, b) for a, b in itertools.combinations(pts, 2))
    assert min(b - a for a, b in zip(ds, ds[1:])) > 1e-7, "grid perturbation is not generic"
    return pts


def all_configs():
    """every combination of the options: class x balancing factor x branching limit x root exemption x sorting"""
    out = []
    for K in (-1, 1, 2, 3):
        for ex in (True, False):
            for sort in (True, False):
                out.append((("mst", 0.0, K, ex), sort))
                for bf in (0.0, 0.05, 0.4, 1.0):
                    out.append((("cuntz", bf, K, ex), sort))
    return out


SHAPES = ("generic", "collinear", "coplanar", "near-duplicates", "exact-duplicates", "near-the-soma", "on-the-soma")
POSES = (0.0, 1e3, 1e4, 1e5)
CLOSE = (1e-3, 1e-2, 1e-1)


def f32(v):
    return float(np.float32(v))


def posed_cloud(rng, shape, magnitude, with_soma):
    """a small cloud of the given kind in a pose `magnitude` away from the origin (every coordinate a float32 number, so that the tree shows it exactly).
    Kinds: generic | collinear | coplanar | some points 1e-3 .. 1e-1 away from another point | some points given twice | (soma given) some points
    1e-3 .. 1e-1 away from the soma | a point AT the soma.  Returns (points, soma or None)."""
    n = rng.randint(3, 12)
    if shape == "collinear":
        d = [rng.uniform(0.3, 1.0) * rng.choice((-1, 1)) for _ in range(3)]
        ts = sorted(rng.uniform(0, 12) for _ in range(n))
        base = [[t * c for c in d] for t in ts]
        rng.shuffle(base)
    elif shape == "coplanar":
        u = [rng.uniform(-1, 1) for _ in range(3)]
        w = [rng.uniform(-1, 1) for _ in range(3)]
        base = [[a * u[c] + b * w[c] for c in range(3)] for a, b in ((rng.uniform(0, 9), rng.uniform(0, 9)) for _ in range(n))]
    else:
        base = [[rng.uniform(0, 9) for _ in range(3)] for _ in range(n)]
    off = [magnitude * rng.uniform(0.5, 1.5) * rng.choice((-1, 1)) for _ in range(3)]
    pts = [[b[c] + off[c] for c in range(3)] for b in base]
    soma = None
    if with_soma:
        soma = [f32(off[c] + rng.uniform(0, 9)) for c in range(3)]
    near = lambda p: [p[c] + rng.choice(CLOSE) * rng.uniform(0.3, 1.0) * rng.choice((-1, 1)) for c in range(3)]
    if shape == "near-duplicates":
        for _ in range(rng.randint(1, 3)):
            pts.insert(rng.randrange(len(pts) + 1), near(rng.choice(pts)))
    elif shape == "exact-duplicates":
        for _ in range(rng.randint(1, 2)):
            pts.insert(rng.randrange(len(pts) + 1), list(rng.choice(pts)))
    elif shape == "near-the-soma" and soma is not None:
        for _ in range(rng.randint(1, 3)):
            pts.insert(rng.randrange(len(pts) + 1), near(soma))
    elif shape == "on-the-soma" and soma is not None:
        pts.insert(rng.randrange(len(pts) + 1), list(soma))
        if rng.random() < 0.5:
            pts.insert(rng.randrange(len(pts) + 1), near(soma))
    return [[f32(v) for v in p] for p in pts], soma


CLOUDS = ("float64", "float32", "int64", "int32", "uint16", "tuples")  # numpy dtype of the (n, 3) array | a python list of 3-tuples
SOMA_FORMS = ("list", "tuple", "ndarray-float64", "ndarray-float32", "list-of-ints", "ndarray-int64")


def make_cloud(points, kind):
    if kind == "tuples":
        return [tuple(float(v) for v in p) for p in points]
    dt = np.dtype(kind)
    arr = np.array(points, dtype=np.float64).astype(dt)
    assert (arr.astype(np.float64) == np.array(points, dtype=np.float64)).all(), "cloud values are not representable in the dtype"
    return arr


def make_soma(soma, form):
    if soma is None:
        return None
    if form in ("list-of-ints", "ndarray-int64"):
        assert all(float(v).is_integer() for v in soma)
        ints = [int(v) for v in soma]
        return ints if form == "list-of-ints" else np.array(ints, dtype=np.int64)
    vals = [float(v) for v in soma]
    if form == "tuple":
        return tuple(vals)
    if form == "ndarray-float64":
        return np.array(vals, dtype=np.float64)
    if form == "ndarray-float32":
        out = np.array(vals, dtype=np.float32)
        assert out.astype(np.float64).tolist() == vals, "soma values are not float32 numbers"
        return out
    return vals


def typed_input(rng, cloud, soma_form, fractional):
    """a small cloud whose values fit the container `cloud` (integer dtypes: distinct voxel positions, `np.argwhere` style; float kinds: multiples of 1/64) and a soma
    (None | whole numbers | numbers with a fractional part k/64 - a sub-voxel centre of mass) in the box of the cloud.  Returns (points, soma)."""
    n = rng.randint(3, 10)
    integer = cloud in ("int64", "int32", "uint16")
    lo = [rng.choice((0, 7, 120) if cloud == "uint16" else (0, 7, 120, -60)) for _ in range(3)]
    if integer:
        cells = rng.sample([(i, j, k) for i in range(9) for j in range(9) for k in range(6)], n)
        pts = [[float(lo[c] + p[c]) for c in range(3)] for p in cells]
    else:
        pts = [[lo[c] + rng.randrange(0, 9 * 64) / 64.0 for c in range(3)] for _ in range(n)]
    soma = None
    if soma_form is not None:
        soma = [float(lo[c] + rng.randrange(0, 8)) + (rng.randrange(3, 62) / 64.0 if fractional else 0.0) for c in range(3)]
    return pts, soma


CONFIGS = [  # (cls, bf, K, exclude_soma)
    ("mst", 0.0, -1, True), ("cuntz", 0.0, -1, False), ("cuntz", 0.4, 2, True), ("cuntz", 0.4, 2, False), ("cuntz", 0.2, -1, True), ("cuntz", 1.0, 1, False),
    ("cuntz", 1.0, 1, True), ("mst", 0.0, 2, True), ("mst", 0.0, 2, False), ("cuntz", 0.7, 3, False), ("mst", 0.0, 1, False), ("cuntz", 0.05, 3, True),
    ("mst", 0.0, 3, True), ("cuntz", 1.0, -1, True),
]


def mk_spec(points, soma, cfg, sort):
    cls, bf, K, ex = cfg
    return dict(points=[list(map(float, p)) for p in points], soma=None if soma is None else list(map(float, soma)), bf=bf, furcations=K, exclude_soma=ex, sort=sort, cls=cls)


def run(ctx):
    rep = Reporter(ctx)
    rng = random.Random(ctx.seed)
    quick = ctx.tier == "quick"
    G = grid_points()
    kmax = 4 if quick else 6
    ties = 0
    idx = 0
    for k in range(2, kmax + 1):
        for combo in itertools.combinations(range(len(G)), k):
            idx += 1
            rot = idx % k
            pts = [G[c] for c in combo[rot:] + combo[:rot]]  # vary which point comes first (the root)
            cfgs = [CONFIGS[0], CONFIGS[1 + idx % (len(CONFIGS) - 1)]] if k <= 4 else [CONFIGS[idx % len(CONFIGS)]]
            for cfg in cfgs:
                soma = (1.03, 0.94, 0.61) if idx % 3 == 0 else None
                sort = bool((idx // 3) % 2)
                gap = check(rep, mk_spec(pts, soma, cfg, sort))
                if gap is not None and gap <= 1e-9:
                    ties += 1
                ctx.case("grid-subset", dict(points=list(combo), first=rot, cfg=list(cfg), soma=soma is not None, sort=sort))
    nrand, nmaxpts = (110, 40) if quick else (1200, 200)
    for r in range(nrand):
        n = rng.randint(2, nmaxpts if r % 3 else 12)
        scale = rng.choice([1.0, 10.0, 100.0])
        pts = [tuple(round(rng.uniform(0, scale), 5) for _ in range(3)) for _ in range(n)]
        soma = tuple(round(rng.uniform(0, scale), 5) for _ in range(3)) if rng.random() < 0.5 else None
        cfgs = [CONFIGS[0]] + rng.sample(CONFIGS[1:], 3 if quick else 4)
        for cfg in cfgs:
            sort = rng.random() < 0.5
            sp = mk_spec(pts, soma, cfg, sort)
            if r % 2 == 0:
                sp["warmup"] = [[0.0, 0.0, 0.0], [1.0, 0.5, 0.25]]
            gap = check(rep, sp)
            if gap is not None and gap <= 1e-9:
                ties += 1
            ctx.case("random-cloud", dict(n=n, first=list(pts[0]), cfg=list(cfg), soma=soma is not None, sort=sort))
    # clouds far from the origin in single precision (coordinates ~1e3, spacing ~1): inter-point distances are still exact to
    # ~1e-4 when computed from coordinate differences; the clauses are the same (near ties below 1e-2 are not compared)
    for r in range(24 if quick else 200):
        n = rng.randint(4, 24)
        off = [rng.choice([1000.0, -2500.0, 4000.0]) for _ in range(3)]
        pts = [tuple(float(np.float32(off[a] + rng.uniform(0, 9))) for a in range(3)) for _ in range(n)]
        soma = tuple(float(np.float32(off[a] + rng.uniform(0, 9))) for a in range(3)) if r % 2 else None
        for cfg in (CONFIGS[0], CONFIGS[1 + r % (len(CONFIGS) - 1)]):
            sp = mk_spec(pts, soma, cfg, bool(r % 3))
            sp["dtype"] = "float32"
            gap = check(rep, sp)
            if gap is not None and gap <= 1e-2:
                ties += 1
            ctx.case("far-cloud-float32", dict(n=n, first=list(pts[0]), cfg=list(cfg), soma=soma is not None))
    # column names other than the default ones: the same clauses (the tree is read through its own names)
    for r in range(8 if quick else 40):
        n = rng.randint(3, 9)
        pts = [tuple(round(rng.uniform(0, 10), 4) for _ in range(3)) for _ in range(n)]
        for sort in (False, True):
            sp = mk_spec(pts, None if r % 2 else (5.0, 5.0, 5.0), CONFIGS[r % len(CONFIGS)], sort)
            sp["names"] = ["ID", "T", "X", "Y", "Z", "R", "PID"]
            check(rep, sp)
            ctx.case("given-column-names", dict(n=n, first=list(pts[0]), cfg=list(CONFIGS[r % len(CONFIGS)]), sort=sort))
    # poses: the property speaks about every point set, wherever it lies.  Clouds of every kind (generic, collinear, coplanar, with near-duplicate and duplicate points,
    # with points next to / at the soma) x distance from the origin (0, 1e3, 1e4, 1e5) x soma given or not x EVERY option combination (rotating through the clouds).
    # Coordinates are float32 numbers handed over as float64: the library computes in double precision, the float32 tree shows the input positions exactly.
    combos = all_configs()
    rounds = 3 if quick else 12
    idx = 0
    for _ in range(rounds):
        for shape in SHAPES:
            for mag in POSES:
                for with_soma in (True, False):
                    if shape in ("near-the-soma", "on-the-soma") and not with_soma:
                        continue
                    pts, soma = posed_cloud(rng, shape, mag, with_soma)
                    for _c in range(4 if quick else 8):
                        cfg, sort = combos[idx % len(combos)]
                        idx += 1
                        sp = mk_spec(pts, soma, cfg, sort)
                        sp["exact32"] = True
                        gap = check(rep, sp)
                        if gap is not None and gap <= 1e-9:
                            ties += 1
                        ctx.case("posed-cloud", dict(kind=shape, away=mag, n=len(pts), first=list(pts[0]), cfg=list(cfg), soma=soma is not None, sort=sort))
    # dtypes / containers: the cloud as float64 | float32 | int64 | int32 | uint16 array or a list of tuples, the soma as list | tuple | float64 / float32 / int64 array | list of python
    # ints, with and without a fractional part (a voxel cloud with a sub-voxel centre of mass) - the tree must show the VALUES that were handed over, whatever they were stored in.
    # Not included (the unchanged library fails there, see docs/w4/g-c17.md): an unsigned cloud and a list of tuples WITHOUT a soma.
    for _ in range(2 if quick else 10):
        for cloud in CLOUDS:
            for form in (None,) + SOMA_FORMS:
                if form is None and cloud in ("uint16", "tuples"):
                    continue
                for fractional in ((False,) if form in (None, "list-of-ints", "ndarray-int64") else (True, False)):
                    pts, soma = typed_input(rng, cloud, form, fractional)
                    for _c in range(2):
                        cfg, sort = combos[idx % len(combos)]
                        idx += 1
                        sp = mk_spec(pts, soma, cfg, sort)
                        sp.update(cloud=cloud, soma_form=form, exact32=True)  # every value is a float32 number: the tree shows it exactly (a point AT the soma is a node of its own)
                        gap = check(rep, sp)
                        if gap is not None and gap <= 1e-9:
                            ties += 1
                        ctx.case("typed-input", dict(cloud=cloud, soma=form, fractional=fractional, n=len(pts), first=list(pts[0]), cfg=list(cfg), sort=sort))
    if ties:
        ctx.notes.append(f"{ties} cases met a near tie (< 1e-9) in the greedy simulation; their parent tables were not compared")
    ctx.rule(f"every subset of 2..{kmax} points of a generically perturbed 3x3x2 grid (rotating first point, soma given for a third, sort on/off alternating) with the plain-MST "
             f"configuration and one rotating configuration out of {len(CONFIGS)} (class, bf in 0..1, branching limit in -1,1,2,3, root exempt or not); {nrand} seeded random clouds of 2..{nmaxpts} "
             "points x 4-5 configurations, every second one on a transform object that was first applied to a 2-point cloud; float32 clouds of 4..24 points offset by ~1e3 from the origin; small clouds built with non-default column names, sort on and off; posed clouds: "
             f"kinds {', '.join(SHAPES)} (near = 1e-3 .. 1e-1 apart) x distance from the origin {', '.join(str(int(m)) for m in POSES)} x soma given / not, rotating through all {len(combos)} combinations of "
             "class x bf (0, 0.05, 0.4, 1) x limit (-1, 1, 2, 3) x root exemption x sorting, float32-representable coordinates computed in float64; typed inputs: cloud as "
             f"{' | '.join(CLOUDS)} x soma as none | {' | '.join(SOMA_FORMS)} x soma with / without a fractional part (integer clouds = distinct voxel positions), rotating through the same option combinations. Non-trivial = every case (>= 2 points).", exhaustive=False)


def replay(spec):
    class C:
        def __init__(self):
            self.v, self.notes = [], []

        def case(self, *a, **k):
            pass

        def violation(self, *a, **k):
            self.v.append(a)

    c = C()
    check(Reporter(c), spec)
    for v in c.v:
        print("  still failing:", v[:2], v[3:5])
    return not c.v
