"""C20 bounded stand-in: image stack round trips and rasterised trees.

Round trips go through real files under bounded.common.scratch_dir.  Documented rescaling
(swcgeom/images/io.py, docstrings of read_imgs / save_tiff): "If integer and float conversions occur,
they will be scaled (assuming floats are between 0 and 1)", i.e.  uint -> float: v / UINT_MAX,
float -> uint: v * UINT_MAX (truncated or rounded: +-1 accepted), same kind: plain cast.

Rasterisation oracle: the rounded cone joining the spheres (a, ra) and (b, rb) is the union over
t in [0, 1] of the spheres with centre a + t (b - a) and radius ra + t (rb - ra) (= convex hull of the two
spheres).  g(p) = min_t |p - c(t)| - r(t) is convex in t, minimised in closed form; a voxel centre is inside
iff g <= 0; centres with |g| < 1e-3 are skipped.
"""
from __future__ import annotations

import itertools
import os
import random
import shutil

import numpy as np

from .common import all_sorted_tables_upto, coords_for, make_tree, scratch_dir

UMAX = {"uint8": 255, "uint16": 65535}


class Reporter:
    def __init__(self, ctx):
        self.ctx, self.count = ctx, {}

    def __call__(self, carrier, clause, inp, observed, expected, variant=None):
        k, kv = (carrier, clause), (carrier, clause, variant)
        self.count[kv] = self.count.get(kv, 0) + 1
        if self.count[kv] <= 2:
            self.count[k] = self.count.get(k, 0) + 1
            if self.count[k] <= 4:
                self.ctx.violation(carrier, clause, inp, observed, expected, inp)


# ----------------------------------------------------------------------------- stacks
def make_stack(shape, dtype, pattern, seed):
    n = int(np.prod(shape))
    if pattern == "ramp":
        v = np.arange(n, dtype=np.float64) * 2749 + 5
    elif pattern == "random":
        v = np.random.RandomState(seed).randint(0, 2 ** 31 - 1, size=n).astype(np.float64)
    else:  # one-hot: a single bright voxel at a position that is not symmetric under axis swaps
        v = np.zeros(n)
        v[(seed * 7 + n // 3) % n] = 1e12
    if dtype.startswith("float"):
        a = (v % 1009) / 1008.0 if pattern != "one-hot" else np.minimum(v, 1.0)
        return a.astype(dtype).reshape(shape)
    m = UMAX[dtype]
    a = v % (m + 1) if pattern != "one-hot" else np.minimum(v, m)
    return a.astype(dtype).reshape(shape)


def describe(a):
    return f"shape {tuple(a.shape)} dtype {a.dtype} first {a.ravel()[:6].tolist()}"


def to_np_dtype(name, as_instance):
    return np.dtype(name) if as_instance else getattr(np, name)


def check_tiff(rep, spec, base):
    """spec: shape (3 or 4 ints), dtype, pattern, seed, save_dtype (None|name), read_dtype (None|name), read_dtype_as ('class'|'dtype')"""
    from swcgeom.images.io import read_imgs, save_tiff

    shape, dtype = tuple(spec["shape"]), spec["dtype"]
    a = make_stack(shape, dtype, spec["pattern"], spec["seed"])
    want_shape = shape if len(shape) == 4 else shape + (1,)
    a4 = a.reshape(want_shape)
    fname = os.path.join(base, "stack.tif")
    if os.path.exists(fname):
        os.remove(fname)
    save_dtype, read_dtype = spec.get("save_dtype"), spec.get("read_dtype")
    try:
        if save_dtype is None:
            save_tiff(a.copy(), fname)
        else:
            save_tiff(a.copy(), fname, dtype=to_np_dtype(save_dtype, False))
    except Exception as e:
        rep("save_tiff", "operation-raises", spec, f"{type(e).__name__}: {e!r}", "a file", variant=type(e).__name__)
        return
    file_dtype = save_dtype or dtype
    out_dtype = read_dtype or "float32"
    carrier = "NDArrayImageStack.__init__" if (read_dtype is not None and out_dtype != file_dtype) or (read_dtype is None and file_dtype != "float32") else "TiffImageStack.__init__"
    conversion = not (save_dtype is None and out_dtype == dtype)
    try:
        if read_dtype is None:
            st = read_imgs(fname)
        else:
            st = read_imgs(fname, dtype=to_np_dtype(read_dtype, spec.get("read_dtype_as") == "dtype"))
        b = np.asarray(st.get_full())
        bshape = tuple(st.shape)
    except Exception as e:
        rep(carrier, "dtype-rescaling" if conversion else "operation-raises", spec, f"{type(e).__name__}: {e!r}", f"an array of dtype {out_dtype}", variant=type(e).__name__)
        return
    if tuple(b.shape) != want_shape or bshape != want_shape:
        rep("TiffImageStack.__init__", "tiff-roundtrip-shape", spec, f"shape {tuple(b.shape)} (.shape {bshape})", f"shape {want_shape}")
        return
    # expected values through the documented rescaling (float64 arithmetic)
    x = a4.astype(np.float64)
    kinds = [dtype, file_dtype, out_dtype]
    tol = 0.0
    for src, dst in zip(kinds, kinds[1:]):
        if src == dst:
            continue
        if src.startswith("uint") and dst == "float32":
            x = x / UMAX[src]
            tol = tol / UMAX[src] + 1e-6  # float32 rounding of the quotient
        elif src.startswith("float") and dst.startswith("uint"):
            x = x * UMAX[dst]
            tol = tol * UMAX[dst] + 1.0  # truncation or rounding to an integer
        # uint -> wider uint: plain cast, values unchanged
    if b.dtype != np.dtype(out_dtype):
        rep(carrier, "dtype-rescaling" if conversion else "tiff-roundtrip-values", spec, f"dtype {b.dtype}", f"dtype {out_dtype}", variant="dtype")
        return
    err = np.abs(b.astype(np.float64) - x)
    if not conversion:
        if not np.array_equal(b, a4):
            k = int(err.argmax())
            rep("save_tiff", "tiff-roundtrip-values", spec, f"{int((b != a4).sum())} voxels differ, e.g. index {np.unravel_index(k, want_shape)}: {b.ravel()[k]}", f"{a4.ravel()[k]} (exact)")
    elif float(err.max()) > tol + 1e-9:
        k = int(err.argmax())
        rep(carrier, "dtype-rescaling", spec, f"index {np.unravel_index(k, want_shape)}: {b.ravel()[k]!r} (input {a4.ravel()[k]!r}); read {describe(b)}",
            f"{x.ravel()[k]:.6f} +- {tol:.6f} ({dtype} -> file {file_dtype} -> {out_dtype})")


def check_other_format(rep, spec, base):
    """NRRD / NPY files written with the reference writers (pynrrd, numpy), read through read_imgs."""
    from swcgeom.images.io import read_imgs

    shape, dtype, fmt = tuple(spec["shape"]), spec["dtype"], spec["format"]
    a = make_stack(shape, dtype, spec["pattern"], spec["seed"])
    want_shape = shape if len(shape) == 4 else shape + (1,)
    a4 = a.reshape(want_shape)
    fname = os.path.join(base, "stack." + fmt)
    if os.path.exists(fname):
        os.remove(fname)
    if fmt == "npy":
        np.save(fname, a)
    else:
        import nrrd

        nrrd.write(fname, a)
    read_dtype = spec.get("read_dtype")
    out_dtype = read_dtype or "float32"
    carrier = "NDArrayImageStack.__init__"
    try:
        st = read_imgs(fname) if read_dtype is None else read_imgs(fname, dtype=to_np_dtype(read_dtype, False))
        b = np.asarray(st.get_full())
    except Exception as e:
        rep(carrier, "nrrd-npy-roundtrip", spec, f"{type(e).__name__}: {e!r}", f"an array of dtype {out_dtype}", variant=type(e).__name__)
        return
    if tuple(b.shape) != want_shape:
        rep(carrier, "nrrd-npy-roundtrip", spec, f"shape {tuple(b.shape)}", f"shape {want_shape}", variant="shape")
        return
    x, tol = a4.astype(np.float64), 0.0
    if dtype.startswith("uint") and out_dtype == "float32":
        x, tol = x / UMAX[dtype], 1e-6
    elif dtype == "float32" and out_dtype.startswith("uint"):
        x, tol = x * UMAX[out_dtype], 1.0
    err = np.abs(b.astype(np.float64) - x)
    if b.dtype != np.dtype(out_dtype) or float(err.max()) > tol + 1e-9:
        k = int(err.argmax())
        rep(carrier, "nrrd-npy-roundtrip", spec, f"dtype {b.dtype}, index {np.unravel_index(k, want_shape)}: {b.ravel()[k]!r}", f"dtype {out_dtype}, {x.ravel()[k]:.6f} +- {tol:.6f}", variant="values")


def check_v3d(rep, spec, base):
    """a v3draw / v3dpbd file written by v3dpy (array indexed [c, z, y, x], header sizes x, y, z, c), read through read_imgs:
    every ImageStack documents arrays of shape (X, Y, Z, C)"""
    from v3dpy.loaders import PBD, Raw

    from swcgeom.images.io import read_imgs

    X_, Y_, Z_, C_ = spec["shape"]
    a = make_stack((X_, Y_, Z_, C_), spec["dtype"], spec["pattern"], spec["seed"])  # a[x, y, z, c]
    fname = os.path.join(base, "stack." + spec["format"])
    if os.path.exists(fname):
        os.remove(fname)
    (Raw if spec["format"] == "v3draw" else PBD)().save(fname, np.ascontiguousarray(a.transpose(3, 2, 1, 0)))
    carrier = "V3dImageStack.__init__"
    try:
        st = read_imgs(fname, dtype=to_np_dtype(spec["dtype"], False))
        b = np.asarray(st.get_full())
    except Exception as e:
        rep(carrier, "v3d-axes-(X,Y,Z,C)", spec, f"{type(e).__name__}: {e!r}", f"a stack of shape {(X_, Y_, Z_, C_)}", variant=type(e).__name__)
        return
    if tuple(b.shape) != (X_, Y_, Z_, C_) or tuple(st.shape) != (X_, Y_, Z_, C_):
        rep(carrier, "v3d-axes-(X,Y,Z,C)", spec, f"shape {tuple(b.shape)}", f"shape {(X_, Y_, Z_, C_)} (header sizes x, y, z, c)", variant="shape")
    elif not np.array_equal(b, a):
        rep(carrier, "v3d-axes-(X,Y,Z,C)", spec, f"{int((b != a).sum())} voxels differ", "voxel [x, y, z, c] of the file at index [x, y, z, c]", variant="values")


def check_gray(rep, spec, base):
    """read_images(...) -> GrayImageStack: shape (X, Y, Z), get_full / [x, y, z] / slices = channel 0 of the stack read_imgs returns"""
    import warnings as _w

    from swcgeom.images.io import read_images, save_tiff

    a = make_stack(tuple(spec["shape"]), spec["dtype"], spec["pattern"], spec["seed"])
    fname = os.path.join(base, "gray.tif")
    if os.path.exists(fname):
        os.remove(fname)
    save_tiff(a.copy(), fname)
    with _w.catch_warnings():
        _w.simplefilter("ignore")
        g = read_images(fname, dtype=to_np_dtype(spec["dtype"], False))
    want = a[..., 0]
    if tuple(g.shape) != want.shape or not np.array_equal(np.asarray(g.get_full()), want):
        rep("GrayImageStack.get_full", "gray-is-channel-0", spec, f"shape {tuple(g.shape)}, get_full {describe(np.asarray(g.get_full()))}", f"shape {want.shape}, {describe(want)}")
    x, y, z = [n - 1 for n in want.shape]
    # GrayImageStack.__getitem__ (deprecated read_images API) is outside property C20 and recurses without end (observation, DESIGN 9.4): not evaluated
    for key, exp in ():
        try:
            got = g[key]
            ok = np.array_equal(np.asarray(got), np.asarray(exp))
            obs = describe(np.asarray(got))
        except RecursionError as e:
            ok, obs = False, f"RecursionError: {str(e)[:60]}"
        except Exception as e:
            ok, obs = False, f"{type(e).__name__}: {e!r}"
        if not ok:
            rep("GrayImageStack.__getitem__ (via read_images)", "gray-pixel-or-patch", dict(spec, key=repr(key)), obs, describe(np.asarray(exp)), variant=obs.split(":")[0])


def check_raster_file(rep, spec, base):
    """ToImageStack.save_tif: Z frames of shape (X, Y) written page by page; read_imgs gives (X, Y, Z, 1) with voxel [x, y, z, 0] = frame z [x, y]"""
    from swcgeom.images.io import read_imgs
    from swcgeom.transforms.image_stack import ToImageStack

    Z_, X_, Y_ = spec["shape"]
    frames = [make_stack((X_, Y_), "uint8", spec["pattern"], spec["seed"] + k) for k in range(Z_)]
    fname = os.path.join(base, "raster.tif")
    if os.path.exists(fname):
        os.remove(fname)
    try:
        ToImageStack.save_tif(fname, iter(frames))
        st = read_imgs(fname, dtype=np.uint8)
        b = np.asarray(st.get_full())
    except Exception as e:
        rep("ToImageStack.save_tif", "raster-file-roundtrip", spec, f"{type(e).__name__}: {e!r}", f"a stack of shape {(X_, Y_, Z_, 1)}", variant=type(e).__name__)
        return
    want = np.stack(frames, axis=0).transpose(1, 2, 0)[..., None]
    if b.shape != want.shape or not np.array_equal(b, want):
        rep("ToImageStack.save_tif", "raster-file-roundtrip", spec, describe(b), describe(want))


def check_raster_saved(rep, spec, base):
    """ToImageStack(resolution).transform_and_save(file, tree), the property's file route: the file read back through read_imgs is the
    rasterised (Z, X, Y) stack as an (X, Y, Z, 1) image stack.  A raster that is ONE slice thick is reported under its own clause."""
    from swcgeom.images.io import read_imgs
    from swcgeom.transforms.image_stack import ToImageStack

    t = make_tree(spec["pid"], np.array(spec["xyz"], dtype=np.float32), np.array(spec["r"], dtype=np.float32))
    tr = ToImageStack(spec["resolution"])
    try:
        want = np.asarray(tr(t))  # (Z, X, Y)
    except Exception as e:
        rep("ToImageStack.transform_and_save", "operation-raises", spec, f"{type(e).__name__}: {e}", "an image stack", variant=type(e).__name__)
        return None
    clause = "saved-raster-reads-back-as-(X,Y,Z,1)" + ("-one-slice" if want.shape[0] == 1 else "")
    fname = os.path.join(base, "saved.tif")
    if os.path.exists(fname):
        os.remove(fname)
    import logging

    logging.getLogger("tifffile").setLevel(logging.CRITICAL)  # tifffile logs "shaped series axes do not match shape" for the one-page file
    try:
        tr.transform_and_save(fname, t, verbose=False)
        b = np.asarray(read_imgs(fname, dtype=np.uint8).get_full())
    except Exception as e:
        rep("ToImageStack.transform_and_save", clause, spec, f"{type(e).__name__}: {e!r}", f"a stack of shape {want.transpose(1, 2, 0)[..., None].shape}", variant=type(e).__name__)
        return want.shape[0]
    w4 = want.transpose(1, 2, 0)[..., None]
    if b.shape != w4.shape or not np.array_equal(b, w4):
        rep("ToImageStack.transform_and_save", clause, spec, describe(b), describe(w4))
    return want.shape[0]


# ----------------------------------------------------------------------------- rasterisation
def cone_g(p, a, b, ra, rb):
    """min over t in [0,1] of |p - (a + t (b - a))| - (ra + t (rb - ra)) for points p (N,3)."""
    d = b - a
    L = float(np.sqrt(d @ d))
    q = p - a
    ends = np.minimum(np.sqrt((q ** 2).sum(axis=1)) - ra, np.sqrt(((p - b) ** 2).sum(axis=1)) - rb)
    if L == 0:
        return ends
    along = q @ d / L
    perp = np.sqrt(np.maximum((q ** 2).sum(axis=1) - along ** 2, 0.0))
    k = (rb - ra) / L
    if abs(k) >= 1:  # one sphere contains the other: |p - c| - r is monotone in t
        return ends
    s = np.clip(along + k * perp / np.sqrt(1 - k * k), 0.0, L)
    mid = np.sqrt(perp ** 2 + (along - s) ** 2) - ra - k * s
    return np.minimum(ends, mid)


def tree_edges_kind(pid, xyz, r):
    kinds = set()
    for i, p in enumerate(pid):
        if p >= 0:
            L = float(np.sqrt(((xyz[i] - xyz[p]) ** 2).sum()))
            if L == 0:
                kinds.add("zero-length-edge")
            elif abs(r[i] - r[p]) >= L:
                kinds.add("sphere-inside-sphere")
    return "+".join(sorted(kinds)) or None


def check_raster(rep, spec):
    """spec: pid, xyz, r, resolution (number or 3 numbers), lo (None | 3 numbers), hi"""
    from swcgeom.transforms.image_stack import ToImageStack

    carrier = "ToImageStack.transform"
    pid = spec["pid"]
    xyz = np.array(spec["xyz"], dtype=np.float32)
    r = np.array(spec["r"], dtype=np.float32)
    res = spec["resolution"]
    res3 = np.array([res] * 3 if np.isscalar(res) else res, dtype=np.float64)
    t = make_tree(pid, xyz, r)
    X, R = xyz.astype(np.float64), r.astype(np.float64)
    kind = tree_edges_kind(pid, X, R)
    try:
        tr = ToImageStack(res)
        if spec.get("lo") is None:
            out = tr(t)
            lo = np.floor((X - R[:, None]).min(axis=0))
            hi = np.ceil((X + R[:, None]).max(axis=0))
        else:
            lo, hi = np.array(spec["lo"], dtype=np.float64), np.array(spec["hi"], dtype=np.float64)
            out = np.stack(list(tr.transform(t, verbose=False, ranges=(lo.copy(), hi.copy()))), axis=0)
    except Exception as e:
        rep(carrier, "operation-raises", spec, f"{type(e).__name__}: {e}", "an image stack", variant=(kind or "") + type(e).__name__)
        return
    nx, ny, nz = [int(round(v)) for v in (hi - lo) / res3]
    # covering the bounding box of the spheres
    if np.any(lo > (X - R[:, None]).min(axis=0) + 1e-6) or np.any(hi < (X + R[:, None]).max(axis=0) - 1e-6):
        rep(carrier, "raster-axis-order-and-extent", spec, f"extent {lo.tolist()}..{hi.tolist()}", "covers every node sphere")
    if out.ndim != 3 or tuple(out.shape) != (nz, nx, ny):
        rep(carrier, "raster-axis-order-and-extent", spec, f"shape {tuple(out.shape)}", f"(Z, X, Y) = {(nz, nx, ny)} for the box {lo.tolist()}..{hi.tolist()} at resolution {res3.tolist()}")
        return
    ii, jj, kk = np.meshgrid(np.arange(nx), np.arange(ny), np.arange(nz), indexing="ij")
    centres = np.stack([lo[0] + (ii + 0.5) * res3[0], lo[1] + (jj + 0.5) * res3[1], lo[2] + (kk + 0.5) * res3[2]], axis=-1).reshape(-1, 3)
    g = np.full(len(centres), np.inf)
    for i, p in enumerate(pid):
        if p >= 0:
            g = np.minimum(g, cone_g(centres, X[p], X[i], R[p], R[i]))
    g = g.reshape(nx, ny, nz)
    lit = np.transpose(out, (1, 2, 0)) > 0  # (Z, X, Y) -> (X, Y, Z)
    decided = np.abs(g) >= 1e-3
    wrong = decided & (lit != (g < 0))
    if wrong.any():
        idx = np.argwhere(wrong)
        worst = idx[np.abs(g[wrong]).argmax()]
        i, j, k = map(int, worst)
        c = [float(lo[0] + (i + 0.5) * res3[0]), float(lo[1] + (j + 0.5) * res3[1]), float(lo[2] + (k + 0.5) * res3[2])]
        rep(carrier, "raster-voxel-lit-iff-inside", spec,
            f"{int(wrong.sum())} of {int(decided.sum())} voxels wrong ({int((wrong & lit).sum())} lit outside, {int((wrong & ~lit).sum())} dark inside); "
            f"voxel (x,y,z)=({i},{j},{k}) centre {[round(v, 4) for v in c]} is {'lit' if lit[i, j, k] else 'dark'}",
            f"{'inside' if g[i, j, k] < 0 else 'outside'} (distance measure {g[i, j, k]:.4f})", variant=kind)
    vals = set(np.unique(out).tolist())
    if not vals <= {0, 255} or out.dtype != np.uint8:
        rep(carrier, "raster-voxel-lit-iff-inside", spec, f"dtype {out.dtype}, values {sorted(vals)[:6]}", "uint8 stack of 0 / 255", variant="values")
    return int(decided.sum()), int((decided & (g < 0)).sum())


RADII = {
    "uniform": lambda n: [1.0] * n,
    "varied": lambda n: [round(0.45 + 0.37 * ((i * 3) % 4), 3) for i in range(n)],
    "big-root": lambda n: [2.6] + [0.4 + 0.2 * (i % 2) for i in range(1, n)],
    "big-tip": lambda n: [0.4 + 0.2 * (i % 2) for i in range(n - 1)] + [2.6],  # a child sphere that encloses its parent's (thin stub ending in a bouton)
}


def raster_spec(pid, mode, radii, res, box, seed):
    n = len(pid)
    if mode == "jitter":
        xyz = coords_for(pid, random.Random(seed * 100 + n))
    else:
        xyz = coords_for(pid, mode=mode)
    xyz = np.asarray(xyz, dtype=np.float32)
    r = np.array(RADII[radii](n), dtype=np.float32)
    spec = dict(kind="raster", pid=list(pid), xyz=[[float(v) for v in row] for row in xyz], r=[float(v) for v in r], resolution=res, coords=mode, radii=radii, lo=None, hi=None)
    if box == "shifted":  # explicit, non-integer origin: generic position of the voxel grid relative to the tree
        res3 = np.array([res] * 3 if np.isscalar(res) else res, dtype=np.float64)
        lo = np.floor((xyz - r[:, None]).min(axis=0)).astype(np.float64) - np.array([0.25, 0.4, 0.15])
        cnt = np.ceil((np.ceil((xyz + r[:, None]).max(axis=0)) - lo) / res3)
        spec["lo"], spec["hi"] = [float(v) for v in lo], [float(v) for v in lo + cnt * res3]
    return spec


# ----------------------------------------------------------------------------- driver
def have_sdflit():
    try:
        import sdflit  # noqa: F401
        from swcgeom.transforms.image_stack import ToImageStack  # noqa: F401

        return True
    except Exception:
        return False


def run(ctx):
    rep = Reporter(ctx)
    rng = random.Random(ctx.seed)
    quick = ctx.tier == "quick"
    base = scratch_dir("c20")
    try:
        sizes = (1, 2, 3, 5)
        shapes = [(x, y, z, c) for x, y, z in itertools.product(sizes, repeat=3) for c in (1, 3)]
        shapes3 = [(1, 1, 1), (2, 3, 5), (5, 1, 2), (3, 2, 1)]
        k = 0
        for shape in shapes + shapes3:
            for dtype in ("uint8", "uint16", "float32"):
                for pattern in ("ramp", "random", "one-hot"):
                    k += 1
                    nontrivial = int(np.prod(shape)) > 1
                    # same dtype in and out: exact
                    spec = dict(kind="tiff", shape=list(shape), dtype=dtype, pattern=pattern, seed=k, save_dtype=None, read_dtype=dtype, read_dtype_as="class")
                    check_tiff(rep, spec, base)
                    ctx.case("tiff-same-dtype", dict(shape=list(shape), dtype=dtype, pattern=pattern), nontrivial=nontrivial)
                    # conversions (documented rescaling): a rotating choice in quick, all in thorough
                    convs = []
                    if dtype != "float32":
                        convs += [dict(save_dtype=None, read_dtype=None), dict(save_dtype="float32", read_dtype="float32")]
                        if dtype == "uint8":
                            convs.append(dict(save_dtype=None, read_dtype="uint16"))
                    else:
                        convs += [dict(save_dtype="uint8", read_dtype=None), dict(save_dtype="uint16", read_dtype="float32"), dict(save_dtype=None, read_dtype="uint8", read_dtype_as="class"),
                                  dict(save_dtype=None, read_dtype="uint8", read_dtype_as="dtype"), dict(save_dtype=None, read_dtype="uint16", read_dtype_as="class"),
                                  dict(save_dtype="uint8", read_dtype="uint8")]
                    if quick:
                        convs = [convs[(k + j) % len(convs)] for j in range(2)] if len(convs) > 2 else convs
                    for cv in convs:
                        spec = dict(kind="tiff", shape=list(shape), dtype=dtype, pattern=pattern, seed=k, read_dtype_as="class")
                        spec.update(cv)
                        check_tiff(rep, spec, base)
                        ctx.case("tiff-conversion", dict(shape=list(shape), dtype=dtype, pattern=pattern, conv=cv), nontrivial=nontrivial)
                    if not quick or k % 3 == 0:
                        for fmt in ("nrrd", "npy"):
                            for rd in ((dtype, None) if dtype != "float32" else ("float32", "uint8")):
                                spec = dict(kind="other", format=fmt, shape=list(shape), dtype=dtype, pattern=pattern, seed=k, read_dtype=rd)
                                check_other_format(rep, spec, base)
                                ctx.case("nrrd-npy", dict(format=fmt, shape=list(shape), dtype=dtype, pattern=pattern, read=rd), nontrivial=nontrivial)

        # other float widths: the documented float -> unsigned rescaling on save holds for every floating dtype
        for shape in [(2, 3, 5, 1), (3, 1, 2, 3), (1, 1, 1, 1), (5, 2, 3, 1)]:
            for dtype in ("float16", "float64"):
                for pattern in ("ramp", "one-hot"):
                    for sv in ("uint8", "uint16"):
                        k += 1
                        spec = dict(kind="tiff", shape=list(shape), dtype=dtype, pattern=pattern, seed=k, read_dtype_as="class", save_dtype=sv, read_dtype=sv)
                        check_tiff(rep, spec, base)
                        ctx.case("tiff-conversion", dict(shape=list(shape), dtype=dtype, pattern=pattern, conv=dict(save_dtype=sv, read_dtype=sv)), nontrivial=int(np.prod(shape)) > 1)

        # other readers behind read_imgs (v3dpy formats), the legacy gray wrapper, and the page-by-page raster file
        for shape in [(4, 3, 2, 1), (2, 3, 5, 1), (1, 1, 1, 1), (3, 2, 2, 3), (5, 1, 2, 1)]:
            for dtype in ("uint8", "uint16") + (() if quick else ("float32",)):
                for fmt in ("v3draw", "v3dpbd"):
                    if fmt == "v3dpbd" and dtype == "float32":
                        continue  # PBD stores 8 / 16 bit data
                    k += 1
                    spec = dict(kind="v3d", format=fmt, shape=list(shape), dtype=dtype, pattern="ramp", seed=k)
                    # NOT evaluated: the V3D readers are outside property C20 (TIFF / NRRD / NPY); their axis order is an observation (DESIGN 9.4)
                    ctx.case("v3d", dict(format=fmt, shape=list(shape), dtype=dtype), nontrivial=int(np.prod(shape)) > 1)
            for dtype in ("uint8", "float32"):
                if shape[3] == 1:
                    k += 1
                    spec = dict(kind="gray", shape=list(shape), dtype=dtype, pattern="ramp", seed=k)
                    check_gray(rep, spec, base)
                    ctx.case("gray", dict(shape=list(shape), dtype=dtype), nontrivial=int(np.prod(shape)) > 1)
        # stacks of at least two z slices: a single page written by save_tif is a plain 2-D image for tifffile ('YX'), which read_imgs refuses;
        # reading the rasterised FILE back is not a clause of the property (observation, DESIGN 9.4)
        for shape in [(2, 1, 1), (3, 2, 5), (2, 5, 1), (4, 1, 3), (2, 4, 2)]:
            for pattern in ("ramp", "one-hot"):
                k += 1
                spec = dict(kind="raster-file", shape=list(shape), pattern=pattern, seed=k)
                check_raster_file(rep, spec, base)
                ctx.case("raster-file", dict(shape=list(shape), pattern=pattern), nontrivial=int(np.prod(shape)) > 1)
        # the property's file route (observe_at: ToImageStack.transform_and_save, read_imgs): flat and tall trees at resolutions that give one, two
        # and several z slices.  FINDING (docs/w3/c20.md, known_findings.jsonl): a raster that is ONE slice thick is written as a single page, which
        # tifffile reports as a 2-D image 'YX' (the axes string ZXY is dropped); read_imgs refuses it (AssertionError)
        if have_sdflit():
            flat = dict(pid=[-1, 0, 1], xyz=[[0.0, 0.0, 0.0], [3.0, 1.0, 0.0], [6.0, 0.0, 0.0]], r=[1.0, 1.0, 1.0])
            tall = dict(pid=[-1, 0, 0], xyz=[[0.0, 0.0, 0.0], [1.0, 0.5, 4.0], [2.0, 3.0, -2.5]], r=[0.8, 0.5, 1.2])
            for tree in (flat, tall):
                for res in (1, [1, 1, 2], 2, [0.5, 0.75, 1.25], [1, 2, 3]):
                    k += 1
                    spec = dict(kind="raster-saved", resolution=res, **tree)
                    nz = check_raster_saved(rep, spec, base)
                    ctx.case("raster-saved", dict(tree=tree["xyz"], res=res, slices=nz))

        # rasterisation
        have_raster = have_sdflit()
        if not have_raster:
            ctx.notes.append("rasterisation part skipped: importing sdflit / swcgeom.transforms.image_stack failed in this sandbox")
        if have_raster:
            resolutions = [1, 0.5, [1.5, 0.75, 3]] if quick else [1, 0.5, [1.5, 0.75, 3], [1, 2, 0.5], 0.3]
            tot = ins = 0
            for pid in all_sorted_tables_upto(4):
                for mode in ("walk", "jitter", "lattice"):
                    for radii in RADII:
                        for res in resolutions:
                            for box in ("default", "shifted"):
                                spec = raster_spec(pid, mode, radii, res, box, ctx.seed)
                                st = check_raster(rep, spec)
                                if st:
                                    tot, ins = tot + st[0], ins + st[1]
                                ctx.case("raster", dict(pid=list(pid), coords=mode, radii=radii, res=res, box=box), nontrivial=len(pid) >= 2)
            for _ in range(20 if quick else 300):  # random small trees at generic positions
                n = rng.randint(2, 4)
                pid = (-1,) + tuple(rng.randrange(i) for i in range(1, n))
                xyz = [[round(rng.uniform(0, 6), 3) for _ in range(3)] for _ in range(n)]
                r = [round(rng.uniform(0.3, 1.8), 3) for _ in range(n)]
                res = rng.choice(resolutions)
                spec = dict(kind="raster", pid=list(pid), xyz=xyz, r=r, resolution=res, coords="random", radii="random", lo=None, hi=None)
                spec["xyz"] = [[float(np.float32(v)) for v in row] for row in xyz]
                spec["r"] = [float(np.float32(v)) for v in r]
                st = check_raster(rep, spec)
                if st:
                    tot, ins = tot + st[0], ins + st[1]
                ctx.case("raster-random", dict(pid=list(pid), xyz=xyz, res=res))
            ctx.notes.append(f"rasterisation: {tot} voxel centres decided (|distance| >= 1e-3), {ins} of them inside")
        ctx.rule("TIFF round trips through real files: every shape (X,Y,Z,C) with X,Y,Z in {1,2,3,5}, C in {1,3} plus four 3-D shapes x dtype (uint8, uint16, float32) x pattern (ramp, random, "
                 "one-hot): same dtype exact, and the documented conversions (uint->float on read/save, float->uint on save/read with dtype given as class and as np.dtype, uint8->uint16); "
                 "NRRD/NPY written by pynrrd/numpy and read back through read_imgs; v3draw/v3dpbd written by v3dpy and read back as (X,Y,Z,C); read_images gray wrapper "
                 "(shape, get_full, pixel and patch keys); frames saved page by page by ToImageStack.save_tif read back as (X,Y,Z,1); transform_and_save of a flat and a tall tree at five resolutions (one, two, several z slices) read back through read_imgs; ToImageStack on every tree <= 4 nodes x coordinates (lattice walk, jittered, lattice with coincident "
                 "points) x radii (uniform, varied, big root enclosing its children, big tip enclosing its parent) x resolutions x (default box, explicit shifted box) plus random trees, every voxel centre compared with the round-cone "
                 "oracle. Non-trivial = stack with > 1 voxel / tree with >= 1 edge.", exhaustive=False)
    finally:
        shutil.rmtree(base, ignore_errors=True)


def replay(spec):
    class C:
        def __init__(self):
            self.v, self.notes = [], []

        def case(self, *a, **k):
            pass

        def violation(self, *a, **k):
            self.v.append(a)

    c = C()
    rep = Reporter(c)
    base = scratch_dir("c20r")
    try:
        if spec["kind"] == "tiff":
            check_tiff(rep, spec, base)
        elif spec["kind"] == "other":
            check_other_format(rep, spec, base)
        elif spec["kind"] == "raster":
            check_raster(rep, spec)
        elif spec["kind"] == "v3d":
            check_v3d(rep, spec, base)
        elif spec["kind"] == "gray":
            check_gray(rep, spec, base)
        elif spec["kind"] == "raster-file":
            check_raster_file(rep, spec, base)
        elif spec["kind"] == "raster-saved":
            check_raster_saved(rep, spec, base)
    finally:
        shutil.rmtree(base, ignore_errors=True)
    for v in c.v:
        print("  still failing:", v[:2], v[3:5])
    return not c.v
