"""C18 bounded stand-in: topology diagnosis (checkers, disjoint-set union) and root repair.

Oracles are naive graph searches over the parent table (ids = positions 0..n-1, -1 = no parent):
  * connected     : the undirected graph with edges {i, pid[i]} has one component (flood fill);
  * cyclic        : following parents from some node revisits a node (self loops included);
  * sorted        : pid[i] < i for every non-root i (asked only on acyclic tables whose only root is node 0 --
                    the checker walks down from node 0, other tables are outside its domain);
  * bifurcate     : no node has more than two children; with exclude_root nodes without parent are exempt;
  * DSU           : a label array re-labelled on every union (naive partition).
"""
from __future__ import annotations

import io
import itertools
import random
import signal
import warnings

import numpy as np

from .common import all_functions, swc_text


class Timeout(Exception):
    pass


class time_limit:
    """Turns a non-terminating library call into an exception (main thread only)."""

    def __init__(self, seconds):
        self.seconds = seconds

    def _raise(self, *a):
        raise Timeout(f"no result after {self.seconds} s")

    def __enter__(self):
        try:
            self.old = signal.signal(signal.SIGALRM, self._raise)
            signal.setitimer(signal.ITIMER_REAL, self.seconds)
            self.armed = True
        except ValueError:  # not in the main thread: run unguarded
            self.armed = False

    def __exit__(self, *a):
        if self.armed:
            signal.setitimer(signal.ITIMER_REAL, 0)
            signal.signal(signal.SIGALRM, self.old)
        return False


class Reporter:
    def __init__(self, ctx):
        self.ctx, self.count = ctx, {}

    def __call__(self, carrier, clause, inp, observed, expected, variant=None):
        k, kv = (carrier, clause), (carrier, clause, variant)
        self.count[kv] = self.count.get(kv, 0) + 1
        if self.count[kv] <= (1 if clause == "is-bifurcate" else 2):
            self.count[k] = self.count.get(k, 0) + 1
            if self.count[k] <= (5 if clause == "is-bifurcate" else 4):
                self.ctx.violation(carrier, clause, inp, observed, expected, inp)


# ----------------------------------------------------------------------------- naive oracles
def naive_connected(pid):
    n = len(pid)
    adj = {i: set() for i in range(n)}
    for i, p in enumerate(pid):
        if p >= 0:
            adj[i].add(p)
            adj[p].add(i)
    seen, todo = {0}, [0]
    while todo:
        x = todo.pop()
        for y in adj[x]:
            if y not in seen:
                seen.add(y)
                todo.append(y)
    return len(seen) == n


def naive_cyclic(pid):
    n = len(pid)
    for i in range(n):
        j, seen = i, set()
        while j != -1:
            if j in seen:
                return True
            seen.add(j)
            j = pid[j]
    return False


def naive_bifurcate(pid, exclude_root):
    n = len(pid)
    for k in range(n):
        if exclude_root and pid[k] == -1:
            continue
        if sum(1 for p in pid if p == k) > 2:
            return False
    return True


# ----------------------------------------------------------------------------- checkers
def check_table(rep, spec):
    import pandas as pd

    from swcgeom.core import swc_utils

    pid = tuple(spec["pid"])
    n = len(pid)
    topo = (np.arange(n, dtype=np.int32), np.array(pid, dtype=np.int32))
    cyclic = naive_cyclic(pid)

    def call(carrier, clause, fn, want, variant=None):
        try:
            with time_limit(2.0):
                got = fn()
        except Exception as e:
            rep(carrier, clause, spec, f"{type(e).__name__}: {e}", want, variant="raises")
            return
        if bool(got) != want or not isinstance(got, (bool, np.bool_)):
            rep(carrier, clause, spec, got, want, variant=variant)

    df = pd.DataFrame({"id": np.arange(n, dtype=np.int32), "pid": np.array(pid, dtype=np.int32)})
    call("is_single_root", "is-single-root", lambda: swc_utils.is_single_root(df), naive_connected(pid), variant="cyclic" if cyclic else "acyclic")
    call("has_cyclic", "has-cyclic", lambda: swc_utils.has_cyclic(topo), cyclic)
    # the property quantifies over ANY table, forests and tables with cycles included: parents precede children iff every row
    # that has a parent carries a larger id than that parent (ids = positions here)
    call("is_sorted", "is-sorted", lambda: swc_utils.is_sorted(topo), all(p == -1 or p < i for i, p in enumerate(pid)),
         variant="single-rooted-acyclic" if (not cyclic and pid[0] == -1 and pid.count(-1) == 1) else ("cyclic" if cyclic else "forest"))
    for ex in (True, False):
        want = naive_bifurcate(pid, ex)
        try:
            with time_limit(2.0):
                got = swc_utils.is_bifurcate(topo, exclude_root=ex)
        except Exception as e:
            rep("is_bifurcate", "is-bifurcate", spec, f"exclude_root={ex}: {type(e).__name__}: {e}", want, variant="raises")
            continue
        if bool(got) != want:
            nch = [sum(1 for p in pid if p == k) for k in range(n)]
            rep("is_bifurcate", "is-bifurcate", spec, f"is_bifurcate(exclude_root={ex}) = {got}", f"{want} (children per node {nch}, nodes without parent {[i for i in range(n) if pid[i] == -1]})",
                variant=("exclude_root" if ex else "include_root") + ("/expected-true" if want else "/expected-false" + ("/tree" if not cyclic and pid.count(-1) == 1 else "")))


# ----------------------------------------------------------------------------- DSU
def dsu_ops(n):
    ops = [("union", a, b) for a in range(n) for b in range(n)]
    ops += [("find", a) for a in range(n)]
    ops += [("same", a, b) for a in range(n) for b in range(a + 1, n)]
    return ops


def run_script(n, script):
    """Replays one script on a fresh DisjointSetUnion; returns (description, observed, expected) of the first disagreement or None."""
    from swcgeom.utils.dsu import DisjointSetUnion

    d = DisjointSetUnion(n)
    label = list(range(n))
    for step, op in enumerate(script):
        bad = apply_op(d, label, op)
        if bad is None:
            bad = view_mismatch(d, label, n)
        if bad is not None:
            return (step,) + bad
    return None


def apply_op(d, label, op):
    if op[0] == "union":
        d.union_sets(op[1], op[2])
        old, new = label[op[2]], label[op[1]]
        if old != new:
            for k in range(len(label)):
                if label[k] == old:
                    label[k] = new
    elif op[0] == "find":
        r = d.find_parent(op[1])
        if not (isinstance(r, int) and 0 <= r < len(label) and label[r] == label[op[1]]):
            return (f"find_parent({op[1]}) = {r!r}", f"an element joined with {op[1]}")
    else:
        r = d.is_same_set(op[1], op[2])
        if r is not (label[op[1]] == label[op[2]]):
            return (f"is_same_set({op[1]}, {op[2]}) = {r!r}", label[op[1]] == label[op[2]])
    return None


def view_mismatch(d, label, n):
    """Compare the whole partition without disturbing the state (is_same_set compresses paths)."""
    sp, sr = list(d.element_parent), list(d.rank)
    try:
        for a in range(n):
            ra = d.find_parent(a)
            for b in range(a + 1, n):
                same = d.is_same_set(a, b)
                if same is not (label[a] == label[b]):
                    return (f"after the script is_same_set({a}, {b}) = {same!r}", label[a] == label[b])
                if (ra == d.find_parent(b)) is not (label[a] == label[b]):
                    return (f"after the script find_parent({a}) == find_parent({b}) is {ra == d.find_parent(b)}", label[a] == label[b])
    finally:
        d.element_parent, d.rank = sp, sr
    return None


def explore_dsu(ctx, rep, n, depth, sample=None, rng=None):
    """Depth-first over every script of <= depth operations (prefix-shared: the DSU state is saved/restored)."""
    from swcgeom.utils.dsu import DisjointSetUnion

    ops = dsu_ops(n)
    d = DisjointSetUnion(n)
    script = []
    failed_prefix = [False]

    def rec(level, label):
        sp, sr = list(d.element_parent), list(d.rank)
        for op in ops:
            d.element_parent, d.rank = list(sp), list(sr)
            lab = list(label)
            script.append(op)
            spec = dict(kind="dsu", n=n, script=[list(o) for o in script])
            try:
                bad = apply_op(d, lab, op)
                if bad is None:
                    bad = view_mismatch(d, lab, n)
            except Exception as e:
                bad = (f"{type(e).__name__}: {e}", "no exception")
            ctx.case("dsu-script", "%d:%s" % (n, ";".join("".join(map(str, o))[0:1] + "".join(map(str, o[1:])) for o in script)), nontrivial=any(o[0] == "union" and o[1] != o[2] for o in script))
            if bad is not None:
                rep("DisjointSetUnion." + {"union": "union_sets", "find": "find_parent", "same": "is_same_set"}[op[0]], "dsu-joined-iff-connected", spec, bad[0], bad[1])
            elif level + 1 < depth:
                rec(level + 1, lab)
            script.pop()
        d.element_parent, d.rank = sp, sr

    rec(0, list(range(n)))


# ----------------------------------------------------------------------------- reading multi-root forests
def forest_tables(n):
    """Sorted forests with node 0 a root and at least two roots."""
    for rest in itertools.product(*[range(-1, i) for i in range(1, n)]):
        pid = (-1,) + rest
        if pid.count(-1) >= 2:
            yield pid


FOREST_XYZ = [(0.0, 0.0, 0.0), (3.0, 1.0, 0.5), (1.0, 4.0, 2.0), (7.0, 2.0, 1.0), (2.5, 2.5, 6.0), (9.0, 9.0, 1.5), (4.0, 0.5, 3.5)]


def check_read(rep, spec):
    from swcgeom.core.swc_utils import read_swc

    pid, base, fix = tuple(spec["pid"]), spec["base"], spec["fix_roots"]
    n = len(pid)
    xyz, r, types = spec["xyz"], spec["r"], spec["type"]
    text = swc_text(pid, xyz, r, types, base=base)
    carrier = {False: "read_swc", "somas": "mark_roots_as_somas_", "nearest": "link_roots_to_nearest_"}[fix]
    try:
        with warnings.catch_warnings(record=True) as w, time_limit(5.0):
            warnings.simplefilter("always")
            df, _ = read_swc(io.StringIO(text), fix_roots=fix)
    except Exception as e:
        rep(carrier, "multi-root-read-succeeds", spec, f"{type(e).__name__}: {e}", "a table (a warning is allowed)", variant=type(e).__name__)
        return
    got_id, got_pid = [int(v) for v in df["id"]], [int(v) for v in df["pid"]]
    attrs_ok = (len(df) == n and got_id == list(range(n)) and [int(v) for v in df["type"]] == list(types)
                and all(abs(float(df[c][i]) - float(xyz[i][k])) < 1e-6 for k, c in enumerate("xyz") for i in range(n))
                and all(abs(float(df["r"][i]) - float(r[i])) < 1e-6 for i in range(n)))
    if fix is False:
        if got_pid != list(pid) or not attrs_ok:
            rep(carrier, "multi-root-read-succeeds", spec, f"id={got_id} pid={got_pid} type={[int(v) for v in df['type']] if len(df) == n else '?'}",
                f"id={list(range(n))} pid={list(pid)} type={list(types)} (ids re-based to 0, every root still without parent)", variant="table")
        return
    # repaired table: one root = the first, everything reaches it
    ok = got_pid.count(-1) == 1 and len(got_pid) == n and got_pid[0] == -1 and all(-1 <= p < n for p in got_pid)
    if ok:
        for i in range(n):
            j, steps = i, 0
            while j != 0 and steps <= n:
                j, steps = got_pid[j], steps + 1
            if j != 0:
                ok = False
    if not ok:
        rep(carrier, "repair-single-root-keeps-first", spec, f"pid={got_pid}", f"a single tree rooted at the first root (row 0) from pid={list(pid)}")
    lost = [i for i in range(min(n, len(got_pid))) if pid[i] != -1 and got_pid[i] != pid[i]]
    if lost or not attrs_ok:
        rep(carrier, "repair-keeps-edges-and-attributes", spec,
            f"id={got_id} pid={got_pid} type={[int(v) for v in df['type']]} x={[float(v) for v in df['x']]}",
            f"edges of pid={list(pid)} kept, type={list(types)}, coordinates and radii unchanged", variant="edges" if lost else "attributes")


def mk_read_spec(pid, base, fix, rot=0):
    n = len(pid)
    xyz = [list(FOREST_XYZ[(i + rot) % len(FOREST_XYZ)]) for i in range(n)]
    r = [round(0.5 + 0.25 * ((i + rot) % 4), 4) for i in range(n)]
    types = [1 if i == 0 else (3, 2, 4, 3, 2, 4)[(i + rot) % 6] for i in range(n)]
    return dict(kind="read", pid=list(pid), base=base, fix_roots=fix, xyz=xyz, r=r, type=types)


# ----------------------------------------------------------------------------- driver
def run(ctx):
    rep = Reporter(ctx)
    rng = random.Random(ctx.seed)
    quick = ctx.tier == "quick"
    nmax = 4 if quick else 5
    for n in range(1, nmax + 1):
        for pid in all_functions(n):
            check_table(rep, dict(kind="table", pid=list(pid)))
            ctx.case("parent-table", list(pid), nontrivial=n >= 2)
    # random tail of larger tables (forests, cycles)
    for _ in range(150 if quick else 3000):
        n = rng.randint(nmax + 1, 9)
        pid = [rng.randint(-1, n - 1) for _ in range(n)]
        if rng.random() < 0.5:  # bias towards trees / forests
            pid = [-1 if (i == 0 or rng.random() < 0.15) else rng.randrange(i) for i in range(n)]
        check_table(rep, dict(kind="table", pid=pid))
        ctx.case("parent-table-random", pid)

    # disjoint-set union: every script
    plan = [(1, 3), (2, 5), (3, 4), (4, 4)] if quick else [(1, 3), (2, 6), (3, 5), (4, 5)]
    for n, depth in plan:
        explore_dsu(ctx, rep, n, depth)
    for _ in range(300 if quick else 5000):  # longer random scripts
        n = rng.randint(3, 6)
        ops = dsu_ops(n)
        script = [rng.choice(ops) for _ in range(rng.randint(5, 12))]
        spec = dict(kind="dsu", n=n, script=[list(o) for o in script])
        try:
            bad = run_script(n, script)
        except Exception as e:
            bad = (len(script), f"{type(e).__name__}: {e}", "no exception")
        if bad is not None:
            rep("DisjointSetUnion", "dsu-joined-iff-connected", spec, f"step {bad[0]}: {bad[1]}", bad[2])
        ctx.case("dsu-script-random", spec["script"])

    # reading multi-root forests
    fmax = 4 if quick else 5
    for n in range(2, fmax + 1):
        for k, pid in enumerate(forest_tables(n)):
            for base in (0, 1, 7):
                for fix in (False, "somas", "nearest"):
                    check_read(rep, mk_read_spec(pid, base, fix, rot=k % 3))
                    ctx.case("read-forest", dict(pid=list(pid), base=base, fix=str(fix), rot=k % 3))
    for _ in range(40 if quick else 600):  # larger, not necessarily sorted forests (node 0 a root, acyclic)
        n = rng.randint(fmax + 1, 8)
        pid = [-1] + [(-1 if rng.random() < 0.3 else rng.randrange(i)) for i in range(1, n)]
        perm = [0] + rng.sample(range(1, n), n - 1)  # relabel the nodes other than the first
        inv = {old: new for new, old in enumerate(perm)}
        pid2 = [-1 if pid[perm[i]] == -1 else inv[pid[perm[i]]] for i in range(n)]
        if pid2.count(-1) < 2:
            continue
        for fix in (False, "somas", "nearest"):
            base = rng.choice([0, 1, 7, 100])
            check_read(rep, mk_read_spec(pid2, base, fix, rot=rng.randrange(3)))
            ctx.case("read-forest-random", dict(pid=pid2, base=base, fix=str(fix)))
    ctx.rule(f"every function [0,n) -> {{-1}} u [0,n), n <= {nmax}, as a parent table (every checker on every table, forests and cyclic tables included) plus random tables of up to 9 nodes; "
             f"every script of union/find/is_same_set operations for (elements, length) in {plan} with the whole partition compared after every operation, plus random scripts of 5-12 "
             f"operations on 3-6 elements; every sorted forest with <= {fmax} nodes and >= 2 roots x id base (0, 1, 7) x fix_roots (False, 'somas', 'nearest') plus random unsorted "
             "forests. Non-trivial = table with >= 2 nodes / script containing a union of two different elements.", exhaustive=False)


def replay(spec):
    class C:
        def __init__(self):
            self.v, self.notes = [], []

        def case(self, *a, **k):
            pass

        def violation(self, *a, **k):
            self.v.append(a)

    c = C()
    rep = Reporter(c)
    if spec["kind"] == "table":
        check_table(rep, spec)
    elif spec["kind"] == "dsu":
        try:
            bad = run_script(spec["n"], [tuple(o) for o in spec["script"]])
        except Exception as e:
            bad = (0, f"{type(e).__name__}: {e}", "no exception")
        if bad is not None:
            rep("DisjointSetUnion", "dsu-joined-iff-connected", spec, f"step {bad[0]}: {bad[1]}", bad[2])
    elif spec["kind"] == "read":
        check_read(rep, spec)
    for v in c.v:
        print("  still failing:", v[:2], v[3:5])
    return not c.v
