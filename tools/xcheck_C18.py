"""Cross-check of the library models in pyvc/ext_C18.py against the real numpy / pandas (run: /venv/bin/python tools/xcheck_C18.py).
Each block evaluates, on concrete random inputs, exactly the facts the model assumes."""
import random

import numpy as np
import pandas as pd

rng = random.Random(18)
N = 0


def ok(c, what):
    global N
    N += 1
    assert c, what


for _ in range(300):
    n = rng.randint(0, 9)
    a = np.array([rng.randint(-2, 4) for _ in range(n)], dtype=np.int64)
    # --- np.unique(a): strictly increasing, exactly the values that occur
    u = np.unique(a)
    ok(len(u) <= n and all(u[k] < u[k + 1] for k in range(len(u) - 1)), "unique: strictly increasing")
    ok(all(any(u[k] == a[i] for i in range(n)) for k in range(len(u))), "unique: every entry occurs in a (wit)")
    ok(all(any(u[k] == a[i] for k in range(len(u))) for i in range(n)), "unique: every a[i] is listed (pos)")
    ok((len(u) == 1) == (n >= 1 and all(a[i] == a[0] for i in range(n))), "len(unique) == 1 iff non-empty and constant")

    # --- frame idioms
    ids = list(range(5, 5 + n))
    rng.shuffle(ids)
    df = pd.DataFrame({"id": np.array(ids, dtype=np.int64), "type": 1, "x": [rng.uniform(-3, 3) for _ in range(n)], "y": [rng.uniform(-3, 3) for _ in range(n)],
                       "z": [rng.uniform(-3, 3) for _ in range(n)], "r": 1.0, "pid": np.array([rng.choice([-1, -1, 7]) for _ in range(n)], dtype=np.int64)})
    mask = df["pid"] == -1
    want = [i for i in range(n) if df["pid"].iloc[i] == -1]
    x0 = df["x"].to_numpy().copy()
    it = df[mask].iterrows()
    if want:
        first = next(it)
        ok(first[0] == want[0], "next(): the first selected row")
    else:
        try:
            next(it)
            ok(False, "next() on an empty selection must raise")
        except StopIteration:
            ok(True, "")
    if n:
        df.loc[0, "x"] = 99.0  # the selection is a COPY made before the loop
        df.loc[0, "x"] = x0[0]
    got = []
    for lab, row in it:
        got.append(int(lab))
        ok(float(row["x"]) == x0[lab], "row holds the values of its row")
        v = row[["x", "y", "z"]]
        vs = df[["x", "y", "z"]] - v
        ok(list(vs.columns) == ["x", "y", "z"] and len(vs) == n, "DataFrame - Series keeps shape / columns")
        ok(all(vs[c].iloc[j] == df[c].iloc[j] - row[c] for c in "xyz" for j in range(n)), "DataFrame - Series: column-wise minus the row's scalar")
        M = vs.to_numpy()
        ok(M.shape == (n, 3) and all(M[j, k] == vs["xyz"[k]].iloc[j] for j in range(n) for k in range(3)), "to_numpy stacks the columns in order")
        d = np.linalg.norm(M, axis=1)
        ok(d.shape == (n,) and all(d[j] >= 0 and abs(d[j] ** 2 - sum(M[j, k] ** 2 for k in range(3))) < 1e-9 for j in range(n)), "norm(axis=1)")
    ok(got == want[1:], "iterrows after next(): the remaining selected rows, labels = row positions, in order")

    # --- argmin of np.where(mask, inf, data)
    data = np.array([rng.choice([0.0, 0.5, 1.0, 2.0]) for _ in range(n)])
    m = np.array([rng.random() < 0.5 for _ in range(n)], dtype=bool)
    w = np.where(m, np.inf, data)
    if n == 0:
        try:
            w.argmin()
            ok(False, "argmin of empty must raise")
        except ValueError:
            ok(True, "")
    else:
        r = int(w.argmin())
        free = [j for j in range(n) if not m[j]]
        if free:
            ok(not m[r] and all(data[r] <= data[j] for j in free) and all(data[r] < data[j] for j in free if j < r), "argmin: first least unmasked")
        else:
            ok(r == 0, "argmin of all +inf is 0")
        ok(df["id"].iloc[r] == df["id"].to_numpy()[r], "Series.iloc is positional")
        df.loc[r, "pid"] = 123
        ok(df["pid"].to_numpy()[r] == 123 and all(df["pid"].to_numpy()[j] != 123 or j == r for j in range(n)), "df.loc[i, col] = v writes row i only")
    # --- dict(zip(ids, range(n))): last wins
    b = [rng.randint(0, 3) for _ in range(n)]
    d2 = dict(zip(b, range(n)))
    ok(all(d2[b[j]] >= j and b[d2[b[j]]] == b[j] for j in range(n)), "dict(zip(keys, range)): the last row carrying the key")
# --- int.bit_length(): 0 <= k <= |v|, k == 0 iff v == 0   (pyvc/models.py: scalar_attr)
for v in list(range(-300, 301)) + [rng.randint(-10**12, 10**12) for _ in range(300)] + [int(np.int64(rng.randint(0, 2**40))) for _ in range(50)]:
    k = v.bit_length()
    ok(0 <= k <= abs(v) and (k == 0) == (v == 0), "int.bit_length bounds")
# --- a column list with a repeated label keeps BOTH copies in pandas (the model refuses it: its columns are keyed by label)
dfr = pd.DataFrame({"x": [1.0, 2.0], "y": [3.0, 4.0]})
ok(dfr[["x", "y", "y"]].shape == (2, 3), "df[[x, y, y]] has three columns")
print("xcheck_C18: all", N, "model facts hold on the real library")
