"""Cross-check of the library models in pyvc/ext_C18.py against the real numpy / pandas (run: /venv/bin/python tools/xcheck_C18.py).
Each block evaluates, on concrete random inputs, exactly the facts the model assumes."""
import random

import numpy as np
import pandas as pd

rng = random.Random(18)
N = 0


def ok(c, what):
    global N
    N += 1
    assert c, what


for _ in range(300):
    n = rng.randint(0, 9)
    a = np.array([rng.randint(-2, 4) for _ in range(n)], dtype=np.int64)
    # --- np.unique(a): strictly increasing, exactly the values that occur
    u = np.unique(a)
    ok(len(u) <= n and all(u[k] < u[k + 1] for k in range(len(u) - 1)), "unique: strictly increasing")
    ok(all(any(u[k] == a[i] for i in range(n)) for k in range(len(u))), "unique: every entry occurs in a (wit)")
    ok(all(any(u[k] == a[i] for k in range(len(u))) for i in range(n)), "unique: every a[i] is listed (pos)")
    ok((len(u) == 1) == (n >= 1 and all(a[i] == a[0] for i in range(n))), "len(unique) == 1 iff non-empty and constant")

    # --- frame idioms
    ids = list(range(5, 5 + n))
    rng.shuffle(ids)
    df = pd.DataFrame({"id": np.array(ids, dtype=np.int64), "type": 1, "x": [rng.uniform(-3, 3) for _ in range(n)], "y": [rng.uniform(-3, 3) for _ in range(n)],
                       "z": [rng.uniform(-3, 3) for _ in range(n)], "r": 1.0, "pid": np.array([rng.choice([-1, -1, 7]) for _ in range(n)], dtype=np.int64)})
    mask = df["pid"] == -1
    want = [i for i in range(n) if df["pid"].iloc[i] == -1]
    x0 = df["x"].to_numpy().copy()
    it = df[mask].iterrows()
    if want:
        first = next(it)
        ok(first[0] == want[0], "next(): the first selected row")
    else:
        try:
            next(it)
            ok(False, "next() on an empty selection must raise")
        except StopIteration:
            ok(True, "")
    if n:
        df.loc[0, "x"] = 99.0  # the selection is a COPY made before the loop
        df.loc[0, "x"] = x0[0]
    got = []
    for lab, row in it:
        got.append(int(lab))
        ok(float(row["x"]) == x0[lab], "row holds the values of its row")
        v = row[["x", "y", "z"]]
        vs = df[["x", "y", "z"]] - v
        ok(list(vs.columns) == ["x", "y", "z"] and len(vs) == n, "DataFrame - Series keeps shape / columns")
        ok(all(vs[c].iloc[j] == df[c].iloc[j] - row[c] for c in "xyz" for j in range(n)), "DataFrame - Series: column-wise minus the row's scalar")
        M = vs.to_numpy()
        ok(M.shape == (n, 3) and all(M[j, k] == vs["xyz"[k]].iloc[j] for j in range(n) for k in range(3)), "to_numpy stacks the columns in order")
        d = np.linalg.norm(M, axis=1)
        ok(d.shape == (n,) and all(d[j] >= 0 and abs(d[j] ** 2 - sum(M[j, k] ** 2 for k in range(3))) < 1e-9 for j in range(n)), "norm(axis=1)")
    ok(got == want[1:], "iterrows after next(): the remaining selected rows, labels = row positions, in order")

    # --- argmin of np.where(mask, inf, data)
    data = np.array([rng.choice([0.0, 0.5, 1.0, 2.0]) for _ in range(n)])
    m = np.array([rng.random() < 0.5 for _ in range(n)], dtype=bool)
    w = np.where(m, np.inf, data)
    if n == 0:
        try:
            w.argmin()
            ok(False, "argmin of empty must raise")
        except ValueError:
            ok(True, "")
    else:
        r = int(w.argmin())
        free = [j for j in range(n) if not m[j]]
        if free:
            ok(not m[r] and all(data[r] <= data[j] for j in free) and all(data[r] < data[j] for j in free if j < r), "argmin: first least unmasked")
        else:
            ok(r == 0, "argmin of all +inf is 0")
        ok(df["id"].iloc[r] == df["id"].to_numpy()[r], "Series.iloc is positional")
        df.loc[r, "pid"] = 123
        ok(df["pid"].to_numpy()[r] == 123 and all(df["pid"].to_numpy()[j] != 123 or j == r for j in range(n)), "df.loc[i, col] = v writes row i only")
    # --- dict(zip(ids, range(n))): last wins
    b = [rng.randint(0, 3) for _ in range(n)]
    d2 = dict(zip(b, range(n)))
    ok(all(d2[b[j]] >= j and b[d2[b[j]]] == b[j] for j in range(n)), "dict(zip(keys, range)): the last row carrying the key")
# --- int.bit_length(): 0 <= k <= |v|, k == 0 iff v == 0   (pyvc/models.py: scalar_attr)
for v in list(range(-300, 301)) + [rng.randint(-10**12, 10**12) for _ in range(300)] + [int(np.int64(rng.randint(0, 2**40))) for _ in range(50)]:
    k = v.bit_length()
    ok(0 <= k <= abs(v) and (k == 0) == (v == 0), "int.bit_length bounds")
# --- a column list with a repeated label keeps BOTH copies in pandas (the model refuses it: its columns are keyed by label)
dfr = pd.DataFrame({"x": [1.0, 2.0], "y": [3.0, 4.0]})
ok(dfr[["x", "y", "y"]].shape == (2, 3), "df[[x, y, y]] has three columns")
# --- fourth session: the counting models of pyvc/ext_C18.py (np.unique with flags, occ, setdiff1d, isin, bincount, add.at, max(initial=),
#     a[mask] written out by ranks, the filter-count fact).  Every `ok` is one fact the model assumes, evaluated on the real numpy.
def occ(a, v, i):
    return sum(1 for j in range(i) if a[j] == v)


for _ in range(400):
    n = rng.randint(0, 8)
    a = np.array([rng.randint(-2, 4) for _ in range(n)], dtype=rng.choice([np.int64, np.int32]))
    u, idx, inv, cnt = np.unique(a, return_index=True, return_inverse=True, return_counts=True)
    m = len(u)
    ok(0 <= m <= n and (m == 0) == (n == 0), "unique: 0 <= m <= n, empty iff empty")
    ok(len(idx) == m and len(cnt) == m and len(inv) == n, "unique: lengths of index / counts / inverse")
    ok(all(u[k] < u[k + 1] for k in range(m - 1)), "unique: adjacent entries increase")
    ok(all(0 <= idx[k] < n and a[idx[k]] == u[k] and all(a[j] != u[k] for j in range(idx[k])) for k in range(m)), "unique: index = FIRST position of the value")
    ok(all(0 <= inv[i] < m and u[inv[i]] == a[i] for i in range(n)), "unique: inverse = position of a[i] in out")
    ok(all(cnt[k] == occ(a, u[k], n) and cnt[k] >= 1 for k in range(m)), "unique: counts[k] = number of positions holding out[k], >= 1")
    ok(np.array_equal(np.unique(a, return_counts=True)[1], cnt) and np.array_equal(np.unique(a, return_inverse=True)[1], inv), "unique: flags are independent")
    # occ facts
    for v in range(-3, 6):
        ok(occ(a, v, 0) == 0 and all(occ(a, v, i + 1) == occ(a, v, i) + (1 if a[i] == v else 0) for i in range(n)), "occ: recursion")
        ok(all(0 <= occ(a, v, i) <= i for i in range(n + 1)), "occ: bounds")
        ok(all((occ(a, v, i) > 0) == any(a[j] == v for j in range(i)) for i in range(n + 1)), "occ: positive iff some position holds v")
    # a[mask] by ranks (the written-out form of the filter facts)
    mk = np.array([rng.random() < 0.5 for _ in range(n)], dtype=bool)
    f = a[mk]
    ok(len(f) == int(mk.sum()), "a[mask]: length = number of set positions")
    ok(all(f[int(mk[:q].sum())] == a[q] for q in range(n) if mk[q]), "a[mask]: the element of position q lands at rank(q) = number of set positions before q")
    # filter-count: a value all of whose occurrences are selected keeps its count (else some occurrence is not selected)
    for v in range(-3, 6):
        ok(occ(f, v, len(f)) == occ(a, v, n) or any(a[w] == v and not mk[w] for w in range(n)), "filter-count")
        ok(occ(f, v, len(f)) == sum(1 for q in range(n) if mk[q] and a[q] == v), "filter-count: count in the selection = positions that are set and hold v")
    # setdiff1d / isin
    b = np.array([rng.randint(-2, 4) for _ in range(rng.randint(0, 5))], dtype=np.int64)
    d = np.setdiff1d(a, b)
    ok(len(d) <= n and all(d[k] < d[k + 1] for k in range(len(d) - 1)), "setdiff1d: strictly increasing, no longer than a")
    ok(all(any(d[k] == a[i] for i in range(n)) and all(d[k] != b[j] for j in range(len(b))) for k in range(len(d))), "setdiff1d: entries are values of a that are not in b")
    ok(all(any(a[i] == b[j] for j in range(len(b))) or any(d[k] == a[i] for k in range(len(d))) for i in range(n)), "setdiff1d: every value of a is in b or listed")
    ii = np.isin(a, b)
    ok(len(ii) == n and all(bool(ii[i]) == any(a[i] == b[j] for j in range(len(b))) for i in range(n)), "isin: elementwise membership")
    ok(np.array_equal(np.isin(a, b, invert=True), ~ii), "isin(invert=True) negates")
    # bincount / add.at on non-negative data
    x = np.array([rng.randint(0, 5) for _ in range(n)], dtype=np.int64)
    ml = rng.randint(0, 7)
    bc = np.bincount(x, minlength=ml)
    L = len(bc)
    ok(L >= ml and all(x[q] < L for q in range(n)) and (L == ml or any(x[q] + 1 == L for q in range(n))), "bincount: length = max(minlength, max(x) + 1)")
    ok(all(bc[v] == occ(x, v, n) for v in range(L)), "bincount: entry v = number of positions holding v")
    if n and (a < 0).any():
        try:
            np.bincount(a)
            ok(False, "bincount of negative entries must raise")
        except ValueError:
            ok(True, "")
    acc = np.array([rng.randint(0, 3) for _ in range(6)], dtype=np.int64)
    acc0 = acc.copy()
    c = rng.randint(1, 3)
    np.add.at(acc, x, c)
    ok(all(acc[v] == acc0[v] + c * occ(x, v, n) for v in range(6)), "np.add.at: a[v] grows by c times the number of positions of idx holding v")
    try:
        np.add.at(acc0.copy(), np.array([6]), 1)
        ok(False, "np.add.at out of bounds must raise")
    except IndexError:
        ok(True, "")
    # max with initial
    r = np.max(a, initial=0)
    ok(r >= 0 and all(r >= a[q] for q in range(n)) and (r == 0 or any(r == a[q] for q in range(n))), "np.max(a, initial=0)")
    ok(a.max(initial=-7) == (max(list(a) + [-7])), "ndarray.max(initial=)")
    if n == 0:
        try:
            a.max()
            ok(False, "max of an empty array without initial must raise")
        except ValueError:
            ok(True, "")
    ok(bool((a > 2).any()) == any(a[q] > 2 for q in range(n)) and bool((a > 2).all()) == all(a[q] > 2 for q in range(n)), "any / all")
print("xcheck_C18: all", N, "model facts hold on the real library")
