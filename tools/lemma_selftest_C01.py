"""python tools/lemma_selftest_C01.py -- the C01 round-trip lemma must BREAK when one of the four contracts it composes is broken,
and must not prove a false conclusion.  Prints, per tampering, the lemma obligations that are no longer discharged."""
import os
import sys

HERE = os.path.dirname(os.path.dirname(os.path.abspath(__file__)))
sys.path.insert(0, HERE)
sys.path.insert(0, os.environ.get("VERIF_REPO", "/repo"))
import z3  # noqa: E402

import contracts.C01 as C  # noqa: E402
from pyvc.engine import Oblig  # noqa: E402
from pyvc.verify import discharge_all  # noqa: E402
from pyvc.values import zint  # noqa: E402


def run(tamper=None, extra_goal=None):
    try:
        ls = C.roundtrip_lemma(tamper)
    except KeyError as e:
        return ["<lemma cannot be stated: %s>" % e]
    obs = [Oblig(l, list(h), g, "lemma") for l, h, g in ls if not l.startswith("cover:")]
    res = discharge_all(obs, 5000, workers=4)
    return sorted(n for n, rs in res.items() if not all(r["verdict"] == "unsat" for r in rs))


def t_no_root_guard(cw, cp, cr, cb):
    orig = C.expected_cell

    def bad(col, cols, idx, off):
        if col == "pid":
            return orig("id", {"id": cols["pid"]}, idx, off)  # parent always shifted: the root marker -1 becomes off-1
        return orig(col, cols, idx, off)

    C.expected_cell = bad
    t_no_root_guard.undo = lambda: setattr(C, "expected_cell", orig)


def t_three_decimals(cw, cp, cr, cb):
    orig = C.expected_cell

    def bad(col, cols, idx, off):
        a = orig(col, cols, idx, off)
        return ("fmt", ".3f", a[2]) if a[1] == ".4f" else a

    C.expected_cell = bad
    t_three_decimals.undo = lambda: setattr(C, "expected_cell", orig)


def t_reset_keeps_ids(cw, cp, cr, cb):
    def ids_kept(E, vars, old):
        i = z3.Int("ti")
        d1, d0 = vars["df"], old["df"]
        return z3.ForAll([i], z3.Implies(z3.And(i >= 0, i < zint(d0.n)), z3.Select(d1.cols["id"].arr, i) == z3.Select(d0.cols["id"].arr, i)))

    cr.ensures = [("ids-rebased-on-first-root", ids_kept) if (isinstance(c, tuple) and c[0] == "ids-rebased-on-first-root") else c for c in cr.ensures]


def t_reset_says_nothing_about_attributes(cw, cp, cr, cb):
    cr.ensures = [c for c in cr.ensures if not (isinstance(c, tuple) and c[0] == "attributes-untouched")]


def t_parse_says_nothing_about_fields(cw, cp, cr, cb):
    cp.ensures = [(c[0], (lambda E, v, o: True)) if c[0] == "every-field-is-the-conversion-of-its-group-in-file-order" else c for c in cp.ensures]


def t_build_swaps_x_and_y(cw, cp, cr, cb):
    lab = "n-nodes-is-the-number-of-rows-and-every-SWC-column-holds-the-frame's-values-in-row-order"
    orig = dict((c[0], c[1]) for c in cb.ensures)[lab]

    def swapped(E, v, o):
        nd = v["result"].fields["ndata"].items
        nd["x"], nd["y"] = nd["y"], nd["x"]
        try:
            return orig(E, v, o)
        finally:
            nd["x"], nd["y"] = nd["y"], nd["x"]

    cb.ensures = [(c[0], swapped) if c[0] == lab else c for c in cb.ensures]


def t_comment_line_keeps_leading_blanks(cw, cp, cr, cb):
    pass


def _more_keeps_blanks(c_any, c_like):
    from pyvc import strmodel as STR
    from pyvc.models import SymStr

    def clause(E, v, new, k):  # "the line is '# ' + the comment AS IT IS + newline"
        z = v["given_comments"].get(k).z
        return STR.as_id(E, new[0]) == STR.as_id(E, SymStr(["# ", STR.AbsStr(z), "\n"]))

    c_any.loops[0]["yields"] = [(c_any.loops[0]["yields"][0][0], clause)]


t_comment_line_keeps_leading_blanks.more = _more_keeps_blanks


def t_export_drops_one_comment(cw, cp, cr, cb):
    pass


def _more_drops_one(c_any, c_like):
    lab = "comments-passed-are-the-optional-source-header-then-the-tree's-own-comments-and-nothing-else"
    orig = dict((c[0], c[1]) for c in c_like.ensures)[lab]

    def weaker(E, v, o):  # says only that the header entries are passed: nothing about the tree's own comments
        a = [x for nm, x in E.call_log if nm == "to_swc"][0]
        return zint(a["comments"].n) >= 0

    c_like.ensures = [(c[0], weaker) if c[0] == lab else c for c in c_like.ensures]


t_export_drops_one_comment.more = _more_drops_one


def t_parse_says_nothing_about_comments(cw, cp, cr, cb):
    lab = "comments-are-the-comment-lines-minus-the-column-header-in-order"
    cp.ensures = [(c[0], (lambda E, v, o: True)) if c[0] == lab else c for c in cp.ensures]


def t_reader_takes_the_first_comment_line_for_the_column_header(cw, cp, cr, cb):
    # the context that makes a comment line THE column header, tampered: the first comment line of the file instead of the last one in front of the rows
    C02 = C._import_quietly("contracts.C02")
    orig = C02.header_ordinal
    C02.header_ordinal = lambda f: z3.IntVal(0)
    t_reader_takes_the_first_comment_line_for_the_column_header.undo = lambda: setattr(C02, "header_ordinal", orig)


def t_reader_drops_every_comment_that_starts_like_the_column_header(cw, cp, cr, cb):
    # the reader before the repair: kept = comment lines whose text does not start like the header, wherever they stand (context free)
    C02 = C._import_quietly("contracts.C02")
    orig = C02.ghost_axioms
    from pyvc.values import fresh_name

    def old_axioms(E, f, n_extra, names):
        k = z3.Int(fresh_name("gk"))
        row = lambda kk: C02.is_row(n_extra, C02.LINE(f, kk))
        kept = lambda kk: z3.And(C02.is_comment(n_extra, C02.LINE(f, kk)), z3.Not(C02.starts_like_header(names, C02.LINE(f, kk))))
        hash_ = lambda kk: C02.is_comment(n_extra, C02.LINE(f, kk))
        E.assume(C02.NL(f) >= 0)
        for CNT, ENUM, pred in ((C02.RCNT, C02.RLINE, row), (C02.CCNT, C02.CLINE, kept), (C02.ACNT, C02.ALINE, hash_)):
            E.assume(CNT(f, 0) == 0)
            E.assume(z3.ForAll([k], z3.Implies(k >= 0, CNT(f, k + 1) == CNT(f, k) + z3.If(pred(k), 1, 0)), patterns=[CNT(f, k + 1)]))
            E.assume(z3.ForAll([k], z3.Implies(k >= 0, z3.And(CNT(f, k) >= 0, CNT(f, k) <= k)), patterns=[CNT(f, k)]))
            E.assume(z3.ForAll([k], z3.Implies(z3.And(k >= 0, pred(k)), ENUM(f, CNT(f, k)) == k), patterns=[CNT(f, k)]))

    C02.ghost_axioms = old_axioms
    t_reader_drops_every_comment_that_starts_like_the_column_header.undo = lambda: setattr(C02, "ghost_axioms", orig)


if __name__ == "__main__":
    if len(sys.argv) == 1:
        print("unchanged contracts      ->", run() or "all discharged")
    for t in (t_no_root_guard, t_three_decimals, t_reset_keeps_ids, t_reset_says_nothing_about_attributes, t_parse_says_nothing_about_fields, t_build_swaps_x_and_y,
              t_comment_line_keeps_leading_blanks, t_export_drops_one_comment, t_parse_says_nothing_about_comments,
              t_reader_takes_the_first_comment_line_for_the_column_header, t_reader_drops_every_comment_that_starts_like_the_column_header):
        if len(sys.argv) > 1 and not any(a in t.__name__ for a in sys.argv[1:]):
            continue
        r = run(t)
        if hasattr(t, "undo"):
            t.undo()
        print(f"{t.__name__[2:]:40s} ->", r or "ALL DISCHARGED (lemma insensitive!)")
