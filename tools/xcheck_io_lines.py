"""Cross-check of the line-reading io model (pyvc/ext_C01.py, IO_LINES) against CPython's io module.

    python tools/xcheck_io_lines.py [cases]

For random texts (LF / CRLF, blank lines, with and without a final line break, ASCII and non-ASCII) behind the three handle kinds the
reader meets (io.StringIO, io.TextIOWrapper over io.BytesIO, open(path)) the claims of the model are evaluated on the real objects:

  L  := list(iteration)                                   the lines; none of them is empty; "".join(L) is the text
  readline() x (len(L) + 1)           == L + [""]          next(f) likewise, StopIteration at the end
  readlines(), readlines(-1 | 0 | None), list(f) == L
  readlines(hint > 0)                 is a NON-EMPTY PREFIX of L, of at most `hint` + 1 lines, the shortest whose size EXCEEDS hint;
                                      for a text longer than hint it is a PROPER prefix (this is what makes `for line in
                                      f.readlines(BUFFER)` lose rows); the next readlines() continues where it stopped
  read().splitlines(keepends=True)    == L   -- for texts without the separators only str.splitlines knows (\\v \\f \\x1c-\\x1e \\x85
                                      \\u2028 \\u2029, a lone \\r on a non-translating handle); with them it is NOT (reported, assumption of the model)
  read().splitlines()                 == [l without its line break];  read().split("\\n") likewise + one empty piece behind a final break
  itertools.islice(f, k)              == L[:k], and the handle goes on with L[k:];  enumerate(f, s) numbers from s
  a `for` loop left by `break` after item j leaves the handle at line j + 1
  read(n).splitlines(True)            == some complete lines L[:p] (+ one incomplete piece that is a proper prefix of L[p])
  undecodable bytes: readlines() / read() raise UnicodeDecodeError iff reading line by line does (at some line)
"""
import io
import itertools
import os
import random
import sys
import tempfile

BAD = []


def claim(ok, what, detail=""):
    if not ok:
        BAD.append((what, detail))


def texts(rng, cases):
    words = ["1 1 0 0 0 1 -1", "2 3 1.5 2 0 1 1", "# comment", "#", "", " ", "\t", "x", "# café µm", "12 3 1.0 abc 3.0 1.0 5"]
    for c in range(cases):
        n = rng.choice([0, 1, 2, 3, 5, 17, 200, 3000])
        eol = rng.choice(["\n", "\r\n"])
        body = eol.join(rng.choice(words) for _ in range(n))
        if n and rng.random() < 0.7:
            body += eol
        yield body


def handles(text, tmp):
    data = text.encode("utf-8")
    yield "StringIO", lambda: io.StringIO(text)
    yield "TextIOWrapper(BytesIO)", lambda: io.TextIOWrapper(io.BytesIO(data), encoding="utf-8")
    p = os.path.join(tmp, "t.txt")
    with open(p, "wb") as f:
        f.write(data)
    yield "open(path)", lambda: open(p, "r", encoding="utf-8")


def chomp(l):
    return l[:-2] if l.endswith("\r\n") else (l[:-1] if l.endswith(("\n", "\r")) else l)


def check_text(text, tmp, rng):
    for kind, mk in handles(text, tmp):
        with mk() as f:
            L = list(f)
        claim(all(l != "" for l in L), "a line is never empty", kind)
        # StringIO does not translate, TextIOWrapper / open translate "\r\n" to "\n": the lines are what THIS handle delivers
        whole = "".join(L)
        with mk() as f:
            got = [f.readline() for _ in range(len(L) + 1)]
        claim(got == L + [""], "readline delivers the lines then ''", kind)
        with mk() as f:
            got = [next(f) for _ in range(len(L))]
            try:
                next(f)
                claim(False, "next raises StopIteration at the end", kind)
            except StopIteration:
                pass
        claim(got == L, "next delivers the lines", kind)
        for arg in ((), (-1,), (0,), (None,)):
            with mk() as f:
                claim(f.readlines(*arg) == L, f"readlines{arg} = all lines", kind)
        for hint in (1, 2, 7, 64, 1000, 8192, 1 << 20):
            with mk() as f:
                P = f.readlines(hint)
                rest = f.readlines()
            claim(P == L[: len(P)] and P + rest == L, "readlines(hint) is a prefix and the handle goes on behind it", f"{kind} hint={hint}")
            claim((len(P) >= 1) == (len(L) >= 1) and len(P) <= hint + 1, "readlines(hint): non-empty, at most hint + 1 lines", f"{kind} hint={hint} got={len(P)}")
            sizes = list(itertools.accumulate(len(l) for l in L))
            want = next((j + 1 for j, sz in enumerate(sizes) if sz > hint), len(L))
            claim(len(P) == want, "readlines(hint) = shortest prefix whose size exceeds hint", f"{kind} hint={hint} got={len(P)} want={want}")
            if len(whole) > hint + max((len(l) for l in L), default=0):
                claim(len(P) < len(L), "readlines(hint) of a longer text is a PROPER prefix", f"{kind} hint={hint}")
        with mk() as f:
            t = f.read()
        claim(t == whole, "read() is the concatenation of the lines", kind)
        exotic = any(ch in whole for ch in "\v\f\x1c\x1d\x1e\x85  ") or any("\r" in chomp(l) or l.endswith("\r") for l in L)
        if not exotic:
            claim(t.splitlines(keepends=True) == L, "read().splitlines(keepends=True) = the lines", kind)
            claim(t.splitlines() == [chomp(l) for l in L], "read().splitlines() = the lines without their break", kind)
            if "\r" not in whole:
                pieces = [chomp(l) for l in L] + ([""] if (not L or L[-1].endswith("\n")) else [])
                claim(t.split("\n") == pieces, "read().split('\\n') = chomped lines (+ '' behind a final break)", kind)
        for k in (0, 1, 2, len(L), len(L) + 3):
            with mk() as f:
                a = list(itertools.islice(f, k))
                b = list(f)
            claim(a == L[:k] and b == L[k:], "islice(f, k) = the next k lines, the handle goes on", f"{kind} k={k}")
        with mk() as f:
            claim(list(enumerate(f, 5)) == list(zip(range(5, 5 + len(L)), L)), "enumerate(f, start)", kind)
        if len(L) >= 3:
            j = rng.randrange(len(L) - 1)
            with mk() as f:
                for i, l in enumerate(f):
                    if i == j:
                        break
                claim(f.readline() == L[j + 1], "after a break behind item j the handle stands at line j + 1", f"{kind} j={j}")
        for n in (1, 5, 40, 4096):
            with mk() as f:
                parts = f.read(n).splitlines(keepends=True)
            if not exotic and L:
                full = [x for x in parts if x in (L[: len(parts)])]
                p = len(parts) - 1 if parts and parts[-1] != L[len(parts) - 1] else len(parts)
                ok = parts[:p] == L[:p] and (p == len(parts) or (L[p].startswith(parts[p]) and parts[p] != L[p]))
                claim(ok, "read(n).splitlines(True) = complete lines + at most one incomplete piece", f"{kind} n={n}")


def check_decode(rng, tmp):
    body = "".join(f"{i + 1} 3 {i}.5 0 0 1 {i}\n# c{i}\n" for i in range(3000)).encode("utf-8")
    for off in (0, 10, 5000, 8191, 8192, 20000, len(body) - 3):
        data = body[:off] + b"\xff\xfe" + body[off:]
        for kind, mk in (("TextIOWrapper(BytesIO)", lambda: io.TextIOWrapper(io.BytesIO(data), encoding="utf-8")),):
            def outcome(fn):
                try:
                    with mk() as f:
                        fn(f)
                    return "ok"
                except UnicodeDecodeError:
                    return "UnicodeDecodeError"
            a = outcome(lambda f: [None for _ in f])
            claim(a == "UnicodeDecodeError", "line-by-line reading of undecodable bytes raises", f"off={off}")
            claim(outcome(lambda f: f.readlines()) == a, "readlines() raises iff line-by-line reading does", f"off={off}")
            claim(outcome(lambda f: f.read()) == a, "read() raises iff line-by-line reading does", f"off={off}")
            # a prefix read stops before the bad bytes when they are far enough behind it
            if off >= 20000:
                claim(outcome(lambda f: f.readlines(100)) == "ok", "readlines(hint) does not look at lines far behind its prefix", f"off={off}")


def exotic_difference():
    """the assumption of the splitlines clause: separators only str.splitlines knows"""
    found = []
    for sep in "\v\f\x1c\x1d\x1e\x85  ":
        t = f"# a{sep}b\n1 1 0 0 0 1 -1\n"
        if io.StringIO(t).readlines() != t.splitlines(keepends=True):
            found.append(repr(sep))
    t = "# a\rb\n"
    if io.StringIO(t).readlines() != t.splitlines(keepends=True):
        found.append("lone \\r (StringIO)")
    return found


def main():
    cases = int(sys.argv[1]) if len(sys.argv) > 1 else 60
    rng = random.Random(2)
    tmp = tempfile.mkdtemp(prefix="xcheck_io_")
    try:
        n = 0
        for text in texts(rng, cases):
            check_text(text, tmp, rng)
            n += 1
        check_text("", tmp, rng)
        check_text("1 1 0 0 0 1 -1", tmp, rng)
        check_text("x" * 5000 + "\n" + "y\n" * 3, tmp, rng)
        check_decode(rng, tmp)
    finally:
        import shutil

        shutil.rmtree(tmp, ignore_errors=True)
    diff = exotic_difference()
    print(f"xcheck_io_lines: {n + 3} texts x 3 handle kinds; mismatches: {len(BAD)}")
    for what, detail in BAD[:20]:
        print("  MISMATCH", what, detail)
    print("  (assumption of the splitlines clause) read().splitlines(True) differs from the handle's lines for texts containing:", ", ".join(diff))
    return 1 if BAD else 0


if __name__ == "__main__":
    sys.exit(main())
