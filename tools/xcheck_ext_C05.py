"""Cross-check of the order models of pyvc/ext_C05.py (min / max / all / any / argsort / sort / searchsorted on 1-D arrays of SYMBOLIC
length) against numpy on random concrete inputs.

Run:  /verif/.venv/bin/python tools/xcheck_ext_C05.py [cases=200]      (exit 0 = every model agrees with numpy)

The real model functions run on a pyvc engine over arrays of symbolic length whose length and cells are pinned to the numbers of the
case.  Two kinds of comparison, by asking z3 about the resulting path condition:
  * DETERMINED results (min, max, all, any, np.sort, stable argsort, argsort of distinct keys, searchsorted over sorted keys with and without
    a sorter, left and right, scalar and vector needles): the path condition must admit NO value other than numpy's   (entailment);
  * results the model deliberately leaves OPEN (unstable argsort with ties, searchsorted over unsorted keys): numpy's answer must be
    ADMITTED by the path condition (consistency -- the model never excludes what numpy really does), and the facts the model does state
    (permutation, non-decreasing keys, 0 <= r <= n) must be entailed.
Exceptions: min / max of an empty array raise ValueError in numpy and in the model.
"""
import os
import random
import sys

sys.path.insert(0, os.path.dirname(os.path.dirname(os.path.abspath(__file__))))
import numpy as np
import z3

from pyvc import ext_C05 as X
from pyvc.engine import ProgExc
from pyvc.spec import Registry
from pyvc.values import SArr, Sym
from pyvc.verify import Verifier

bad = 0
M = X.MODELS


def engine():
    E = Verifier(Registry(), "C05")
    E.cur_key = "xcheck:models"
    E.models = M
    return E


def sym_array(E, vals, name, kind="int"):
    a = SArr.fresh(kind, name=name)
    E.assume(a.nz() == len(vals))
    for i, x in enumerate(vals):
        E.assume(z3.Select(a.arr, i) == (bool(x) if kind == "bool" else int(x)))
    return a


inconclusive = 0


def check(E, extra):
    """sat / unsat; an `unknown` (time limit on a loaded machine) is retried once with a long limit and then counted as INCONCLUSIVE --
    it is reported, never taken for agreement or disagreement (the caller sees the verdict it hoped for)"""
    global inconclusive
    for limit in (20000, 120000):
        s = z3.Solver()
        s.set("timeout", limit)
        s.add(*E.pc)
        s.add(extra)
        r = s.check()
        if r != z3.unknown:
            return r
    inconclusive += 1
    return None


def mismatch(what):
    global bad
    bad += 1
    print("MISMATCH", what)


def entails_array(E, out, want, what):
    diff = [out.nz() != len(want)] + [z3.Select(out.arr, i) != int(x) for i, x in enumerate(want)]
    if check(E, z3.Or(*diff)) == z3.sat:
        mismatch(f"{what}: model admits a result other than numpy's {list(want)}")


def admits_array(E, out, want, what):
    same = [out.nz() == len(want)] + [z3.Select(out.arr, i) == int(x) for i, x in enumerate(want)]
    if check(E, z3.And(*same)) == z3.unsat:
        mismatch(f"{what}: model EXCLUDES numpy's result {list(want)}")


def entails_scalar(E, got, want, what):
    z = got.z if isinstance(got, Sym) else z3.IntVal(int(got))
    if check(E, z != (z3.BoolVal(bool(want)) if isinstance(want, (bool, np.bool_)) else int(want))) == z3.sat:
        mismatch(f"{what}: model admits a value other than numpy's {want}")


def main():
    cases = int(sys.argv[1]) if len(sys.argv) > 1 else 200
    rng = random.Random(5)
    for _ in range(cases):
        n = rng.randint(0, 6)
        v = [rng.randint(-4, 6) for _ in range(n)]                      # with ties
        d = rng.sample(range(-9, 20), n)                                 # pairwise distinct (node ids)
        needles = [rng.randint(-6, 8) for _ in range(rng.randint(0, 4))] + (rng.sample(d, min(2, n)) if n else [])
        # ---- min / max
        for name, npf in (("min", np.min), ("max", np.max)):
            for as_method in (False, True):
                E = engine()
                a = sym_array(E, v, "v")
                try:
                    got = M.method_of(E, a, name).model(E, a, [], {}) if as_method else M.lookup_model(npf)(E, [a], {})
                except ProgExc as e:
                    if n != 0 or e.cls is not ValueError:
                        mismatch(f"{name} raises {e.cls.__name__} on {v}")
                    continue
                if n == 0:
                    mismatch(f"{name} of an empty array should raise")
                else:
                    entails_scalar(E, got, npf(np.array(v)), f"{name} {v}")
        # ---- all / any (bool and int arrays)
        for name, npf in (("all", np.all), ("any", np.any)):
            bvals = [rng.random() < 0.6 for _ in range(n)]
            E = engine()
            entails_scalar(E, M.lookup_model(npf)(E, [sym_array(E, bvals, "b", "bool")], {}), bool(npf(np.array(bvals, dtype=bool))), f"np.{name} {bvals}")
            E = engine()
            entails_scalar(E, M.lookup_model(npf)(E, [sym_array(E, v, "v")], {}), bool(npf(np.array(v))), f"np.{name} {v}")
        # ---- argsort: stable (determined), distinct keys (determined), default with ties (open but admitted)
        E = engine()
        entails_array(E, M.lookup_model(np.argsort)(E, [sym_array(E, v, "v")], {"kind": "stable"}), np.argsort(np.array(v, dtype=int), kind="stable"), f"argsort stable {v}")
        E = engine()
        entails_array(E, M.lookup_model(np.argsort)(E, [sym_array(E, d, "d")], {}), np.argsort(np.array(d, dtype=int)), f"argsort distinct {d}")
        E = engine()
        a = sym_array(E, v, "v")
        o = M.method_of(E, a, "argsort").model(E, a, [], {})
        admits_array(E, o, np.array(v, dtype=int).argsort(), f"argsort default {v}")
        k = z3.Int("k")
        perm_sorted = z3.And(o.nz() == n, *[z3.And(z3.Select(o.arr, i) >= 0, z3.Select(o.arr, i) < n) for i in range(n)],
                             *[z3.Select(o.arr, i) != z3.Select(o.arr, j) for i in range(n) for j in range(i)],
                             *[z3.Select(a.arr, z3.Select(o.arr, i)) <= z3.Select(a.arr, z3.Select(o.arr, i + 1)) for i in range(n - 1)])
        if check(E, z3.Not(perm_sorted)) == z3.sat:
            mismatch(f"argsort default {v}: permutation / sortedness not entailed")
        # ---- np.sort
        E = engine()
        entails_array(E, M.lookup_model(np.sort)(E, [sym_array(E, v, "v")], {}), np.sort(np.array(v, dtype=int)), f"sort {v}")
        # ---- searchsorted over SORTED keys: determined (vector and scalar needles, both sides)
        sv = sorted(v)
        for side in ("left", "right"):
            E = engine()
            entails_array(E, M.lookup_model(np.searchsorted)(E, [sym_array(E, sv, "a"), sym_array(E, needles, "x")], {"side": side}),
                          np.searchsorted(np.array(sv, dtype=int), np.array(needles, dtype=int), side=side), f"searchsorted {side} {sv} {needles}")
            if needles:
                E = engine()
                a = sym_array(E, sv, "a")
                got = M.method_of(E, a, "searchsorted").model(E, a, [needles[0]], {"side": side})
                entails_scalar(E, got, np.searchsorted(np.array(sv, dtype=int), needles[0], side=side), f"searchsorted scalar {side} {sv} {needles[0]}")
            # with a sorter (argsort of the unsorted keys, computed by numpy and by the model)
            E = engine()
            order = np.argsort(np.array(v, dtype=int), kind="stable")
            entails_array(E, M.lookup_model(np.searchsorted)(E, [sym_array(E, v, "a"), sym_array(E, needles, "x")], {"side": side, "sorter": sym_array(E, order, "o")}),
                          np.searchsorted(np.array(v, dtype=int), np.array(needles, dtype=int), side=side, sorter=order), f"searchsorted sorter {side} {v} {needles}")
            E = engine()
            a = sym_array(E, d, "a")
            so = M.lookup_model(np.argsort)(E, [a], {})
            entails_array(E, M.lookup_model(np.searchsorted)(E, [a, sym_array(E, needles, "x")], {"side": side, "sorter": so}),
                          np.searchsorted(np.array(d, dtype=int), np.array(needles, dtype=int), side=side, sorter=np.argsort(np.array(d, dtype=int))), f"searchsorted model-sorter {side} {d} {needles}")
        # ---- searchsorted over UNSORTED keys: open, numpy's answer admitted, range entailed
        E = engine()
        r = M.lookup_model(np.searchsorted)(E, [sym_array(E, v, "a"), sym_array(E, needles, "x")], {})
        want = np.searchsorted(np.array(v, dtype=int), np.array(needles, dtype=int))
        admits_array(E, r, want, f"searchsorted unsorted {v} {needles}")
        if check(E, z3.Or(r.nz() != len(needles), *[z3.Or(z3.Select(r.arr, i) < 0, z3.Select(r.arr, i) > n) for i in range(len(needles))])) == z3.sat:
            mismatch(f"searchsorted unsorted {v}: range not entailed")
    print(f"ext_C05 models (min max all any argsort sort searchsorted; symbolic lengths): {cases} random cases each, mismatches: {bad}, inconclusive solver calls: {inconclusive}")
    return 1 if bad else (2 if inconclusive else 0)


if __name__ == "__main__":
    rc = main()
    # fourth session: the dtype-faithful casts and whole-table frame operations of pyvc/ext_C05_frame.py
    sys.path.insert(0, os.path.dirname(os.path.abspath(__file__)))
    import xcheck_ext_C05_frame

    sys.argv = sys.argv[:1] + ["20"]
    sys.exit(rc or xcheck_ext_C05_frame.main())
