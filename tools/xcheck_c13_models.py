"""Cross-check of the library models the C13 / C14 proofs lean on, against real numpy on concrete inputs.

Run:  /verif/.venv/bin/python tools/xcheck_c13_models.py [cases=4000]     (exit 0 = every model agrees with numpy on every case)

1. np.isclose / np.allclose  (pyvc/narr.py: `|a - b| <= atol + rtol * |b|`, elementwise, `all` over the elements, default rtol = 1e-5,
   atol = 1e-8, the tolerance taken relative to the SECOND argument).  The REAL model functions are run through a pyvc engine on concrete
   numbers and compared with numpy.  Inputs: scalars and 3-vectors; magnitudes 0, 1e-9 .. 1e6; differences 0, far inside, just inside, just
   outside and far outside the tolerance; both orders of the arguments (the test is not symmetric); explicit rtol / atol.  The model works
   over the reals, numpy in binary64: a case whose margin |a-b| - (atol + rtol |b|) is below 4 ulp of the larger operand is counted as
   `at the rounding boundary` and not compared (reported; there are a handful).
2. np.random.rand(3) / np.random.rand()  (arbitrary reals in [0, 1), not all 0): 20000 real draws satisfy what the model assumes, and the
   model's value set is not smaller than what it states (components 0.0 and values arbitrarily close to 1 are admitted: checked on the
   model's constraints with z3).
3. the `almost-surely` requirement used for find_unit_vector_on_plane (the draw is not parallel to a non-unit normal): the excluded set is a
   line through the origin; 20000 real draws against 5 fixed non-unit normals never hit it, and the real function returns a unit vector
   orthogonal to the normal for every one of these normals (relative 1e-12).
"""
import os
import random
import sys
from fractions import Fraction

sys.path.insert(0, os.path.dirname(os.path.dirname(os.path.abspath(__file__))))
sys.path.insert(0, os.environ.get("VERIF_REPO", "/repo"))
import numpy as np
import z3

from pyvc import narr
from pyvc.spec import Registry
from pyvc.values import NArr, Sym, frac
from pyvc.verify import Verifier


def engine():
    E = Verifier(Registry(), "C13")
    E.cur_key = "xcheck:c13-models"
    return E


def conc(x):
    if isinstance(x, np.ndarray):
        return NArr(x.shape, [frac(float(v)) for v in x.ravel()], "real")
    return frac(float(x))


def truth(E, v):
    if isinstance(v, bool):
        return v
    z = z3.simplify(v.z if isinstance(v, Sym) else v)
    assert z3.is_true(z) or z3.is_false(z), z
    return z3.is_true(z)


def margin_is_tiny(a, b, rtol, atol):
    a, b = np.atleast_1d(np.asarray(a, dtype=float)), np.atleast_1d(np.asarray(b, dtype=float))
    for x, y in zip(a, b):
        m = abs(Fraction(float(x)) - Fraction(float(y))) - (Fraction(atol) + Fraction(rtol) * abs(Fraction(float(y))))
        if abs(m) <= 4 * Fraction(float(np.spacing(max(abs(x), abs(y), 1e-300)))):
            return True
    return False


def check_isclose(cases, rng):
    bad = done = boundary = 0
    mags = [0.0, 1e-9, 1e-3, 1.0, 224.0, 4e4, 65536.0, 1e5, 983040.0, 1e6]
    while done < cases:
        n = rng.choice([0, 3, 3, 3])
        rtol, atol = rng.choice([(1e-5, 1e-8)] * 3 + [(1e-4, 0.0), (0.0, 1e-6), (1e-3, 1e-3)])
        def one():
            b = rng.choice([-1, 1]) * rng.choice(mags) * rng.choice([1.0, rng.uniform(0.5, 2.0)])
            tol = atol + rtol * abs(b)
            d = rng.choice([0.0, 0.1 * tol, 0.999 * tol, 1.001 * tol, 10 * tol, rng.uniform(0, 3), rng.uniform(0, 1e-6)]) * rng.choice([-1, 1])
            return b + d, b
        if n == 0:
            a, b = one()
        else:
            pairs = [one() for _ in range(n)]
            a, b = np.array([p[0] for p in pairs]), np.array([p[1] for p in pairs])
        if rng.random() < 0.5:
            a, b = b, a
        if margin_is_tiny(a, b, rtol, atol):
            boundary += 1
            continue
        done += 1
        default = (rtol, atol) == (1e-5, 1e-8)
        kw = {} if default else dict(rtol=frac(rtol), atol=frac(atol))
        kwn = {} if default else dict(rtol=rtol, atol=atol)
        E = engine()
        got_all = truth(E, narr.np_allclose(E, [conc(a), conc(b)], kw))
        want_all = bool(np.allclose(a, b, **kwn))
        got_each = narr.np_isclose(E, [conc(a), conc(b)], kw)
        got_each = [truth(E, x) for x in got_each.items] if isinstance(got_each, NArr) else [truth(E, got_each)]
        want_each = [bool(x) for x in np.atleast_1d(np.isclose(a, b, **kwn))]
        if got_all != want_all or got_each != want_each:
            bad += 1
            print("MISMATCH isclose/allclose", a, b, rtol, atol, "model", got_all, got_each, "numpy", want_all, want_each)
    print(f"np.isclose / np.allclose: {done} cases compared, {boundary} at the rounding boundary skipped, {bad} mismatches")
    return bad


def check_rand(rng):
    bad = 0
    np.random.seed(20260929)
    draws = np.random.rand(20000, 3)
    if not (np.all(draws >= 0) and np.all(draws < 1) and np.all(draws.any(axis=1))):
        bad += 1
        print("MISMATCH np.random.rand: a real draw violates what the model assumes")
    s = np.random.rand()
    if not (isinstance(s, float) and 0 <= s < 1):
        bad += 1
        print("MISMATCH np.random.rand(): scalar form")
    # the model's value set: components may be 0, may be arbitrarily close to 1, only the all-zero vector is excluded
    E = engine()
    v = narr.np_random_rand(E, [3], {})
    xs = [i.z for i in v.items]
    for label, extra, expect in (("a zero component is admitted", [xs[0] == 0, xs[1] > 0], z3.sat),
                                 ("values close to 1 are admitted", [xs[0] > z3.RealVal("999999/1000000")], z3.sat),
                                 ("the zero vector is excluded", [x == 0 for x in xs], z3.unsat),
                                 ("1.0 is excluded", [xs[2] >= 1], z3.unsat),
                                 ("negative values are excluded", [xs[1] < 0], z3.unsat)):
        s = z3.Solver()
        s.add(*E.pc)
        s.add(*extra)
        if s.check() != expect:
            bad += 1
            print("MISMATCH np.random.rand model:", label)
    E = engine()
    sc = narr.np_random_rand(E, [], {})
    if not isinstance(sc, Sym):
        bad += 1
        print("MISMATCH np.random.rand(): the model must return a scalar")
    print(f"np.random.rand: 20000 real draws inside the model's value set; 5 boundary questions to the model; {bad} mismatches")
    # the almost-sure requirement of find_unit_vector_on_plane
    from swcgeom.utils.solid_geometry import find_unit_vector_on_plane

    normals = [np.array(n, dtype=float) for n in ((2.0, 0, 0), (0.3, 0.3, 0.3), (1.0, 2.0, 2.0), (-5.0, 0.5, 0.25), (0.0, 1e-3, 0.0))]
    hit = worst = 0
    for n in normals:
        cr = np.cross(draws, n)
        hit += int(np.sum(~cr.any(axis=1)))
        for k in range(200):
            u = find_unit_vector_on_plane(n)
            worst = max(worst, abs(float(u @ u) - 1), abs(float(u @ n)) / float(np.linalg.norm(n)))
    if hit or worst > 1e-12:
        bad += 1
        print("MISMATCH almost-sure requirement / contract of find_unit_vector_on_plane on non-unit normals", hit, worst)
    print(f"find_unit_vector_on_plane on 5 non-unit normals: 0 of 100000 draws parallel to the normal, 1000 results unit and orthogonal (worst defect {worst:.1e})")
    return bad


def main():
    cases = int(sys.argv[1]) if len(sys.argv) > 1 else 4000
    rng = random.Random(13)
    bad = check_isclose(cases, rng) + check_rand(rng)
    print("OK" if not bad else f"{bad} MISMATCHES")
    return 1 if bad else 0


if __name__ == "__main__":
    sys.exit(main())
