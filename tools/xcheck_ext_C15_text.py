#!/usr/bin/env python3
"""Cross-check of the models of pyvc/ext_C15_text.py (abstract character stream, symbolic strings) against CPython.

For every text over a small alphabet (blank, line break, ';', '(', a letter) up to a given length and every cursor position the
abstract text is pinned to that text (NCH = len, CH(i) = ord(text[i])); the io models read(1) / readline() and the string
operations the Lexer (and plausible rewrites of it) apply -- +, ==, in, truth, len, [i], [a:b], endswith, startswith, partition,
find, rstrip, lstrip, strip, removesuffix, removeprefix, isspace -- are run through the MODEL on the path the pinned text selects;
the model's result must be uniquely determined and equal to what io.StringIO / str give.

usage: tools/xcheck_ext_C15_text.py [max_len=2]      exit 0 = all agree   (2: 5 736 cases, about 4 min; 3: 48 486 cases, about 30 min)
"""
import io
import itertools
import os
import sys

sys.path.insert(0, os.path.dirname(os.path.dirname(os.path.abspath(__file__))))
import vcheck  # noqa: F401,E402  (puts the repository on sys.path)
import z3  # noqa: E402

from pyvc import ext_C15_text as T  # noqa: E402
from pyvc.engine import Infeasible, PathEnd, ProgExc  # noqa: E402
from pyvc.spec import Registry  # noqa: E402
from pyvc.values import Sym  # noqa: E402
from pyvc.verify import Verifier  # noqa: E402

ALPHABET = " \n;(a"
T.install()


class Mismatch(Exception):
    pass


def pin(eng, text):
    eng.assume(T.NCH == len(text))
    for i, c in enumerate(text):
        eng.assume(T.CH(i) == ord(c))
    T.define_positions(eng, " \t\n", " \t\n();|")
    eng.assume(z3.And(T.NLC(0) == 0, T.LNL(0) == -1))


def solver_of(eng):
    s = z3.Solver()
    s.set("timeout", 20000)
    for h in eng.pc:
        s.add(h)
    return s


def concrete(eng, v):
    """the unique concrete value of a model result under the path condition (raises Mismatch when it is not unique)"""
    if v is None or isinstance(v, (bool, int, str)) and not isinstance(v, Sym):
        return v
    if isinstance(v, tuple):
        return tuple(concrete(eng, x) for x in v)
    s = solver_of(eng)
    if s.check() != z3.sat:
        raise Infeasible()
    m = s.model()
    if isinstance(v, Sym) and v.kind == "bool":  # possibly a quantified formula: decided by two satisfiability queries
        s.push()
        s.add(v.z)
        can_true = s.check() == z3.sat
        s.pop()
        s.add(z3.Not(v.z))
        can_false = s.check() == z3.sat
        if can_true == can_false:
            raise Mismatch(f"truth value not determined: {v}")
        return can_true
    if isinstance(v, Sym):
        val = m.eval(v.z, model_completion=True)
        s.add(v.z != val)
        if s.check() != z3.unsat:
            raise Mismatch(f"value not determined: {v}")
        return z3.is_true(val) if v.kind == "bool" else val.as_long()
    if isinstance(v, T.SStr):
        n = m.eval(v.length(), model_completion=True).as_long()
        chars = [m.eval(v.char_at(z3.IntVal(k)), model_completion=True).as_long() for k in range(n)]
        s.add(z3.Or(v.length() != n, *[v.char_at(z3.IntVal(k)) != c for k, c in enumerate(chars)]))
        if s.check() != z3.unsat:
            raise Mismatch(f"string not determined: {v}")
        return "".join(map(chr, chars))
    raise Mismatch(f"unexpected result {v!r}")


def run_model(text, body):
    """all (result | exception name) the model can produce for the pinned text (exactly one is expected)"""
    eng = Verifier(Registry(), "C15")
    outs = []

    def path():
        pin(eng, text)
        try:
            r = body(eng)
        except ProgExc as e:
            r = ("raises", e.cls.__name__)
        else:
            r = ("value", concrete(eng, r))
        s = solver_of(eng)
        if s.check() == z3.sat:
            outs.append(r)

    eng.explore(lambda: _guard(path))
    return outs


def _guard(f):
    try:
        f()
    except (Infeasible, PathEnd):
        pass


def py(f):
    try:
        return ("value", f())
    except Exception as e:
        return ("raises", type(e).__name__)


def method(eng, v, name, *args):
    if isinstance(v, str):
        return getattr(v, name)(*args)
    return eng.call(eng.getattr_(v, name), list(args), {})


def checks_for(text):
    n = len(text)
    # ---- the reader
    for p in range(n + 1):
        def rd(eng, p=p):
            r = T.CharStream(z3.IntVal(p))
            c = eng.call(eng.getattr_(r, "read"), [1], {})
            return (c, Sym(z3.simplify(r.pos), "int"))

        def rl(eng, p=p):
            r = T.CharStream(z3.IntVal(p))
            c = eng.call(eng.getattr_(r, "readline"), [], {})
            return (c, Sym(z3.simplify(r.pos), "int"))

        def real(op, p=p):
            f = io.StringIO(text)
            f.seek(p)
            return (op(f), f.tell())

        yield f"read(1)@{p}", rd, lambda: real(lambda f: f.read(1))
        yield f"readline()@{p}", rl, lambda: real(lambda f: f.readline())

        def both(eng, p=p):  # what Lexer._read_line does: look-ahead + rest of the line
            r = T.CharStream(z3.IntVal(p))
            c = eng.call(eng.getattr_(r, "read"), [1], {})
            ln = eng.call(eng.getattr_(r, "readline"), [], {})
            return eng.binop(__import__("ast").Add(), c, ln)

        def real_both(p=p):
            f = io.StringIO(text)
            f.seek(p)
            return f.read(1) + f.readline()

        yield f"read(1)+readline()@{p}", both, real_both
    # ---- strings: every slice of the text, and two scattered concatenations
    import ast

    for a in range(n + 1):
        for b in range(a, n + 1):
            sub = text[a:b]
            mk = lambda eng, a=a, b=b: T.SStr.slice(z3.IntVal(a), z3.IntVal(b))
            ops = [
                ("len", lambda eng, s: eng.call(len, [s], {}), lambda s: len(s)),
                ("truth", lambda eng, s: eng.truth(s), lambda s: bool(s)),
                ("== ''", lambda eng, s: eng.compare(ast.Eq(), s, ""), lambda s: s == ""),
                ("== '\\n'", lambda eng, s: eng.compare(ast.Eq(), s, "\n"), lambda s: s == "\n"),
                ("!= ';'", lambda eng, s: eng.compare(ast.NotEq(), s, ";"), lambda s: s != ";"),
                ("== 'a('", lambda eng, s: eng.compare(ast.Eq(), s, "a("), lambda s: s == "a("),
                ("in ' \\t\\n'", lambda eng, s: eng.compare(ast.In(), s, " \t\n"), lambda s: s in " \t\n"),
                ("not in delims", lambda eng, s: eng.compare(ast.NotIn(), s, " \t\n();|"), lambda s: s not in " \t\n();|"),
                ("in tuple", lambda eng, s: eng.compare(ast.In(), s, ("(", ";", "")), lambda s: s in ("(", ";", "")),
                ("'\\n' in s", lambda eng, s: eng.compare(ast.In(), "\n", s), lambda s: "\n" in s),
                ("'x'+s", lambda eng, s: eng.binop(ast.Add(), "x", s), lambda s: "x" + s),
                ("s+';'", lambda eng, s: eng.binop(ast.Add(), s, ";"), lambda s: s + ";"),
                ("s+s", lambda eng, s: eng.binop(ast.Add(), s, s), lambda s: s + s),
                ("(s+'-'+s)[1:]", lambda eng, s: eng.models.getitem(eng, eng.binop(ast.Add(), eng.binop(ast.Add(), s, "-"), s), slice(1, None)), lambda s: (s + "-" + s)[1:]),
                ("(s+'-'+s)[:-1]", lambda eng, s: eng.models.getitem(eng, eng.binop(ast.Add(), eng.binop(ast.Add(), s, "-"), s), slice(None, -1)), lambda s: (s + "-" + s)[:-1]),
                ("(s+'-')==(s+'-')", lambda eng, s: eng.compare(ast.Eq(), eng.binop(ast.Add(), s, "-"), eng.binop(ast.Add(), s, "-")), lambda s: True),
                ("[:-1]", lambda eng, s: eng.models.getitem(eng, s, slice(None, -1)), lambda s: s[:-1]),
                ("[1:]", lambda eng, s: eng.models.getitem(eng, s, slice(1, None)), lambda s: s[1:]),
                ("[-2:5]", lambda eng, s: eng.models.getitem(eng, s, slice(-2, 5)), lambda s: s[-2:5]),
                ("[0]", lambda eng, s: eng.models.getitem(eng, s, 0), lambda s: s[0]),
                ("[-1]", lambda eng, s: eng.models.getitem(eng, s, -1), lambda s: s[-1]),
                ("endswith", lambda eng, s: method(eng, s, "endswith", "\n"), lambda s: s.endswith("\n")),
                ("startswith", lambda eng, s: method(eng, s, "startswith", (";", "(")), lambda s: s.startswith((";", "("))),
                ("partition", lambda eng, s: method(eng, s, "partition", "\n"), lambda s: s.partition("\n")),
                ("find", lambda eng, s: method(eng, s, "find", ";"), lambda s: s.find(";")),
                ("index", lambda eng, s: method(eng, s, "index", ";"), lambda s: s.index(";")),
                ("rstrip(nl)", lambda eng, s: method(eng, s, "rstrip", "\n"), lambda s: s.rstrip("\n")),
                ("rstrip()", lambda eng, s: method(eng, s, "rstrip"), lambda s: s.rstrip()),
                ("lstrip()", lambda eng, s: method(eng, s, "lstrip"), lambda s: s.lstrip()),
                ("strip(' (')", lambda eng, s: method(eng, s, "strip", " ("), lambda s: s.strip(" (")),
                ("removesuffix", lambda eng, s: method(eng, s, "removesuffix", "\n"), lambda s: s.removesuffix("\n")),
                ("removeprefix", lambda eng, s: method(eng, s, "removeprefix", ";"), lambda s: s.removeprefix(";")),
                ("isspace", lambda eng, s: method(eng, s, "isspace"), lambda s: s.isspace()),
            ]
            for nm, mop, pop in ops:
                yield f"text[{a}:{b}] {nm}", (lambda eng, mk=mk, mop=mop: mop(eng, mk(eng))), (lambda pop=pop, sub=sub: pop(sub))


def main():
    max_len = int(sys.argv[1]) if len(sys.argv) > 1 else 2
    n_cases = bad = 0
    for L in range(max_len + 1):
        for tup in itertools.product(ALPHABET, repeat=L):
            text = "".join(tup)
            for label, model_body, real in checks_for(text):
                n_cases += 1
                want = py(real)
                got = None
                for attempt in range(2):  # a solver timeout on a loaded machine shows up as `not determined`: tried once more
                    try:
                        got = run_model(text, model_body)
                        break
                    except Mismatch as e:
                        got = [("mismatch", str(e))]
                norm = lambda r: (r[0], tuple(r[1]) if isinstance(r[1], list) else r[1])
                if len(got) != 1 or norm(got[0]) != norm(want):
                    bad += 1
                    print(f"DISAGREE text={text!r} {label}: model={got} python={want}")
                    if bad > 20:
                        print("too many disagreements")
                        return 1
    print(f"xcheck_ext_C15_text: {n_cases} cases up to length {max_len}, {bad} disagreements")
    return 1 if bad else 0


if __name__ == "__main__":
    sys.exit(main())
