"""Native replay of the C19 finding `Populations.from_swc/post/check_same:accepted-only-if-every-root-lists-the-same-relative-paths`
(run with /venv/bin/python): check_same=True accepts directories with different file sets; with one root it always raises."""
import os, tempfile, warnings, shutil
from swcgeom.core.population import Populations
base = tempfile.mkdtemp(prefix="w2-c19-cs-", dir="/var/tmp")
SWC = "1 1 0 0 0 1 -1\n2 3 1 0 0 1 1\n"
def mk(d, names):
    os.makedirs(os.path.join(base, d))
    for n in names: open(os.path.join(base, d, n), "w").write(SWC)
mk("a", ["x.swc", "y.swc"]); mk("b", ["x.swc", "only_b.swc"]); mk("c", ["x.swc", "y.swc"])
warnings.simplefilter("ignore")
# (1) two directories with DIFFERENT file sets, check_same=True, intersect=False: expected AssertionError, observed: none
try:
    ps = Populations.from_swc([os.path.join(base, "a"), os.path.join(base, "b")], intersect=False, check_same=True)
    rows = [[os.path.basename(t.source) for t in ps[i]] for i in range(len(ps))]
    print("different sets, check_same=True -> no error; rows:", rows)
except AssertionError as e:
    print("different sets -> AssertionError", e)
# (2) ONE directory, check_same=True, intersect=False: nothing to compare, expected success, observed AssertionError
try:
    Populations.from_swc([os.path.join(base, "a")], intersect=False, check_same=True); print("single root ok")
except AssertionError as e:
    print("single root, check_same=True -> AssertionError:", e)
shutil.rmtree(base)
