"""Cross-check of the library models added with work package c09c12 against the real libraries on concrete inputs.

Run:  /verif/.venv/bin/python tools/xcheck_c09c12_models.py      (exit 0 = every model agrees)

  * pyvc/models.py    copy.copy (instance / list / dict / ndarray), slice(...)
  * pyvc/npmodels.py  np.diff (1-D), np.all / np.any, the arithmetic-progression lemma behind np.all(np.diff(a) == c)
  * pyvc/engine.py    float // and % over the reals (integer quotient, remainder with the sign of the divisor)
  * pyvc/ext_C12.py   reduced-angle facts of cos / sin, sqrt(1 - cos^2) = |sin|, copysign, np.mod, np.fmod, np.floor, np.sign

Each model is evaluated through the pyvc interpreter on symbolic inputs; the resulting z3 terms (and, for the trig model, the very
facts it assumes) are then evaluated under a concrete assignment and compared with what CPython / numpy compute for the same values.
"""
import ast
import copy
import math
import os
import random
import sys
from fractions import Fraction

sys.path.insert(0, os.path.dirname(os.path.dirname(os.path.abspath(__file__))))
import numpy as np
import z3

from pyvc import ext_C12, models, narr, npmodels
from pyvc.spec import Registry
from pyvc.values import NArr, Obj, PDict, PList, SArr, Sym, fresh, to_z3
from pyvc.verify import Verifier

bad = 0
count = 0


def expect(what, got, want):
    global bad, count
    count += 1
    if got != want:
        bad += 1
        print("MISMATCH", what, "model:", got, "library:", want)


def eng():
    e = Verifier(Registry(), "C12")
    e.pc = []
    return e


def rat(x):
    return z3.RealVal(str(Fraction(x)))


def evaluate(term, env):
    s = z3.Solver()
    for k, v in env:
        s.add(k == v)
    assert s.check() == z3.sat
    return s.model().eval(term, model_completion=True)


def as_fraction(v):
    v = z3.simplify(v)
    if z3.is_int_value(v):
        return Fraction(v.as_long())
    return Fraction(v.numerator_as_long(), v.denominator_as_long())


def closed(v):
    """truth value of a closed formula (no free symbol): decided by the solver"""
    if not isinstance(v, Sym):
        return bool(v)
    s1, s2 = z3.Solver(), z3.Solver()
    s1.add(v.z)
    s2.add(z3.Not(v.z))
    r1, r2 = s1.check(), s2.check()
    assert (r1 == z3.sat) != (r2 == z3.sat), (v, r1, r2)
    return r1 == z3.sat


# ------------------------------------------------------------------------------------------------ np.diff / np.all / np.any
rng = random.Random(12)
for trial in range(60):
    n = rng.randrange(0, 7)
    data = [rng.randrange(-3, 4) for _ in range(n)]
    arr = z3.K(z3.IntSort(), z3.IntVal(0))
    for j, x in enumerate(data):
        arr = z3.Store(arr, j, x)
    E = eng()
    a = SArr(arr, z3.IntVal(n), "int")
    d = npmodels._np_diff(E, [a], {})
    want = np.diff(np.array(data, dtype=np.int64))
    expect(f"np.diff length {data}", z3.simplify(d.nz()).as_long(), len(want))
    expect(f"np.diff entries {data}", [z3.simplify(d.get(j).z).as_long() for j in range(len(want))], [int(x) for x in want])
    for c in (0, 1):
        m = npmodels.array_compare(E, ast.Eq(), d, c)
        got = npmodels._np_all_any(True)(E, [m], {})
        got = closed(got)
        expect(f"np.all(np.diff({data}) == {c})", got, bool(np.all(want == c)))
        if bool(np.all(want == c)):  # the arithmetic-progression lemma's conclusion holds on this input
            expect(f"progression {data}", all(data[j] == data[0] + j * c for j in range(n)), True)
        got = npmodels._np_all_any(False)(E, [m], {})
        got = closed(got)
        expect(f"np.any(np.diff({data}) == {c})", got, bool(np.any(want == c)))
    nd = NArr((n,), list(data), "int")
    d2 = npmodels._np_diff(E, [nd], {})
    expect(f"np.diff (concrete shape) {data}", [int(x) for x in d2.items], [int(x) for x in want])
# exhaustive small scope for the lemma: every int sequence of length <= 5 over {-1..2} whose differences are all c is src[0] + j*c
import itertools

for n in range(0, 6):
    for seq in itertools.product(range(-1, 3), repeat=n):
        dv = np.diff(np.array(seq, dtype=np.int64))
        for c in (-1, 0, 1, 2):
            if np.all(dv == c):
                expect(f"lemma {seq} step {c}", all(seq[j] == seq[0] + j * c for j in range(n)), True)


# ------------------------------------------------------------------------------------------------ copy.copy / slice
class Plain:
    def __init__(self):
        self.items = [1, 2]
        self.table = {"a": np.arange(3)}
        self.label = "x"


real = Plain()
dup = copy.copy(real)
E = eng()
o = Obj(Plain, dict(items=PList([1, 2]), table=PDict({"a": NArr((3,), [0, 1, 2], "int")}), label="x"))
m = models._b_copy(E, [o], {})
expect("copy.copy(instance) is a new object", m is not o and m.uid != o.uid, dup is not real)
expect("copy.copy(instance) shares the attribute values", all(m.fields[k] is o.fields[k] for k in o.fields), all(getattr(dup, k) is getattr(real, k) for k in vars(real)))
expect("copy.copy(instance) has its own attribute table", m.fields is not o.fields, vars(dup) is not vars(real))
lst = PList([NArr((1,), [5], "int")])
ml, rl = models._b_copy(E, [lst], {}), copy.copy([np.array([5])])
expect("copy.copy(list): new list, same elements", (ml is not lst, ml.items[0] is lst.items[0]), (True, True))
dct = PDict({"k": lst})
md = models._b_copy(E, [dct], {})
src = {"k": [1]}
expect("copy.copy(dict): new dict, same values", (md is not dct, md.items["k"] is lst), (copy.copy(src) is not src, copy.copy(src)["k"] is src["k"]))
na = NArr((2,), [1, 2], "int")
mc = models._b_copy(E, [na], {})
x = np.array([1, 2])
expect("copy.copy(ndarray): fresh storage", (mc.uid != na.uid, mc.view_of is None), (not np.shares_memory(copy.copy(x), x), True))
expect("slice(a, b)", models._b_slice(E, [1, 4], {}), slice(1, 4))
expect("slice(b)", models._b_slice(E, [4], {}), slice(4))
expect("slice(a, b, c)", models._b_slice(E, [1, 9, 2], {}), slice(1, 9, 2))


# ------------------------------------------------------------------------------------------------ float // and %, np.mod, np.fmod, floor, sign, copysign
def scalar_model(fn, *vals):
    """run a scalar model on fresh symbolic reals, then evaluate the result and every assumed fact under the concrete values"""
    E = eng()
    syms = [fresh("real", f"v{j}") for j in range(len(vals))]
    out = fn(E, syms)
    env = [(s.z, rat(v)) for s, v in zip(syms, vals)]
    s = z3.Solver()
    for k, v in env:
        s.add(k == v)
    for h in E.pc:
        s.add(h)
    assert s.check() == z3.sat, ("model facts unsatisfiable on", vals)
    return as_fraction(s.model().eval(to_z3(out, "real"), model_completion=True))


def _copysign_pure(E, v):
    """the value formula of the model (the scalar path forks on the sign of y: evaluated here in specification mode, where it does not)"""
    E.spec_mode += 1
    try:
        return ext_C12.np_copysign(E, v, {})
    finally:
        E.spec_mode -= 1


grid = [Fraction(k, 4) for k in range(-13, 14)] + [Fraction(7, 3), Fraction(-22, 7), Fraction(100, 3)]
divisors = [Fraction(k, 2) for k in (-5, -3, -2, -1, 1, 2, 3, 5)] + [Fraction(2, 3), Fraction(-7, 5)]
for a in grid:
    for b in divisors:
        fa, fb = float(a), float(b)
        expect(f"{a} % {b}", scalar_model(lambda E, v: E.binop(ast.Mod(), v[0], v[1]), a, b), a - b * math.floor(a / b))
        expect(f"{a} // {b}", scalar_model(lambda E, v: E.binop(ast.FloorDiv(), v[0], v[1]), a, b), Fraction(math.floor(a / b)))
        expect(f"np.mod({a}, {b})", scalar_model(lambda E, v: ext_C12.np_mod(E, v, {}), a, b), a - b * math.floor(a / b))
        expect(f"np.fmod({a}, {b})", scalar_model(lambda E, v: ext_C12.np_fmod(E, v, {}), a, b), a - b * math.trunc(a / b))
        if all(float(x).is_integer() or Fraction(float(x)) == x for x in (a, b)):  # values a float holds exactly: compare with numpy itself
            expect(f"numpy np.mod({a}, {b})", Fraction(float(np.mod(fa, fb))), a - b * math.floor(a / b))
            expect(f"numpy np.fmod({a}, {b})", Fraction(float(np.fmod(fa, fb))), a - b * math.trunc(a / b))
    expect(f"np.floor({a})", scalar_model(lambda E, v: ext_C12.np_floor(E, v, {}), a), Fraction(math.floor(a)))
    expect(f"np.sign({a})", scalar_model(lambda E, v: ext_C12.np_sign(E, v, {}), a), Fraction(int(np.sign(float(a)))))
    for y in (Fraction(-3), Fraction(-1, 7), Fraction(0), Fraction(1, 9), Fraction(4)):
        want = Fraction(float(np.copysign(float(a), float(y)))) if Fraction(float(a)) == a else (abs(a) if y >= 0 else -abs(a))
        expect(f"np.copysign({a}, {y})", scalar_model(_copysign_pure, a, y), want)
        expect(f"math.copysign({a}, {y})", Fraction(math.copysign(float(a), float(y))) if Fraction(float(a)) == a else want, want)


# ------------------------------------------------------------------------------------------------ reduced-angle facts of cos / sin
def trig_facts_hold(theta, flip=False, quiet=False):
    """every fact pyvc.narr.trig + ext_C12.reduced_angle_facts assume for the angle `theta`, evaluated with numpy's cos / sin and
    k = floor((theta + pi) / (2 pi)); strict facts at the multiples of pi/2 are excluded by the grid (rounding)"""
    ext_C12.install()
    E = eng()
    t = fresh("real", "theta")
    c, s = narr.trig(E, t)
    r1 = E.sqrt(E.binop(ast.Sub(), 1, E.binop(ast.Mult(), c, c)), nonneg_known=True)
    r2 = E.sqrt(E.binop(ast.Sub(), 1, E.binop(ast.Mult(), s, s)), nonneg_known=True)
    k = math.floor((theta + math.pi) / (2 * math.pi))
    cv, sv = float(np.cos(theta)), float(np.sin(theta)) * (-1 if flip else 1)
    # numpy's values lie on the unit circle only up to rounding: project them (the facts below are about signs and the turn count)
    nrm = math.hypot(cv, sv)
    env = {"theta": theta, "pi": math.pi}
    sol = z3.Solver()
    sol.add(t.z == rat(theta), E.pi_const().z == rat(math.pi))
    for name, q in E.ghost.items():
        if isinstance(name, tuple) and name[0] == "real-divmod":
            sol.add(q[0] == k)
    sol.add(c.z == rat(cv / nrm), s.z == rat(sv / nrm))
    ok = True
    for h in E.pc:
        txt = str(h)
        if "cos" in txt and "sin" in txt and "*" in txt and "==" in txt and "theta" not in txt and "Implies" not in txt:
            continue  # cos^2 + sin^2 = 1 holds for floats only up to rounding: checked numerically below
        if "sqrt" in txt:
            continue
        if "pi" in txt and "theta" not in txt and "turns" not in txt:
            continue  # the model's interval for pi contains math.pi
        sol.push()
        sol.add(z3.Not(h))
        if sol.check() != z3.unsat:
            ok = False
            if not quiet:
                print("   fact fails at theta =", theta, ":", txt[:200])
        sol.pop()
    ok = ok and abs(cv * cv + sv * sv - 1) < 1e-12 and 3.14159 < math.pi < 3.1416
    # the named roots: sqrt(1 - cos^2) = |sin|, sqrt(1 - sin^2) = |cos|
    ok = ok and abs(math.sqrt(max(0.0, 1 - cv * cv)) - abs(sv)) < 1e-7 and abs(math.sqrt(max(0.0, 1 - sv * sv)) - abs(cv)) < 1e-7
    for root, other in ((r1, s), (r2, c)):
        ok = ok and z3.is_true(z3.simplify(to_z3(root, "real") == z3.If(other.z >= 0, other.z, -other.z)))
    return ok


angles = [0.0] + [x / 8 + 0.01 for x in range(-120, 121)] + [4.0, 3 * math.pi / 2 + 1e-3, 2 * math.pi - 0.3, -7.5, 100.25, -250.125]
for th in angles:
    expect(f"reduced-angle facts at theta = {th}", trig_facts_hold(th), True)
for th in (0.5, 4.0, -2.0, 10.0):  # negative control: with sin t replaced by -sin t the facts must be refuted (the check above is not vacuous)
    expect(f"negative control at theta = {th}", trig_facts_hold(th, flip=True, quiet=True), False)
# periodicity and parity between two angles with the same / the opposite reduced angle
for th in (0.4, -2.9, 3.0, 1.3):
    for turns in (-2, -1, 1, 3):
        expect(f"cos/sin periodic at {th} + {turns} turns", (round(float(np.cos(th + 2 * math.pi * turns)), 9), round(float(np.sin(th + 2 * math.pi * turns)), 9)), (round(float(np.cos(th)), 9), round(float(np.sin(th)), 9)))
    expect(f"cos even / sin odd at {th}", (round(float(np.cos(-th)), 12), round(float(np.sin(-th)), 12)), (round(float(np.cos(th)), 12), round(-float(np.sin(th)), 12)))

print(f"{count} comparisons, {bad} mismatches")
sys.exit(1 if bad else 0)
