"""cross-check of the library models of pyvc/ext_C20.py (property C20) against the real libraries on concrete inputs
run: /verif/.venv/bin/python tools/xcheck_ext_C20.py        (exit 0 = every model agrees)

A. array models on opaque image arrays (ImgArr): transpose / moveaxis / expand_dims / basic indexing / astype (safe casts) / argsort,
   np.floor / np.ceil / int();  method: the model is applied to an ImgArr whose contents are an uninterpreted function f of the index;
   every element of the model's result simplifies to f(i, j, ...) with concrete i, j, ..., which is compared with what numpy does to an
   array that stores its own indices.
B. file models (recording models; the bytes are never modelled): tifffile.imwrite + TiffFile.series[0] (array and axes string come
   back as written, for the options save_tiff uses), tifffile.TiffWriter page by page (Z >= 2 pages = ONE series (Z, X, Y) 'ZXY'; ONE
   page = a 2-D series 'YX': the finding of docs/w3/c20.md), nrrd.read (index_order F / C), np.load, v3dpy Raw / PBD ((C, Z, Y, X)).
C. sdflit: RangeSampler(min, max, stride).sample(scene) is an (X, Y, Z, 3) block whose voxel [i, j, k] is the scene's colour at
   min + (i, j, k) * stride for all indices with min + index * stride < max; a z range [z, z + dz - eps] gives Z = 1;
   ObjectsScene = union of its objects over the background; ColoredMaterial((1, 0, 0)) -> channel 0 is 1.0 inside.
"""
import itertools
import logging
import os
import shutil
import sys
import tempfile
import warnings
from fractions import Fraction

sys.path.insert(0, os.path.dirname(os.path.dirname(os.path.abspath(__file__))))
sys.path.insert(0, os.environ.get("VERIF_REPO", "/repo"))
import numpy as np
import z3

from pyvc import ext_C20 as X
from pyvc.engine import ProgExc
from pyvc.spec import Registry
from pyvc.values import NArr, PList, Sym
from pyvc.verify import Verifier

X.install()
E = Verifier(Registry(), "C20")
E.spec_mode = 1  # models that would fork on an index range are evaluated as in a clause (no fork); ranges are checked here
ok = True
logging.disable(logging.CRITICAL)
warnings.simplefilter("ignore")


def check(name, cond):
    global ok
    ok = ok and bool(cond)
    print(("ok   " if cond else "FAIL ") + name)


def dims_of(a):
    out = []
    for d in a.shape:
        z = z3.simplify(d.z if isinstance(d, Sym) else z3.IntVal(d))
        assert z3.is_int_value(z), z
        out.append(z.as_long())
    return tuple(out)


def realise(src, out):
    """numpy array of the index tuples the model's result reads from its source"""
    sh = dims_of(out)
    got = np.empty(sh, dtype=object)
    for jx in itertools.product(*[range(n) for n in sh]):
        t = z3.simplify(out.elem([z3.IntVal(j) for j in jx]))
        assert t.decl().name() == src.fn.name(), t
        got[jx] = tuple(z3.simplify(c).as_long() for c in t.children())
    return got


def index_array(shape):
    a = np.empty(shape, dtype=object)
    for ix in itertools.product(*[range(n) for n in shape]):
        a[ix] = ix
    return a


def same(a, b):
    return a.shape == b.shape and all(a[ix] == b[ix] for ix in itertools.product(*[range(n) for n in a.shape]))


# ------------------------------------------------------------------------------------------------ A. array models
shape = (2, 3, 4, 5)
src = X.ImgArr.source(shape, "uint8", "a")
A = index_array(shape)
for perm in [(0, 1, 2, 3), (3, 2, 1, 0), (1, 2, 0, 3), (2, 0, 1, 3), (1, 0, 3, 2)]:
    check(f"transpose{perm}", same(realise(src, src.transpose(E, [list(perm)])), A.transpose(perm)))
check("transpose()", same(realise(src, src.transpose(E, [])), A.transpose()))
for s, d in [(2, 0), (0, 2), (3, 0), (-1, 0), (1, -1), (2, 2)]:
    check(f"moveaxis({s},{d})", same(realise(src, X._np_moveaxis(E, [src, s, d], {})), np.moveaxis(A, s, d)))
src3 = X.ImgArr.source((2, 3, 4), "float32", "b")
A3 = index_array((2, 3, 4))
for ax in (-1, 0, 1, 3):
    check(f"expand_dims(axis={ax})", same(realise(src3, X._np_expand_dims(E, [src3, ax], {})), np.expand_dims(A3, ax)))
keys = [
    (slice(None), slice(None), slice(None), slice(None)), (slice(1, None), slice(None, 2), slice(1, 3, 1), slice(None)), (slice(-1, None),), (slice(-9, 9), slice(5, 1)),
    (1, slice(None), slice(0, 2)), (Ellipsis, 2), (1, Ellipsis), (-1, slice(None), slice(None), 0), (0, 1), (slice(-3, -1), slice(-2, None), slice(None, -1)),
    (slice(2, 2),), (slice(0, 99), slice(-99, 1)),
]
for key in keys:
    out = X.basic_index(E, src, key)
    want = A[key]
    check(f"basic index {key}", same(realise(src, out), want))
t = z3.simplify(X.basic_index(E, src, (1, 2, 3, 4)).z)
check("basic index (1,2,3,4) -> element", tuple(c.as_long() for c in t.children()) == (1, 2, 3, 4))
t = z3.simplify(X.basic_index(E, src, (-1, -2, -3, -4)).z)
check("basic index negative ints count from the end", tuple(c.as_long() for c in t.children()) == (1, 1, 1, 1))
# slice bounds = slice.indices for step 1 / None, any integer bounds
good = True
for n in range(0, 5):
    for lo, hi in itertools.product([None] + list(range(-7, 8)), repeat=2):
        st, ln = X.slice_bounds(slice(lo, hi, None), z3.IntVal(n))
        a, b, _ = slice(lo, hi).indices(n)
        good = good and z3.simplify(st).as_long() == a and z3.simplify(ln).as_long() == max(0, b - a)
check("slice bounds = slice.indices(n) for n < 5, bounds in [-7, 7] and None (1 280 cases)", good)
# astype: the identity exactly for the casts numpy calls `safe`: value preserving on sample values
vals = {"uint8": [0, 1, 255], "uint16": [0, 256, 65535], "uint32": [0, 2**32 - 1], "float16": [0.0, 0.5, 1.0, 65504.0], "float32": [0.0, 1 / 3, 1e30], "float64": [0.1, 1e300]}
good = True
for s, d in itertools.product(vals, repeat=2):
    ident = z3.Real("v").eq(X.CAST(s, d)(z3.Real("v")))
    if ident:
        good = good and all(float(np.array([v], dtype=s).astype(d)[0]) == float(np.array([v], dtype=s)[0]) for v in vals[s])
check("astype: casts modelled as the identity (numpy `safe`) preserve every sample value", good)
check("astype: float32 -> uint8 and float64 -> float32 are NOT the identity in the model", not z3.Real("v").eq(X.CAST("float32", "uint8")(z3.Real("v"))) and not z3.Real("v").eq(X.CAST("float64", "float32")(z3.Real("v"))))
for v in ([2, 0, 1, 3], [0, 1, 2], [3, 2, 1, 0], [2, 0, 1]):
    check(f"argsort {v}", X._np_argsort(E, [PList(v)], {}).items == [int(x) for x in np.argsort(v)])


def val(zt, hyps=()):
    s = z3.Solver()
    s.add(*hyps)
    assert s.check() == z3.sat
    return s.model().eval(zt, model_completion=True)


good = True
for x in (Fraction(7, 2), Fraction(-7, 2), Fraction(3), Fraction(0), Fraction(-1, 3), Fraction(5, 3), Fraction(-2)):
    xs, h = Sym(z3.Real("x_"), "real"), [z3.Real("x_") == z3.RealVal(str(x))]
    fl = val(X._floor_ceil(True)(E, [xs], {}).z, h)
    ce = val(X._floor_ceil(False)(E, [xs], {}).z, h)
    it = val(X._b_int_trunc(E, [xs], {}).z, h)
    good = good and Fraction(fl.numerator_as_long(), fl.denominator_as_long()) == Fraction(float(np.floor(float(x))))
    good = good and Fraction(ce.numerator_as_long(), ce.denominator_as_long()) == Fraction(float(np.ceil(float(x)))) and it.as_long() == int(float(x))
check("np.floor / np.ceil / int() on 7/2, -7/2, 3, 0, -1/3, 5/3, -2", good)

# ------------------------------------------------------------------------------------------------ B. file models
import nrrd
import tifffile

base = tempfile.mkdtemp(prefix="c20-xcheck-", dir="/var/tmp")
try:
    good = True
    for (x, y, zz), c, dt in itertools.product([(1, 1, 1), (2, 3, 5), (5, 1, 2), (1, 4, 1), (3, 2, 1)], (1, 3), ("uint8", "uint16", "float32")):
        data = (np.arange(x * y * zz * c) % 251).astype(dt).reshape(zz, x, y, c)  # what save_tiff hands to imwrite: (Z, X, Y, C)
        f = os.path.join(base, "w.tif")
        tifffile.imwrite(f, data, photometric="rgb" if c == 3 else "minisblack", metadata={"axes": "ZXYC"}, compression="zlib", compressionargs={"level": 6})
        with tifffile.TiffFile(f) as tf:
            s = tf.series[0]
            arr, axes = s.asarray(), s.axes
        good = good and axes == "ZXYC" and arr.shape == data.shape and arr.dtype == data.dtype and np.array_equal(arr, data)
    check("tifffile.imwrite(ZXYC data, axes metadata, photometric, zlib) -> TiffFile.series[0]: same array, same dtype, axes 'ZXYC' (30 shape/dtype cases incl. size-1 axes)", good)
    good, one = True, None
    for zz, x, y in [(2, 1, 1), (3, 2, 5), (2, 5, 1), (4, 1, 3), (1, 3, 4), (1, 1, 1)]:
        frames = [((np.arange(x * y) + 7 * k) % 251).astype(np.uint8).reshape(x, y) for k in range(zz)]
        f = os.path.join(base, "p.tif")
        with tifffile.TiffWriter(f) as tif:
            for fr in frames:
                tif.write(fr, contiguous=True, photometric="minisblack", resolution=(1, 1), metadata={"unit": "um", "axes": "ZXY"})
        with tifffile.TiffFile(f) as tf:
            ns, s = len(tf.series), tf.series[0]
            arr, axes = s.asarray(), s.axes
        if zz >= 2:
            good = good and ns == 1 and axes == "ZXY" and np.array_equal(arr, np.stack(frames, axis=0))
        else:
            one = (ns, axes, arr.shape) if one is None else one
            good = good and ns == 1 and arr.ndim == 2 and np.array_equal(arr, frames[0])
    check("tifffile.TiffWriter, contiguous pages with axes 'ZXY': Z >= 2 pages are ONE series (Z, X, Y) 'ZXY' holding the frames in order", good)
    # the writer as docs/w3/c20_save_tif_fix.diff makes it: ONE frame goes out as the block frame[np.newaxis]; two or more frames page by page
    good = True
    for zz, (x, y) in itertools.product((1, 2, 3), [(3, 4), (1, 1), (5, 1), (1, 6)]):
        frames = [((np.arange(x * y) + 7 * k) % 251).astype(np.uint8).reshape(x, y) for k in range(zz)]
        blocks = [frames[0][np.newaxis]] if zz == 1 else frames
        f = os.path.join(base, "q.tif")
        with tifffile.TiffWriter(f) as tif:
            for b in blocks:
                tif.write(b, contiguous=True, photometric="minisblack", resolution=(1, 1), metadata={"unit": "um", "axes": "ZXY"})
        with tifffile.TiffFile(f) as tf:
            ns, s = len(tf.series), tf.series[0]
            arr, axes = s.asarray(), s.axes
        good = good and ns == 1 and axes == "ZXY" and arr.shape == (zz, x, y) and all(np.array_equal(arr[k], frames[k]) for k in range(zz))
        from swcgeom.images.io import read_imgs

        back = np.asarray(read_imgs(f, dtype=np.uint8).get_full())
        good = good and back.shape == (x, y, zz, 1) and all(np.array_equal(back[:, :, k, 0], frames[k]) for k in range(zz))
    check("tifffile.TiffWriter: ONE (1, X, Y) block, or Z = 2, 3 pages (X, Y), with axes 'ZXY' -> ONE series (Z, X, Y) 'ZXY' = the frames; read_imgs gives (X, Y, Z, 1) (12 cases, Z = 1, 2, 3)", good)
    print(f"     note: ONE page is a 2-D series {one} - the axes string is dropped (finding: a one-slice raster file cannot be read back)")
    good = True
    for shp, dt in [((2, 3, 5), "uint8"), ((2, 3, 5, 3), "uint16"), ((1, 1, 1), "float32"), ((4, 1, 2, 1), "float32")]:
        a = (np.arange(int(np.prod(shp))) % 251).astype(dt).reshape(shp)
        f = os.path.join(base, "n.nrrd")
        nrrd.write(f, a)
        dF, _ = nrrd.read(f)
        dC, _ = nrrd.read(f, index_order="C")
        good = good and np.array_equal(dF, a) and dF.dtype == a.dtype and np.array_equal(dC, a.transpose())
        f2 = os.path.join(base, "n.npy")
        np.save(f2, a)
        b = np.load(f2)
        good = good and np.array_equal(b, a) and b.dtype == a.dtype
    check("nrrd.read: index_order='F' gives the written array, 'C' its axes reversed; np.load gives the saved array", good)
    from v3dpy.loaders import PBD, Raw

    good = True
    for (x, y, zz, c), dt, L in itertools.product([(4, 3, 2, 1), (2, 3, 5, 1), (1, 1, 1, 1), (3, 2, 2, 3)], ("uint8", "uint16"), (Raw, PBD)):
        czyx = (np.arange(x * y * zz * c) % 251).astype(dt).reshape(c, zz, y, x)
        f = os.path.join(base, "v.v3draw" if L is Raw else "v.v3dpbd")
        L().save(f, czyx)
        got = L().load(f)
        good = good and got.shape == (c, zz, y, x) and np.array_equal(got, czyx)
    check("v3dpy Raw / PBD: load(path) is indexed [c, z, y, x] (the REVERSED header sizes x, y, z, c)", good)
finally:
    shutil.rmtree(base, ignore_errors=True)

# ------------------------------------------------------------------------------------------------ C. sdflit
from sdflit import ColoredMaterial, ObjectsScene, RangeSampler, SDFObject, Sphere


def scene_of(spheres):
    material = ColoredMaterial((1, 0, 0)).into()
    sc = ObjectsScene()
    sc.set_background((0, 0, 0))
    for c, r in spheres:
        sc.add_object(SDFObject(Sphere(c, r).into(), material).into())
    sc.build_bvh()
    return sc.into()


def count(lo, hi, st):
    k = 0
    while lo + k * st < hi:
        k += 1
    return k


spheres = [((1.0, 2.0, 0.5), 1.25), ((4.0, 1.0, 0.5), 0.8)]
scene = scene_of(spheres)
good_shape = good_vals = True
eps = 1e-6
for (lo, hi, st) in [((-1.0, -1.0, 0.5), (6.0, 4.0, 0.5 + 1.0 - eps), (1.0, 1.0, 1.0)), ((-0.75, -0.5, 0.25), (6.0, 4.0, 0.25 + 0.5 - eps), (0.5, 0.75, 0.5)),
                     ((-0.5, -0.5, 0.5), (5.2, 3.9, 0.5 + 3.0 - eps), (1.5, 0.75, 3.0)), ((0.0, 0.0, 0.0), (5.0, 3.0, 2.0), (1.0, 1.0, 1.0))]:
    vox = np.asarray(RangeSampler(lo, hi, st).sample(scene))
    want = tuple(count(lo[k], hi[k], st[k]) for k in range(3)) + (3,)
    good_shape = good_shape and vox.shape == want
    for i, j, k in itertools.product(*[range(n) for n in vox.shape[:3]]):
        p = np.array([lo[0] + i * st[0], lo[1] + j * st[1], lo[2] + k * st[2]])
        g = min(np.linalg.norm(p - np.array(c)) - r for c, r in spheres)
        if abs(g) > 1e-3:
            good_vals = good_vals and (vox[i, j, k, 0] == (1.0 if g < 0 else 0.0)) and vox[i, j, k, 1] == 0.0 and vox[i, j, k, 2] == 0.0
check("RangeSampler(min, max, stride).sample(scene): shape (X, Y, Z, 3), one index per k >= 0 with min + k * stride < max; [z, z + dz - eps] gives Z = 1", good_shape)
check("... voxel [i, j, k] is the colour at min + (i, j, k) * stride: red (1, 0, 0) inside the UNION of the scene's objects, the black background outside", good_vals)

# ------------------------------------------------------------------------------------------------ D. functools.cache / lru_cache
import functools

calls_seen = []


def probe(x):
    calls_seen.append(x)
    return (x, x * 2)


good = True
for deco in (functools.cache, functools.lru_cache(maxsize=2), functools.lru_cache(maxsize=None), functools.lru_cache):
    g = deco(probe)
    good = good and all(g(x) == probe(x) for x in (1, 2, 3, 1, 2, 3, 1))
check("functools.cache / lru_cache(maxsize) / lru_cache: the decorated function returns what the function returns (model: MemoFn runs the body)", good)

# ------------------------------------------------------------------------------------------------ E. itertools.islice / chain on a one-shot iterator, frame[np.newaxis]
from pyvc.models import BUILTIN_MODELS, as_sequence
from pyvc.values import Iter, Opaque

E.spec_mode = 0
good = True
for c in range(0, 6):
    for stop in (0, 1, 2, 3):
        # concrete iterator
        it = Iter(PList(list(range(10, 10 + c))))
        head = BUILTIN_MODELS[list](E, [X._islice(E, [it, stop], {})], {})
        py_it = iter(range(10, 10 + c))
        py_head = list(itertools.islice(py_it, stop))
        chained = X._chain(BUILTIN_MODELS[itertools.chain])(E, [head, it], {})
        got = list(chained.seq.items) if isinstance(chained, Iter) else None
        good = good and head.items == py_head and got == list(itertools.chain(py_head, py_it))
        # iterator over a list of SYMBOLIC length n, with n pinned to c (the model forks on n > 0, n > 1, ...; the pinned value decides every fork)
        E.pc, E.trace, E.pos, E.worklist = [], [], 0, []
        p = PList.fresh("ref", name="fr")
        p.proto = X.FRAME_PROTO
        E.assume(zint_ := (p.n == c))
        it = Iter(p)
        head = BUILTIN_MODELS[list](E, [X._islice(E, [it, stop], {})], {})
        want_head = min(stop, c)
        good = good and len(head.items) == want_head and all(z3.simplify(h.z).eq(z3.simplify(z3.Select(p.cols[0], j))) for j, h in enumerate(head.items))
        n_left, g_left = as_sequence(E, it)
        n_left = n_left if isinstance(n_left, int) else z3.simplify(z3.substitute(n_left, (p.n, z3.IntVal(c)))).as_long()
        good = good and n_left == c - want_head
        ch = X._chain(BUILTIN_MODELS[itertools.chain])(E, [head, it], {})
        n_all, g_all = ch.__pyvc_sequence__(E)
        n_all = n_all if isinstance(n_all, int) else z3.simplify(z3.substitute(n_all, (p.n, z3.IntVal(c)))).as_long()
        good = good and n_all == c
        for k in range(c):  # entry k of chain(head, rest) is entry k of the original list
            v = g_all(Sym(z3.IntVal(k), "int"))
            good = good and z3.simplify(z3.substitute(v.z, (p.n, z3.IntVal(c)))).eq(z3.simplify(z3.Select(p.cols[0], k)))
E.pc = []
check("itertools.islice(iterator, stop) + list + itertools.chain(head, iterator): concrete iterators and iterators over symbolic-length lists with the length pinned to 0..5, stop 0..3 (48 cases)", good)
fr = Opaque(z3.Int("some_frame"), X.FRAME_PROTO)
nb = X._frame_getitem(E, fr, [None], {})
a = np.arange(12).reshape(3, 4)
check("frame[np.newaxis]: np.newaxis is None; numpy gives shape (1, X, Y) with block[0] = frame (model: ghost function frame_with_leading_axis of the frame)",
      np.newaxis is None and a[np.newaxis].shape == (1, 3, 4) and np.array_equal(a[np.newaxis][0], a) and nb.z.eq(X.FRAME_NEWAXIS0(fr.z)))

print("ALL OK" if ok else "SOME MODEL DISAGREES")
sys.exit(0 if ok else 1)
