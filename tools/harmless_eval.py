#!/usr/bin/env python3
"""Confirm a behaviour-preserving edit and run checks against it: the checks must stay silent (exit 0).

usage: tools/harmless_eval.py <src-dir with patch.diff equiv.py meta.json> <id> [Cxx ...extra properties | ALL]
Scratch copy of /repo under /var/tmp (a git checkout of HEAD + the patch), removed afterwards.
Writes /verif/harmless/<id>/{patch.diff,equiv.py,meta.json}.
"""
import json
import os
import shutil
import subprocess
import sys
import time

HERE = os.path.dirname(os.path.dirname(os.path.abspath(__file__)))
PY = "/venv/bin/python"


def run(cmd, cwd=None, env=None, timeout=3600):
    e = dict(os.environ)
    e.update(env or {})
    p = subprocess.run(cmd, cwd=cwd, env=e, stdout=subprocess.PIPE, stderr=subprocess.STDOUT, text=True, timeout=timeout)
    return p.returncode, p.stdout


def main():
    src, hid = sys.argv[1], sys.argv[2]
    meta = json.load(open(os.path.join(src, "meta.json")))
    prop = meta["property"]
    extra = sys.argv[3:]
    if "ALL" in extra:
        props = [f"C{i:02d}" for i in range(1, 21)]
    else:
        props = [prop] + [p for p in extra if p != prop]
    scratch = f"/var/tmp/harm-{hid}-{os.getpid()}"
    shutil.rmtree(scratch, ignore_errors=True)
    rec = dict(id=hid, property=prop, at=time.strftime("%Y-%m-%d %H:%M:%S"))
    try:
        os.makedirs(scratch)
        subprocess.run(f"git -C /repo archive HEAD | tar x -C {scratch}", shell=True, check=True)
        run(["git", "init", "-q", "."], cwd=scratch)
        run(["git", "add", "-A"], cwd=scratch)
        run(["git", "-c", "user.email=a@b", "-c", "user.name=x", "commit", "-qm", "base"], cwd=scratch)
        rc, out = run(["git", "apply", os.path.abspath(os.path.join(src, "patch.diff"))], cwd=scratch)
        rec["patch_applies"] = rc == 0
        if rc != 0:
            rec["patch_output"] = out[-800:]
            print(json.dumps(rec, indent=1))
            return 2
        rc, out = run([PY, "-m", "pytest", "-q", "-p", "no:cacheprovider", "-x"], cwd=scratch, timeout=900)
        rec["tests_with_change"] = out.strip().splitlines()[-1] if out.strip() else ""
        os.makedirs(os.path.join(scratch, "_harmless"), exist_ok=True)
        shutil.copy(os.path.join(src, "equiv.py"), os.path.join(scratch, "_harmless", "equiv.py"))
        rc1, out1 = run([PY, "_harmless/equiv.py"], cwd=scratch, env={"PYTHONPATH": scratch}, timeout=1800)
        rec["equiv_exit"], rec["equiv_tail"] = rc1, out1.strip()[-300:]
        rec["confirmed"] = bool(rc == 0 and rc1 == 0)
        rec["checks"] = {}
        for p in props:
            t0 = time.time()
            rc, out = run([os.path.join(HERE, "check"), p, "--tier", "quick", "-v"], cwd=HERE, env={"VERIF_REPO": scratch, "VERIF_EVIDENCE_DIR": os.path.join(scratch, ".evidence")})
            lines = [ln for ln in out.splitlines() if ln.startswith(("VIOLATION", "KNOWN-FINDING", "UNDECIDED", "MACHINERY-ERROR")) or ln.startswith(p + ":")]
            rec["checks"][p] = dict(exit=rc, wall_s=round(time.time() - t0, 1), lines=[ln[:400] for ln in lines][:14])
        rec["silent"] = all(c["exit"] == 0 for c in rec["checks"].values())
    finally:
        shutil.rmtree(scratch, ignore_errors=True)
    out_dir = os.path.join(HERE, "harmless", hid)
    os.makedirs(out_dir, exist_ok=True)
    if os.path.realpath(src) != os.path.realpath(out_dir):
        for f in ("patch.diff", "equiv.py"):
            shutil.copy(os.path.join(src, f), os.path.join(out_dir, f))
    m2 = dict(property=prop, what=meta.get("what"), why_harmless=meta.get("why_harmless"), files=meta.get("files"),
              origin="independent sub-agent given only the property text and a scratch worktree", evaluation=rec)
    json.dump(m2, open(os.path.join(out_dir, "meta.json"), "w"), indent=1)
    print(f"{hid}: confirmed={rec.get('confirmed')} silent={rec.get('silent')} " + " ".join(f"{p}:exit={c['exit']}" for p, c in rec.get("checks", {}).items()))
    for p, c in rec.get("checks", {}).items():
        if c["exit"] != 0:
            for ln in c["lines"]:
                print("   ", ln[:300])
    return 0


if __name__ == "__main__":
    sys.exit(main())
