"""Cross-check of the models added for C19 in the third session against the real libraries:
np.searchsorted (pyvc/ext_C19.py) against numpy;  L[a:b:step] of a symbolic-length list with a concrete step
(pyvc/npmodels.py: plist_slice) against CPython.

Run:  /verif/.venv/bin/python tools/xcheck_C19_models.py [cases=400]      (exit 0 = the model agrees with numpy on every case)

The REAL model function is run through a pyvc engine on an array of SYMBOLIC length whose cells are pinned to the numbers of the
case (ascending, duplicates and empty arrays included, int and float values, both sides).  Checked per case:
  * the sortedness obligation the model emits is provable on an ascending array, and NOT provable on a shuffled one;
  * the path condition (the model's axioms) admits numpy's answer and no other value of the result.
List slices: a list of symbolic length pinned to the case, start / stop symbolic (pinned) or missing, step in -3..3 except 0:
length and every element of the model's result must be CPython's.
"""
import os
import random
import sys

sys.path.insert(0, os.path.dirname(os.path.dirname(os.path.abspath(__file__))))
import numpy as np
import z3

from pyvc import ext_C19 as X
from pyvc.spec import Registry
from pyvc.values import SArr, fresh
from pyvc.verify import Verifier

bad = 0


def engine():
    E = Verifier(Registry(), "C19")
    E.cur_key = "xcheck:models"
    return E


def sym_array(E, vals, name):
    a = SArr.fresh("int", name=name)
    E.assume(a.nz() == len(vals))
    for i, x in enumerate(vals):
        E.assume(z3.Select(a.arr, i) == int(x))
    return a


def holds(hyps, goal):
    s = z3.Solver()
    s.add(*hyps)
    s.add(z3.Not(goal))
    return s.check() == z3.unsat


def main():
    global bad
    cases = int(sys.argv[1]) if len(sys.argv) > 1 else 400
    rng = random.Random(19)
    for c in range(cases):
        vals = sorted(rng.randint(-3, 6) for _ in range(rng.randint(0, 7)))
        side = rng.choice(["left", "right"])
        as_float = rng.random() < 0.3
        x = rng.randint(-5, 8) + (rng.choice([0.0, 0.5]) if as_float else 0)
        want = int(np.searchsorted(np.array(vals, dtype=np.int64), x, side=side))
        E = engine()
        a = sym_array(E, vals, "a")
        v = fresh("real" if as_float else "int", "v")
        E.assume(v.z == (z3.RealVal(str(x)) if as_float else int(x)))
        n0 = len(E.obligs)
        form = rng.choice(["keyword", "positional"] + (["default"] if side == "left" else []))
        args, kw = {"keyword": ([a, v], dict(side=side)), "positional": ([a, v, side], {}), "default": ([a, v], {})}[form]
        got = X._np_searchsorted(E, list(args), dict(kw))
        obs = E.obligs[n0:]
        if len(obs) != 1 or not holds(obs[0].hyps, obs[0].goal):
            bad += 1
            print("MISMATCH: sortedness obligation not provable on an ascending array", vals)
        s = z3.Solver()
        s.add(*E.pc)
        s.push()
        s.add(got.z == want)
        ok1 = s.check() == z3.sat
        s.pop()
        s.add(got.z != want)
        ok2 = s.check() == z3.unsat
        if not (ok1 and ok2):
            bad += 1
            print("MISMATCH searchsorted", vals, x, side, "numpy:", want, "admits-numpy:", ok1, "unique:", ok2)
        # an array that is NOT ascending: the obligation must not be provable
        if len(set(vals)) >= 2:
            sh = list(vals)
            while sh == sorted(sh):
                rng.shuffle(sh)
            E = engine()
            a = sym_array(E, sh, "a")
            n0 = len(E.obligs)
            X._np_searchsorted(E, [a, 0], {})
            ob = E.obligs[n0]
            if holds(ob.hyps, ob.goal):
                bad += 1
                print("MISMATCH: sortedness obligation provable on", sh)
    print(f"np.searchsorted: {cases} cases, {bad} mismatches")
    bad0 = bad
    from pyvc import npmodels
    from pyvc.values import PList

    for c in range(cases):
        vals = [rng.randint(0, 50) for _ in range(rng.randint(0, 6))]
        n = len(vals)
        pick = lambda: rng.choice([None, rng.randint(-n - 2, n + 2)])
        a, b, st = pick(), pick(), rng.choice([-3, -2, -1, 2, 3, 1, None])
        want = vals[a:b:st]
        E = engine()
        L = PList.fresh("int", name="L")
        E.assume(L.nz() == n)
        for i, x in enumerate(vals):
            E.assume(z3.Select(L.cols[0], i) == x)

        def sym(x, nm):
            if x is None:
                return None
            v = fresh("int", nm)
            E.assume(v.z == x)
            return v

        got = npmodels.plist_slice(E, L, slice(sym(a, "a"), sym(b, "b"), st))
        s = z3.Solver()
        s.add(*E.pc)
        s.add(z3.Or(got.nz() != len(want), *[z3.Select(got.cols[0], i) != x for i, x in enumerate(want)]))
        if s.check() != z3.unsat:
            bad += 1
            print("MISMATCH list slice", vals, (a, b, st), "CPython:", want)
    print(f"list[a:b:step]: {cases} cases, {bad - bad0} mismatches")
    bad0 = bad
    # fourth session: bisect.bisect_left / bisect_right with lo / hi, range objects indexed / sliced, divmod, operator.index
    import bisect

    from pyvc import models as M

    for c in range(cases):
        vals = sorted(rng.randint(-4, 6) for _ in range(rng.randint(0, 7)))
        n = len(vals)
        side = rng.choice(["left", "right"])
        lo = rng.choice([None, rng.randint(0, n + 1)])
        hi = rng.choice([None, rng.randint(0, n)])
        x = rng.randint(-5, 8)
        real = {"left": bisect.bisect_left, "right": bisect.bisect_right}[side]
        want = real(vals, x, 0 if lo is None else lo, n if hi is None else hi)
        E = engine()
        a = sym_array(E, vals, "a")
        v = fresh("int", "v")
        E.assume(v.z == x)
        args = [a, v] + ([] if lo is None and hi is None else [0 if lo is None else lo] + ([] if hi is None else [hi]))
        n0 = len(E.obligs)
        got = X._bisect(side)(E, args, {})
        obs = E.obligs[n0:]
        if len(obs) != 1 or not holds(obs[0].hyps, obs[0].goal):
            bad += 1
            print("MISMATCH: bisect obligation not provable on an ascending list", vals, lo, hi)
        s = z3.Solver()
        s.add(*E.pc)
        s.push()
        s.add(got.z == want)
        ok1 = s.check() == z3.sat
        s.pop()
        s.add(got.z != want)
        ok2 = s.check() == z3.unsat
        if not (ok1 and ok2):
            bad += 1
            print("MISMATCH bisect", vals, x, side, lo, hi, "CPython:", want, "admits:", ok1, "unique:", ok2)
    print(f"bisect: {cases} cases, {bad - bad0} mismatches")
    bad0 = bad
    for c in range(cases):
        lo, hi, st = rng.randint(-3, 4), rng.randint(-3, 8), rng.choice([1, 1, 2, 3, -1, -2])
        r = range(lo, hi, st)
        E = engine()
        E.spec_mode = True  # (value only: the IndexError branch of an out-of-range index is exercised by the hunt rewrites)
        sl, sh = fresh("int", "lo"), fresh("int", "hi")
        E.assume(sl.z == lo)
        E.assume(sh.z == hi)
        R = M._SymRange(sl, sh, st)
        if len(r) and rng.random() < 0.5:
            i = rng.randint(0, len(r) - 1)  # (negative / out-of-range indices are program branches: `_get_idx` rewritten as `range(length)[key]` is proved against its contract)
            iv = fresh("int", "i")
            E.assume(iv.z == i)
            got = M.getitem(E, R, iv)
            s = z3.Solver()
            s.add(*E.pc)
            s.add(got.z != r[i])
            if s.check() != z3.unsat:
                bad += 1
                print("MISMATCH range index", r, i)
        else:
            n = len(r)
            pick = lambda: rng.choice([None, rng.randint(-n - 2, n + 2)])
            a, b, c2 = pick(), pick(), rng.choice([None, 1, 2, -1, -2])
            want = list(r[a:b:c2])

            def sym(x, nm):
                if x is None:
                    return None
                v = fresh("int", nm)
                E.assume(v.z == x)
                return v

            got = M.getitem(E, R, slice(sym(a, "a"), sym(b, "b"), c2))
            gn, gg = M.as_sequence(E, got)
            from pyvc.values import Sym, zint

            s = z3.Solver()
            s.add(*E.pc)
            s.add(z3.Or(zint(gn) != len(want), *[gg(Sym(z3.IntVal(i), "int")).z != x for i, x in enumerate(want)]))
            if s.check() != z3.unsat:
                bad += 1
                print("MISMATCH range slice", r, (a, b, c2), "CPython:", want)
    print(f"range[i] / range[a:b:c]: {cases} cases, {bad - bad0} mismatches")
    bad0 = bad
    for c in range(cases):
        a, b = rng.randint(-9, 9), rng.choice([-4, -3, -1, 1, 2, 3, 5])
        E = engine()
        av, bv = fresh("int", "a"), fresh("int", "b")
        E.assume(av.z == a)
        E.assume(bv.z == b)
        q, r = X._b_divmod(E, [av, bv], {})
        s = z3.Solver()
        s.add(*E.pc)
        s.add(z3.Or(q.z != divmod(a, b)[0], r.z != divmod(a, b)[1]))
        if s.check() != z3.unsat:
            bad += 1
            print("MISMATCH divmod", a, b)
    print(f"divmod: {cases} cases, {bad - bad0} mismatches")
    return 1 if bad else 0


if __name__ == "__main__":
    sys.exit(main())
