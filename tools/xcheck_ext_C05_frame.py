"""Cross-check of pyvc/ext_C05_frame.py (dtype-faithful casts, whole-table frame operations) against numpy / pandas.

Run:  /verif/.venv/bin/python tools/xcheck_ext_C05_frame.py [cases=40]     (also run at the end of tools/xcheck_ext_C05.py)

A. casts.  For every modelled dtype pair and a grid of values (around 0, 2**24, 2**53, 2**62, 2**63, 2**64; fractions, negatives) numpy's
   own `astype` result must SATISFY the axioms the model assumes about `cast_<src>_<dst>` (the axiom instance at that value, with the
   function value replaced by numpy's, must be satisfiable together with the other instances): the model never excludes what numpy
   does.  The report also counts the values on which int -> float -> int is NOT the identity in numpy (all of them beyond 2**53).
B. frames.  A pandas frame with random contents (integers up to 2**62, uint64 above 2**63, float32, bool, str columns) and a frame of
   the model pinned to the same cells go through the same operation: to_numpy()[idx] stored back with df[:] / df.iloc[:] / df.loc[:, :],
   df[:] = df.iloc[idx], iloc / take / loc / reindex (+ reset_index), column stores with and without index labels.  Column dtypes
   must agree; cells whose value the model determines (no lossy cast on the way) must be ENTAILED, cells that went through a lossy cast
   must ADMIT pandas' value; a TypeError of pandas (non-integral floats into an int column) must be a TypeError path of the model.
"""
import os
import random
import sys
import warnings
from fractions import Fraction

sys.path.insert(0, os.path.dirname(os.path.dirname(os.path.abspath(__file__))))
import numpy as np
import pandas as pd
import z3

from pyvc import ext_C05 as X
from pyvc import ext_C05_frame as F
from pyvc.engine import ProgExc
from pyvc.spec import Registry
from pyvc.values import SArr, Sym
from pyvc.verify import Verifier

warnings.simplefilter("ignore")
bad = 0
inconclusive = 0


def engine():
    E = Verifier(Registry(), "C05")
    E.cur_key = "xcheck:frame"
    E.models = X.MODELS
    return E


def mismatch(what):
    global bad
    bad += 1
    print("MISMATCH", what)


def check(hyps, extra, limit=20000):
    """sat / unsat of hyps + extra.  The queries are over frames of a CONCRETE length: pyvc/finite_model.py expands the range-guarded
    quantifiers and instantiates the cast axioms on the ground terms (exact for this fragment); z3 is asked directly otherwise"""
    global inconclusive
    from pyvc import finite_model, smt

    fm = finite_model.search(smt.to_smt2(list(hyps) + [extra], z3.BoolVal(False)), limit)
    if fm is not None:
        return z3.sat if fm[0] == "sat" else z3.unsat
    s = z3.Solver()
    s.set("timeout", limit)
    s.add(*hyps)
    s.add(extra)
    r = s.check()
    if r == z3.unknown:
        inconclusive += 1
        return None
    return r


def zval(v, kind):
    if kind == "bool":
        return z3.BoolVal(bool(v))
    if kind == "int":
        return z3.IntVal(int(v))
    fr = Fraction(float(v))
    return z3.RealVal(fr.numerator) / z3.RealVal(fr.denominator)


# ------------------------------------------------------------------------------------------------ A. casts
INTS = ["int8", "int16", "int32", "int64", "uint8", "uint16", "uint32", "uint64"]
FLOATS = ["float32", "float64"]


def values_for(dt):
    dt = np.dtype(dt)
    if dt.kind == "b":
        return [True, False]
    if dt.kind in "iu":
        ii = np.iinfo(dt)
        grid = [0, 1, -1, 7, -8, 2 ** 24, 2 ** 24 + 1, -(2 ** 24) - 1, 2 ** 31 - 1, 2 ** 53, 2 ** 53 + 1, -(2 ** 53) - 1, 2 ** 62 + 1, 2 ** 63 - 1, -(2 ** 63), 2 ** 63 + 5, 2 ** 64 - 1, 255, 256, 65535]
        return [v for v in grid if ii.min <= v <= ii.max]
    grid = [0.0, 1.0, -1.0, 0.5, -0.5, 2.75, -2.75, 1e6 + 0.25, 2.0 ** 24 + 1, 2.0 ** 53, 2.0 ** 62, -(2.0 ** 62), 0.1, 1 / 3, 123456.789, 1e20, -1e20]
    return [float(dt.type(v)) for v in grid]


def casts():
    lossy_roundtrip = 0
    pairs = [(a, b) for a in INTS + FLOATS + ["bool"] for b in INTS + FLOATS + ["bool"] if a != b]
    for a, b in pairs:
        E = engine()
        f = F.cast_fn(E, a, b)
        ka, kb = F.kind_of_dt(np.dtype(a)), F.kind_of_dt(np.dtype(b))
        facts = []
        for v in values_for(a):
            with np.errstate(all="ignore"):
                r = np.array([v], dtype=a).astype(b)[0]
            if np.dtype(b).kind in "iu" and np.dtype(a).kind == "f":
                tr = int(v)
                ii = np.iinfo(b)
                if not ii.min <= tr <= ii.max:
                    continue  # undefined behaviour in C: numpy's answer is platform dependent and the model says nothing
            facts.append(f(zval(v, ka)) == zval(r, kb))
            if np.dtype(b).kind == "f" and np.dtype(a).kind in "iu":
                back = int(np.array([r], dtype=b).astype(np.float64)[0])
                if back != int(v):
                    lossy_roundtrip += 1
                    if abs(int(v)) <= 2 ** F._mant(np.dtype(b)):
                        mismatch(f"cast {a}->{b}: numpy loses {v} although |v| <= 2**mantissa")
        if np.dtype(a).kind == "f" and np.dtype(b).kind == "f" and np.dtype(a).itemsize < np.dtype(b).itemsize:
            g = F.cast_fn(E, b, a)
            for v in values_for(a):
                w = np.array([v], dtype=a).astype(b)[0]
                facts.append(g(zval(w, kb)) == zval(np.array([w], dtype=b).astype(a)[0], ka))
        if facts and check(E.pc, z3.And(*facts)) != z3.sat:
            mismatch(f"cast {a}->{b}: the axioms exclude numpy's values")
    print(f"casts: {len(pairs)} dtype pairs; numpy's int -> float conversion is lossy on {lossy_roundtrip} grid values, all beyond 2**mantissa")


# ------------------------------------------------------------------------------------------------ B. frames
def random_frame(rng, n, profile):
    big = lambda: rng.choice([rng.randrange(-50, 50), 2 ** 53 + rng.randrange(1, 999, 2), 2 ** 62 + rng.randrange(1, 9999, 2), -(2 ** 61) - rng.randrange(1, 99, 2), 2 ** 53 - rng.randrange(0, 9)])
    cols = dict(id=np.array(rng.sample(range(1, 10 * n + 10), n), dtype=np.int64), x=np.array([rng.uniform(-100, 100) for _ in range(n)]))
    if "i" in profile:
        cols["u"] = np.array([big() for _ in range(n)], dtype=np.int64)
    if "q" in profile:
        cols["q"] = np.array([rng.choice([rng.randrange(0, 99), 2 ** 63 + rng.randrange(1, 99, 2), 2 ** 53 + 1]) for _ in range(n)], dtype=np.uint64)
    if "f" in profile:
        cols["f"] = np.array([rng.uniform(-3, 3) for _ in range(n)], dtype=np.float32)
    if "b" in profile:
        cols["b"] = np.array([rng.random() < 0.5 for _ in range(n)])
    if "s" in profile:
        cols["s"] = np.array([f"s{rng.randrange(5)}" for _ in range(n)], dtype=object)
    if "h" in profile:
        cols["h"] = np.array([rng.randrange(-30000, 30000) for _ in range(n)], dtype=np.int32)
    return pd.DataFrame(cols)


def pin(E, pdf):
    """the model's frame with the cells of `pdf` (str cells -> an injective integer id)"""
    ids = {}
    dts = {c: (object if pdf[c].dtype.kind in "OUT" or str(pdf[c].dtype).startswith(("str", "string")) else pdf[c].dtype) for c in pdf.columns}
    df = F.typed_frame(type("S", (), {"eng": E})(), dts, n=len(pdf), name="xf")
    for c in pdf.columns:
        col = df.cols[c]
        for i, v in enumerate(pdf[c].tolist()):
            if dts[c] is object:
                v = ids.setdefault(v, len(ids) + 1)
            E.assume(z3.Select(col.arr, i) == zval(v, col.kind))
    return df, ids


def sym_index(E, idx):
    a = SArr.fresh("int", len(idx), name="xidx")
    for i, v in enumerate(idx):
        E.assume(z3.Select(a.arr, i) == int(v))
    return a


def call(E, obj, name, *args, **kw):
    m = obj.__pyvc_getattr__(E, name)
    return m.model(E, m.recv, list(args), kw)


def compare(E, mdf, pdf, ids, what, lossy_cols=()):
    if list(mdf.cols) != list(pdf.columns):
        return mismatch(f"{what}: columns {list(mdf.cols)} vs pandas {list(pdf.columns)}")
    for c in pdf.columns:
        col = mdf.cols[c]
        pdt = pdf[c].dtype
        is_obj = pdt.kind in "OUT" or str(pdt).startswith(("str", "string"))
        mdt = F.dtype_of(col)
        if (mdt == F.OBJ) != is_obj or (not is_obj and mdt != pdt):
            mismatch(f"{what}: column {c} dtype {mdt} vs pandas {pdt}")
            continue
        want = [ids.get(v, -1) if is_obj else v for v in pdf[c].tolist()]
        cells = [z3.Select(col.arr, i) == zval(v, col.kind) for i, v in enumerate(want)]
        same = z3.And(F.zint(col.n) == len(want), *cells)
        if c in lossy_cols:
            if check(E.pc, same) == z3.unsat:
                mismatch(f"{what}: column {c}: the model EXCLUDES pandas' values {want}")
        elif check(E.pc, z3.Not(same)) == z3.sat:
            mismatch(f"{what}: column {c}: the model admits values other than pandas' {want}")


OPS = {}


def op(name):
    def deco(fn):
        OPS[name] = fn
        return fn

    return deco


@op("df[:] = df.to_numpy()[idx]")
def _(E, m, p, mi, pi):
    arr = call(E, m, "to_numpy").__pyvc_getitem__(E, mi)
    m.__pyvc_setitem__(E, slice(None), arr)
    p[:] = p.to_numpy()[pi]
    return m, p


@op("df.iloc[:] = np.take(df.values, idx, axis=0)")
def _(E, m, p, mi, pi):
    arr = F.np_take(E, [m.__pyvc_getattr__(E, "values"), mi], {"axis": 0})
    m.__pyvc_getattr__(E, "iloc").__pyvc_setitem__(E, slice(None), arr)
    p.iloc[:] = np.take(p.values, pi, axis=0)
    return m, p


@op("df.loc[:, :] = df.to_numpy()[idx]")
def _(E, m, p, mi, pi):
    arr = call(E, m, "to_numpy").__pyvc_getitem__(E, mi)
    m.__pyvc_getattr__(E, "loc").__pyvc_setitem__(E, (slice(None), slice(None)), arr)
    p.loc[:, :] = p.to_numpy()[pi]
    return m, p


@op("df[:] = df.iloc[idx]")
def _(E, m, p, mi, pi):
    m.__pyvc_setitem__(E, slice(None), m.__pyvc_getattr__(E, "iloc").__pyvc_getitem__(E, mi))
    p[:] = p.iloc[pi]
    return m, p


@op("df.loc[:] = df.iloc[idx]  (aligned)")
def _(E, m, p, mi, pi):
    m.__pyvc_getattr__(E, "loc").__pyvc_setitem__(E, slice(None), m.__pyvc_getattr__(E, "iloc").__pyvc_getitem__(E, mi))
    p.loc[:] = p.iloc[pi]
    return m, p


@op("df.iloc[idx].reset_index(drop=True)")
def _(E, m, p, mi, pi):
    return call(E, m.__pyvc_getattr__(E, "iloc").__pyvc_getitem__(E, mi), "reset_index", drop=True), p.iloc[pi].reset_index(drop=True)


@op("df.take(idx) / df.loc[idx] / df.reindex(idx): labels and values")
def _(E, m, p, mi, pi):
    a, b, c = call(E, m, "take", mi), m.__pyvc_getattr__(E, "loc").__pyvc_getitem__(E, mi), call(E, m, "reindex", mi)
    for x, y, nm in ((a, p.take(pi), "take"), (b, p.loc[pi], "loc"), (c, p.reindex(pi), "reindex")):
        lab = x.index
        if check(E.pc, z3.Or(*[z3.Select(lab.arr, i) != int(v) for i, v in enumerate(y.index.tolist())])) == z3.sat:
            mismatch(f"{nm}: index labels differ from pandas' {y.index.tolist()}")
        compare(E, x, y, IDS[0], nm)
    return a, p.take(pi)


@op("for c: df[c] = df[c][idx]  (aligned: Series keeps its labels)")
def _(E, m, p, mi, pi):
    for c in list(p.columns):
        m.__pyvc_setitem__(E, c, m.__pyvc_getitem__(E, c).__pyvc_getitem__(E, mi))
        p[c] = p[c][pi]
    return m, p


@op("for c: df[c] = df[c][idx].to_numpy()")
def _(E, m, p, mi, pi):
    for c in list(p.columns):
        s = m.__pyvc_getitem__(E, c).__pyvc_getitem__(E, mi)
        m.__pyvc_setitem__(E, c, call(E, s, "to_numpy"))
        p[c] = p[c][pi].to_numpy()
    return m, p


@op("for c: df[c] = df.iloc[idx][c]  (aligned)")
def _(E, m, p, mi, pi):
    t, tp = m.__pyvc_getattr__(E, "iloc").__pyvc_getitem__(E, mi), p.iloc[pi]
    for c in list(p.columns):
        m.__pyvc_setitem__(E, c, t.__pyvc_getitem__(E, c))
        p[c] = tp[c]
    return m, p


@op("df[:] = df.to_numpy()[idx] + 0.5  (TypeError for integer columns)")
def _(E, m, p, mi, pi):
    arr = call(E, m, "to_numpy").__pyvc_getitem__(E, mi)
    if arr.dtype.kind == "f":
        half = z3.RealVal("1/2")
        arr = F.FrameArr([SArr(z3.Lambda([J], z3.Select(c.arr, J) + half), c.n, "real", dtype=c.dtype) for c in arr.cols], arr.n, arr.dtype)
        m.__pyvc_setitem__(E, slice(None), arr)
        p[:] = p.to_numpy()[pi] + 0.5
    return m, p


J = z3.Int("xj")
IDS = [{}]


def frames(cases):
    rng = random.Random(11)
    profiles = ["", "i", "iq", "if", "ib", "is", "qf", "ih", "iqfbs", "f"]
    ran = 0
    for t in range(cases):
        n = rng.randrange(1, 6)
        prof = profiles[t % len(profiles)]
        perm = list(range(n))
        rng.shuffle(perm)
        for name, fn in OPS.items():
            pdf = random_frame(random.Random(t), n, prof)
            E = engine()
            mdf, ids = pin(E, pdf)
            IDS[0] = ids
            mi, pi = sym_index(E, perm), np.array(perm)
            common = pdf.to_numpy().dtype
            # columns that pass through a lossy cast in this operation: integers beyond the mantissa of the common float dtype
            lossy = [c for c in pdf.columns if "to_numpy" in name or "values" in name if pdf[c].dtype.kind in "iu" and common.kind == "f"
                     and any(abs(int(v)) > 2 ** F._mant(common) for v in pdf[c].tolist())]
            merr = None
            pdf2 = random_frame(random.Random(t), n, prof)
            E2 = engine()
            mdf2, ids2 = pin(E2, pdf2)
            IDS[0] = ids2
            mi2 = sym_index(E2, perm)
            try:
                mres, pres = fn(E2, mdf2, pdf2, mi2, pi)
            except ProgExc as e:
                merr = e.cls.__name__ if hasattr(e, "cls") else str(e.args[0])
                try:
                    OPS_PANDAS_ONLY(name, random_frame(random.Random(t), n, prof), pi)
                    mismatch(f"{name} [{prof}]: the model raises {merr}, pandas does not")
                except Exception as pe:
                    if type(pe).__name__ not in str(merr) and merr not in ("TypeError", "ValueError"):
                        mismatch(f"{name} [{prof}]: model raises {merr}, pandas {type(pe).__name__}")
                ran += 1
                continue
            except (TypeError, ValueError) as pe:
                # the model forks on pandas' acceptance test and this run followed the accepting branch: on these cells it must be infeasible
                if check(E2.pc, z3.BoolVal(True)) != z3.unsat:
                    mismatch(f"{name} [{prof}]: pandas raises {type(pe).__name__}: {str(pe)[:60]}, the model's accepting path is feasible")
                ran += 1
                continue
            except F.Unsupported:
                continue
            compare(E2, mres, pres, ids2, f"{name} [{prof}] n={n}", lossy)
            ran += 1
    print(f"frames: {ran} operation runs on {cases} random frames")


def OPS_PANDAS_ONLY(name, p, pi):
    """the pandas half of an operation alone (used when the model took the error path)"""
    if name.startswith("df[:] = df.to_numpy()[idx] + 0.5"):
        p[:] = p.to_numpy()[pi] + 0.5
    elif name.startswith("df[:] = df.to_numpy()[idx]"):
        p[:] = p.to_numpy()[pi]
    else:
        raise RuntimeError("no pandas-only form")


def main():
    cases = int(sys.argv[1]) if len(sys.argv) > 1 else 40
    casts()
    frames(cases)
    print(f"xcheck_ext_C05_frame: mismatches={bad} inconclusive={inconclusive}")
    return 1 if bad or inconclusive else 0


if __name__ == "__main__":
    sys.exit(main())
