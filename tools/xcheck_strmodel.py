"""Cross-check of the models added for C01 (third session) against CPython on random concrete inputs:

  * pyvc/npmodels.py: filtered_comprehension  ([e(x) for x in S if c(x)] over a symbolic-length S; FILTER_MODEL axioms),
  * pyvc/models.py: _extend_concrete_by_symbolic (concrete_list.extend(symbolic list)), concat_lists with a concrete list of strings,
  * pyvc/loops.py: _append_loop  (for x in S: [if c(x):] L.append(e(x))  ==  L.extend(...)),
  * pyvc/strmodel.py: the facts about str the abstract-string model builds in (everything else there is an uninterpreted function of the
    receiver's text and the arguments, i.e. only assumes that str methods are FUNCTIONS of their inputs).

Run:  /verif/.venv/bin/python tools/xcheck_strmodel.py [cases=150]      (exit 0 = every model agrees with CPython)

The real model functions are run through a pyvc engine on lists of SYMBOLIC length whose cells are pinned to the numbers of the case;
length and every cell of the result are compared with CPython's by asking z3 whether the path condition admits a different value (it
must not) - and whether the path condition is satisfiable at all (it must be: the axioms hold for the real result).
"""
import ast
import os
import random
import sys

sys.path.insert(0, os.path.dirname(os.path.dirname(os.path.abspath(__file__))))
import z3

from pyvc import strmodel
from pyvc.engine import Frame
from pyvc.spec import Registry
from pyvc.values import Iter, PList, Sym
from pyvc.verify import Verifier

bad = 0


def engine():
    E = Verifier(Registry(), "C01")
    E.cur_key = "xcheck:models"
    return E


def sym_list(E, vals, name):
    p = PList.fresh("int", name=name)
    E.assume(p.n == len(vals))
    for i, x in enumerate(vals):
        E.assume(z3.Select(p.cols[0], i) == int(x))
    return p


def agree(E, out, want, what):
    global bad
    if isinstance(out, Iter):
        out = out.seq
    s = z3.Solver()
    s.set("timeout", 20000)
    s.add(*E.pc)
    if s.check() != z3.sat:
        bad += 1
        print("MODEL AXIOMS NOT SATISFIABLE (or undecided) on", what)
        return
    if out.items is not None:
        if [int(x) for x in out.items] != list(want):
            bad += 1
            print("MISMATCH", what, "python:", list(want), "model:", out.items)
        return
    s.add(z3.Or(out.nz() != len(want), *[z3.Select(out.cols[0], i) != int(x) for i, x in enumerate(want)]))
    r = s.check()
    if r != z3.unsat:
        bad += 1
        print("MISMATCH" if r == z3.sat else "UNDECIDED", what, "python:", list(want))


COMPS = [
    "[x for x in S if x % 3 == 0]",
    "[x * 2 + 1 for x in S if x > 2]",
    "[x for x in S if x > 2 if x < 7]",
    "[x for x in S if x != x]",
    "[x - 1 for x in S if x == x]",
    "[x for x in S if not x % 2 == 0]",
]
LOOPS = [
    "for x in S:\n    L.append(x + 1)",
    "for x in S:\n    if x % 2 == 1:\n        L.append(x)",
]


def main():
    cases = int(sys.argv[1]) if len(sys.argv) > 1 else 150
    rng = random.Random(11)
    for c in range(cases):
        vals = [rng.randint(-3, 9) for _ in range(rng.randint(0, 6))]
        # ---- filtered comprehension over a symbolic-length list
        src = COMPS[c % len(COMPS)]
        E = engine()
        S = sym_list(E, vals, "S")
        fr = Frame(vars={"S": S})
        E.cur_frame = fr
        out = E.ev(ast.parse(src, mode="eval").body, fr)
        agree(E, out, eval(src, {"S": vals}), f"{src} S={vals}")
        # ---- concrete list .extend(symbolic list) / concrete + symbolic
        pre = [rng.randint(-3, 9) for _ in range(rng.randint(0, 3))]
        E = engine()
        S = sym_list(E, vals, "S")
        L = PList(list(pre))
        E.models.LIST_METHODS["extend"](E, L, [S], {})
        agree(E, L, pre + vals, f"{pre}.extend(S) S={vals}")
        E = engine()
        S = sym_list(E, vals, "S")
        out = E.binop(ast.Add(), PList(list(pre)), S)
        agree(E, out, pre + vals, f"{pre} + S S={vals}")
        # ---- append loop without a loop contract
        src = LOOPS[c % len(LOOPS)]
        E = engine()
        S = sym_list(E, vals, "S")
        L = PList(list(pre))
        fr = Frame(vars={"S": S, "L": L})
        fr.func = None
        E.cur_frame = fr
        E.exec_block(ast.parse(src).body, fr)
        env = {"S": vals, "L": list(pre)}
        exec(src, env)
        agree(E, L, env["L"], f"{src!r} L={pre} S={vals}")
    # ---- lists of strings: a concrete prefix of literals next to a symbolic list of abstract strings
    E = engine()
    S = strmodel.str_list("S")
    E.assume(S.n == 2)
    L = PList(["source: a", ""])
    E.models.LIST_METHODS["extend"](E, L, [S], {})
    s = z3.Solver()
    s.add(*E.pc)
    want = [strmodel.lit(E, "source: a"), z3.IntVal(0), z3.Select(S.cols[0], 0), z3.Select(S.cols[0], 1)]
    s.add(z3.Or(L.nz() != 4, *[z3.Select(L.cols[0], i) != w for i, w in enumerate(want)]))
    global bad
    if s.check() != z3.unsat:
        bad += 1
        print("MISMATCH extend of a list of literals by a list of abstract strings")
    s = z3.Solver()
    s.add(*E.pc)
    s.add(strmodel.lit(E, "source: a") == strmodel.lit(E, "source: b"))
    s.add(*E.pc)
    if s.check() != z3.unsat:
        bad += 1
        print("MISMATCH different literals must have different ids")
    # ---- facts about str the abstract-string model builds in
    alphabet = " \t#ab:s\n\x0c\x1c\u00a0\u2003\u200b"
    for _ in range(cases * 20):
        s_ = "".join(rng.choice(alphabet) for _ in range(rng.randint(0, 6)))
        t_ = "".join(rng.choice(alphabet) for _ in range(rng.randint(0, 2)))
        u_ = "".join(rng.choice(alphabet) for _ in range(rng.randint(0, 2)))
        i_ = rng.randint(-8, 8)
        facts = {
            "bool(s) iff s != ''": bool(s_) == (s_ != ""),
            "len(s) >= 0": len(s_) >= 0,
            "startswith(tuple) is any of them": s_.startswith((t_, u_)) == (s_.startswith(t_) or s_.startswith(u_)),
            "endswith(tuple) is any of them": s_.endswith((t_, u_)) == (s_.endswith(t_) or s_.endswith(u_)),
            "str(s) is s": str(s_) == s_ and format(s_, "") == s_ and f"{s_}" == s_,
            "strip(None) is strip()": s_.lstrip(None) == s_.lstrip() and s_.strip(None) == s_.strip() and s_.rstrip(None) == s_.rstrip(),
            "isspace implies non-empty": (not s_.isspace()) or s_ != "",
            "blank iff strip leaves nothing": all((f(s_) == "") == (s_.isspace() or s_ == "") for f in (str.strip, str.lstrip, str.rstrip)),
            "stripping twice is stripping once": all(f(f(s_)) == f(s_) for f in (str.strip, str.lstrip, str.rstrip)),
        }
        try:
            k = s_.index(t_)
            facts["index succeeds iff find >= 0 and is find"] = s_.find(t_) == k and k >= 0
        except ValueError:
            facts["index raises ValueError iff find < 0"] = s_.find(t_) < 0
        try:
            k = s_.rindex(t_)
            facts["rindex succeeds iff rfind >= 0 and is rfind"] = s_.rfind(t_) == k and k >= 0
        except ValueError:
            facts["rindex raises ValueError iff rfind < 0"] = s_.rfind(t_) < 0
        try:
            s_[i_]
            facts["s[i] succeeds iff -len <= i < len"] = -len(s_) <= i_ < len(s_)
        except IndexError:
            facts["s[i] raises IndexError iff out of range"] = not (-len(s_) <= i_ < len(s_))
        try:
            _ = (t_ in s_)
        except TypeError:
            facts["str in str never raises"] = False
        for name, ok in facts.items():
            if not ok:
                bad += 1
                print("STR FACT FAILS", name, repr(s_), repr(t_), repr(u_), i_)
    # ---- the TEXT-level definitions of contracts/C01.py: comment_text_lemmas (lstrip, removesuffix, the reader's comment prefix)
    import re

    sys.path.insert(0, os.environ.get("VERIF_REPO", "/repo"))
    import contracts.C01 as C01

    D = C01.comment_text_lemmas(definitions_only=True)
    pat = re.compile(D["pattern"])
    ztrue = lambda fs: all(z3.is_true(z3.simplify(f)) for f in fs)
    V = z3.StringVal
    blanks = " \t\x0c\x1c\u00a0\u2003\n\r"
    for _ in range(cases * 4):
        s_ = "".join(rng.choice(blanks + "#ab:\u200b") for _ in range(rng.randint(0, 7)))
        u_ = s_.lstrip()
        w_ = s_[: len(s_) - len(u_)]
        if not ztrue(D["is_lstrip"](V(s_), V(w_), V(u_))):
            bad += 1
            print("TEXT DEFINITION: lstrip", repr(s_))
        for wrong in {s_[k:] for k in range(len(s_) + 1)} - {u_}:  # no other suffix satisfies the definition
            if ztrue(D["is_lstrip"](V(s_), V(s_[: len(s_) - len(wrong)]), V(wrong))):
                bad += 1
                print("TEXT DEFINITION: lstrip is not unique", repr(s_), repr(wrong))
        if not ztrue(D["removesuffix"](V(s_), V(s_.removesuffix("\n")), "\n")):
            bad += 1
            print("TEXT DEFINITION: removesuffix", repr(s_))
        if ztrue([z3.InRe(V(s_), D["no_break"])]) != (("\n" not in s_) and ("\r" not in s_)):
            bad += 1
            print("TEXT DEFINITION: no_break", repr(s_))
        mt = getattr(pat, D["method"])(s_)
        if mt is not None and not ztrue([z3.InRe(V(mt.group(0)), D["matched"])]):
            bad += 1
            print("TEXT DEFINITION: the matched prefix is not in the pattern's language", repr(s_))
        if (mt is not None) != any(ztrue([z3.InRe(V(s_[:k]), D["matched"])]) for k in range(len(s_) + 1)):
            bad += 1
            print("TEXT DEFINITION: the comment test is not 'some prefix is in the pattern's language'", repr(s_))
    # ---- the number-formatting assumption of the round-trip lemma (LEMMA_ASSUMPTIONS of contracts/C01.py): int(str(k)) == k; float(format(v, '.4f'))
    # succeeds and is the decimal expansion of v rounded half-even to four decimals (that is what `round4` stands for), for float32 values
    from decimal import ROUND_HALF_EVEN, Decimal

    import numpy as np

    for _ in range(cases * 20):
        k_ = rng.choice([0, 1, -1, rng.randint(-10**9, 10**9), rng.randint(0, 2**31 - 1)])
        if int(str(k_)) != k_ or int(str(np.int32(k_ % 2**31))) != k_ % 2**31:
            bad += 1
            print("NUMBER FORMAT: int(str(k)) != k", k_)
        v_ = float(np.float32(rng.choice([0.0, -0.0, 0.00005, 1e-5, 123456.789, 9999.99995, 16777216.0, rng.uniform(-1e6, 1e6), rng.uniform(-1, 1) * 10 ** rng.randint(-6, 7)])))
        txt = format(v_, ".4f")
        want = Decimal(v_).quantize(Decimal("0.0001"), rounding=ROUND_HALF_EVEN)
        if Decimal(txt) != want or float(txt) != float(want):
            bad += 1
            print("NUMBER FORMAT: format(v, '.4f') is not v rounded half-even to four decimals", repr(v_), txt)
    print("xcheck_strmodel:", "OK" if not bad else f"{bad} mismatches", f"({cases} cases per model)")
    return 1 if bad else 0


if __name__ == "__main__":
    sys.exit(main())
