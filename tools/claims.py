# executed by tools/manifest.py: claim(pid, category, text, note, design_ref) / na(pid, reason)
BOUNDED = (" The remaining clauses are explored only by the bounded stand-in (run-time evaluation of the contract clauses on the real code over an "
           "enumerated small scope; labelled bounded in evidence.coverage.bounded and never counted among the discharged obligations).")
ASSUME = "Python ints mathematical, numpy ints do not overflow, floats are reals (no rounding); numpy/pandas primitives enter through the assumed models named in evidence.coverage.trusted_base; "

claim("C06", "proof",
      "to_sub_topology (the compaction / parent remap / new-to-old mapping that every extraction and pruning operation ends in) is proved against its "
      "contract for all tables of any length: loop invariants + postconditions discharged by z3 from the real source." + BOUNDED,
      ASSUME + "get_subtree / to_subtree / cut_tree / CutByType / CutByFurcationOrder / CutShortTipBranch / propagate_removal are bounded only "
      "(all trees <= 6 nodes x all start nodes / removal sets / predicates).", "DESIGN.md §3 C06, §9")
claim("C09", "proof",
      "Heap-level contracts on Node.__getitem__/__setitem__ and the seven attribute accessors (read at call time, write-through and nothing else), "
      "Tree.__getitem__ (negative indices, IndexError exactly out of range), Tree.Node.parent, Path.get_ndata (fresh in-order gather), "
      "Branch.get_compartments (consecutive pairs, branch lengths 2-4 symbolic ids) and DictSWC.copy (equal content, disjoint storage) are discharged for trees of any size." + BOUNDED,
      ASSUME + "copy.deepcopy assumed to return an equal fresh graph; the history clause follows from the single-step frame/ownership contracts (argued in DESIGN.md, not mechanised); slices, children(), detach() of Path/Branch/Compartment are bounded only.",
      "DESIGN.md §3 C09, §9")
claim("C12", "proof",
      "Matrix builders (translate3d, scale3d, rotate3d_x/y/z, rotate3d = Rodrigues), the constructors of Translate/Scale/Rotate*, AffineTransform.__call__ "
      "(every node moved by p -> M(p-c)+c with c the origin or the first root, centre fixed, pid/type/r/id untouched, input unmodified, output fresh) and TranslateOrigin.transform are proved over the reals "
      "with (cos,sin) abstracted to a point of the unit circle." + BOUNDED,
      ASSUME + "float32 rounding is out of reach; inverse-transform and distance-preservation are lemmas over the builders' postconditions.", "DESIGN.md §3 C12, §9")
claim("C13", "proof",
      "Every closed form (sphere, cap, frustum, two-sphere lens and union, sphere-frustum concentric intersection) is proved equal to its solid-of-revolution integral spec on every path of the real functions, over the reals with pi abstract; "
      "find_sphere_line_intersection / project_point_on_line / find_unit_vector_on_plane against their geometric contracts." + BOUNDED,
      ASSUME + "the eps tolerance band is collapsed (eps=0) for the exact-equality proof; np.isclose treated over the reals; the integral specs are trusted definitions cross-checked by quadrature in the bounded part.",
      "DESIGN.md §3 C13, §9")
claim("C19", "proof",
      "_get_idx, ChainTrees.__init__/__len__/__getitem__ (binary search invariant, for any iterable incl. one-shot), LazyLoadingTrees.__init__/load/__getitem__/__len__ "
      "(load-once ghost counter, no read at construction), Population.__init__/__len__/__getitem__ are proved for all sizes." + BOUNDED,
      ASSUME + "Tree.from_swc is an assumed contract (returns the tree of that file); directory walking (os.walk), Populations.from_swc matching and Population.map (process pool) are bounded only.",
      "DESIGN.md §3 C19, §9")

for _p in ("C01", "C02", "C03", "C04", "C05", "C07", "C08", "C10", "C11", "C14", "C15", "C16", "C17", "C18", "C20"):
    na(_p, "check under construction in this session; not yet claimed")
