# executed by tools/manifest.py: claim(pid, category, text, note, design_ref) / na(pid, reason)
BOUNDED = (" The remaining clauses are explored only by the bounded stand-in (run-time evaluation of the contract clauses on the real code over an "
           "enumerated small scope; labelled bounded in evidence.coverage.bounded and never counted among the discharged obligations).")
ASSUME = "Python ints mathematical, numpy ints do not overflow, floats are reals (no rounding); numpy/pandas primitives enter through the assumed models named in evidence.coverage.trusted_base; "

claim("C06", "proof",
      "to_sub_topology (the compaction / parent remap / new-to-old mapping that every extraction and pruning operation ends in) is proved against its "
      "contract for all tables of any length: loop invariants + postconditions discharged by z3 from the real source." + BOUNDED,
      ASSUME + "get_subtree / to_subtree / cut_tree / CutByType / CutByFurcationOrder / CutShortTipBranch / propagate_removal are bounded only "
      "(all trees <= 6 nodes x all start nodes / removal sets / predicates).", "DESIGN.md §3 C06, §9")
claim("C09", "proof",
      "Heap-level contracts on Node.__getitem__/__setitem__ and the seven attribute accessors (read at call time, write-through and nothing else), "
      "Tree.__getitem__ (negative indices, IndexError exactly out of range), Tree.Node.parent, Path.get_ndata (fresh in-order gather), "
      "Branch.get_compartments (consecutive pairs, branch lengths 2-4 symbolic ids) and DictSWC.copy (equal content, disjoint storage) are discharged for trees of any size." + BOUNDED,
      ASSUME + "copy.deepcopy assumed to return an equal fresh graph; the history clause follows from the single-step frame/ownership contracts (argued in DESIGN.md, not mechanised); slices, children(), detach() of Path/Branch/Compartment are bounded only.",
      "DESIGN.md §3 C09, §9")
claim("C12", "proof",
      "Matrix builders (translate3d, scale3d, rotate3d_x/y/z, rotate3d = Rodrigues), the constructors of Translate/Scale/Rotate*, AffineTransform.__call__ "
      "(every node moved by p -> M(p-c)+c with c the origin or the first root, centre fixed, pid/type/r/id untouched, input unmodified, output fresh) and TranslateOrigin.transform are proved over the reals "
      "with (cos,sin) abstracted to a point of the unit circle." + BOUNDED,
      ASSUME + "float32 rounding is out of reach; inverse-transform and distance-preservation are lemmas over the builders' postconditions.", "DESIGN.md §3 C12, §9")
claim("C13", "proof",
      "Every closed form (sphere, cap, frustum, two-sphere lens and union, sphere-frustum concentric intersection) is proved equal to its solid-of-revolution integral spec on every path of the real functions, over the reals with pi abstract; "
      "find_sphere_line_intersection / project_point_on_line / find_unit_vector_on_plane against their geometric contracts." + BOUNDED,
      ASSUME + "the eps tolerance band is collapsed (eps=0) for the exact-equality proof; np.isclose treated over the reals; the integral specs are trusted definitions cross-checked by quadrature in the bounded part.",
      "DESIGN.md §3 C13, §9")
claim("C19", "proof",
      "_get_idx, ChainTrees.__init__/__len__/__getitem__ (binary search invariant, for any iterable incl. one-shot), LazyLoadingTrees.__init__/load/__getitem__/__len__ "
      "(load-once ghost counter, no read at construction), Population.__init__/__len__/__getitem__ are proved for all sizes." + BOUNDED,
      ASSUME + "Tree.from_swc is an assumed contract (returns the tree of that file); directory walking (os.walk), Populations.from_swc matching and Population.map (process pool) are bounded only.",
      "DESIGN.md §3 C19, §9")

claim("C18", "proof",
      "DisjointSetUnion (__init__, find_parent with termination measure, is_same_set, union_sets: whole partition view = generated equivalence, rank unconstrained) against an abstract "
      "representative map; reset_index_ and mark_roots_as_somas_ (first root kept, single root, every edge and attribute kept) on a pandas model; is_bifurcate "
      "(loop invariants over the children map, result <-> no node has more than two children, roots exempt on request) are proved for tables of any size." + BOUNDED,
      ASSUME + "has_cyclic, is_sorted, get_dsu/is_single_root, link_roots_to_nearest_ and read_swc's repair dispatch are bounded only (every table <= 4 nodes, union scripts, forests x id bases x repair modes).",
      "DESIGN.md §3 C18, §9")

BONLY = ("No function of this property is under a discharged contract yet: the check is the bounded stand-in only (run-time evaluation of the contract clauses named in evidence on the REAL "
         "functions over the enumerated scope stated in evidence.coverage.bounded.rule, with independent oracles); it is labelled bounded and nothing is counted as proved. ")
claim("C02", "other",
      "FileReader.__exit__ is proved never to suppress an exception (the `with` rule makes parse_swc's ValueError/UnicodeDecodeError propagate); the line grammar, malformed-line rejection at every position, "
      "decoding failures and option combinations are decided by the bounded stand-in on the real reader against an independent reference reader.",
      ASSUME + "parse_swc's regex loop is not under contract (string theory): bounded only.", "DESIGN.md §3 C02, §9")
for _p, _what in (
    ("C01", "whole Tree.to_swc -> Tree.from_swc round trips over all trees <= 5 nodes x offsets x source kinds x comment lists x float corner values"),
    ("C03", "pipelines of the tree-to-tree operations over small trees with snapshot / np.shares_memory / well-formedness oracles after every step"),
    ("C04", "recording callbacks on all trees <= 7 nodes and all start nodes, chains of 10^5 nodes under the default recursion limit"),
    ("C05", "all numberings of all trees <= 6 nodes incl. non-contiguous ids, root anywhere, extra columns, idempotence"),
    ("C07", "all pairs of small trees x junction nodes x translate modes; all new roots"),
    ("C08", "all sorted parent tables <= 8 nodes: branch partition, paths, tips, furcations, branch tree"),
    ("C10", "all trees <= 6 nodes on an integer lattice against an independent implementation of the definitions; populations"),
    ("C11", "random rigid motions, scalings and renumberings of small and random trees, all features compared"),
    ("C14", "collinear chains / two-arm roots on a parameter grid against numeric quadrature of the union; levels 1-2 on arbitrary trees"),
    ("C15", "documents generated from the ASC grammar to depth 4 against a reference converter; every truncation, single-point corruptions, 5000-point branch"),
    ("C16", "resampler/smoother on all trees <= 6 nodes x spacings x root types and hand-made degenerate branches against a polyline oracle"),
    ("C17", "lattice and random point clouds against Kruskal (MST length), per-step greedy-choice replay, furcation caps"),
    ("C20", "TIFF/NRRD/NPY round trips over shapes x dtypes x patterns; rasterisation of small trees against an independent round-cone SDF"),
):
    TECHNIQUE[_p] = TECH_B
    claim(_p, "other", BONLY + "Scope: " + _what + ".", "everything is bounded (small scope, real code); external libraries (numpy, pandas, tifffile, pynrrd, sdflit) trusted.", "DESIGN.md §3 " + _p + ", §9")
