# executed by tools/manifest.py: claim(pid, category, text, note, design_ref) / na(pid, reason)
BOUNDED = (" Clauses outside the verifier's reach are explored only by the bounded stand-in (run-time evaluation of contract clauses on the real code over an "
           "enumerated small scope; labelled bounded in evidence.coverage.bounded and never counted among the discharged obligations).")
ASSUME = ("Python ints mathematical, numpy ints do not overflow, floats are reals (no rounding); numpy/pandas/stdlib primitives enter through the assumed models "
          "named in evidence.coverage.trusted_base; the VC generator itself (pyvc) is trusted, guarded by reachability covers, seeded-change runs and harmless-edit runs; ")
P = "proof"

claim("C01", P,
      "to_swc's row formatter get_v (id/pid shifted by any offset >= 0, root pid stays -1, type verbatim, floats with exactly the '.4f' spec), the to_swc generator (one newline-terminated '#'-line per comment, "
      "exact header, one row per node in column order; n unbounded) and SWCLike.to_swc (source header / comments / offset / extra columns passed through, nothing else added) are proved; "
      "reset_index_ (re-basing) is re-verified from C18; id arithmetic round-trip lemmas." + BOUNDED,
      ASSUME + "float.__format__ / int(str(k)) and the regex tokenisation on read are not modelled: the whole write->read composition is bounded only.", "DESIGN.md §3 C01, §9")
claim("C02", P,
      "parse_swc is proved over an abstract file (symbolic number of lines, regex/isspace/int/float uninterpreted): all columns always equally long = number of row lines, fields are the conversions of the groups, comments in order minus the "
      "writer's header, a line that is neither row, comment nor blank raises, decode errors become ValueError, normal return implies every line was consumed; FileReader.__exit__ never suppresses; read_swc's repair/sort/reset dispatch; "
      "Tree.from_swc re-raises every read failure as ValueError." + BOUNDED,
      ASSUME + "regex-language facts (which texts the row pattern accepts) are NOT proved: the pattern text is pinned and the line grammar is explored by the bounded stand-in; encoding detection bounded only.", "DESIGN.md §3 C02, §9")
claim("C03", P,
      "Transforms.__call__ is proved for pipelines of ANY length over abstract member transforms satisfying the single-step contract (result well formed; the input itself or freshly allocated; nothing older written): "
      "result well formed, shares no storage with the input unless it IS the input (Identity / empty pipeline), input untouched. The single-step clauses themselves (frame: frozen inputs; ownership: fresh result; well-formedness) "
      "are obligations of the contracts that own the operations and are re-verified here through DEPENDS: sort_tree/_sort_tree (C05), to_subtree/get_subtree_impl/propagate_removal (C06), redirect_tree/cat_tree (C07), "
      "AffineTransform/TranslateOrigin (C12), smoother/resampler (C16)." + BOUNDED,
      ASSUME + "cut_tree, CutBy*, Resampler/TreeSmoother as whole-tree operations are covered by the bounded stand-in only (pipelines of length <= 3 over small trees with snapshot / np.shares_memory / well-formedness oracles).",
      "DESIGN.md §3 C03, §9")
claim("C04", P,
      "_traverse_dfs is proved for trees of any size and shape, any start node and arbitrary callbacks (three loops with invariants, ghost observation state): enter exactly once per subtree node and never outside, after the parent and with the parent's "
      "value; leave exactly once after all children with exactly their values in a list allocated for that call; returns the start node's value; every callback call is proved, at the call, to be an enabled event "
      "(the Step relation of lean/TraverseRule.lean); the same postconditions are re-proved over the log of the calls actually made on every parent table of at most 4 nodes x every start node with arbitrary callbacks "
      "(loops executed, not cut); swc_utils.traverse (mode dispatch: ValueError and no traversal for any mode but dfs; omitted arguments reach the dfs as its defaults) / Tree.traverse / Tree.Node.traverse pass the whole table, "
      "the start node, nodes and values through unchanged; the traversal path is free of recursion (call-graph obligation)." + BOUNDED,
      ASSUME + "tree induction (entered nodes cover the subtree) is a lemma schema proved in Lean, instantiated by inspection; termination of the stack loop is not proved (10^5-node chains run in the bounded stand-in).", "DESIGN.md §3 C04, §9; docs/w3/c04.md")
claim("C05", P,
      "sort_nodes_impl is proved for tables of any length with arbitrary distinct ids in any row order (ghost slot permutation): the returned index array is a bijection, ids 0..n-1, root 0, every parent smaller than its child, "
      "parent relation preserved; sort_nodes_ / _sort_tree / sort_tree permute EVERY column (extras included) by that bijection; sort_tree leaves its input untouched and returns fresh storage." + BOUNDED,
      ASSUME + "two assumed induction lemmas (tree induction; count of a singleton mask); idempotence up to sibling order and read_swc(sort_nodes=True) are bounded only.", "DESIGN.md §3 C05, §9")
claim("C06", P,
      "to_sub_topology (compaction, parent remap, new-to-old mapping; any length) and propagate_removal (marks exactly the removal closure in place, survivors keep ids, parents copied; via the traverse client rule) are proved." + BOUNDED,
      ASSUME + "the traverse client rule: schema proved in Lean 4 (lean/TraverseRule.lean) over an event model whose steps / end state are obligations of C04 on the real _traverse_dfs; its instantiation at a call site is by inspection; get_subtree / to_subtree / cut_tree / CutByType / CutByFurcationOrder / CutShortTipBranch are bounded only "
      "(all trees <= 6 nodes x all start nodes / removal sets / predicates).", "DESIGN.md §3 C06, §9")
claim("C07", P,
      "redirect_tree is proved for trees of any size whose root may sit anywhere (path-walk invariants with depth variant): requested node becomes the unique root, path edges reversed, other parents kept, undirected edge set unchanged, "
      "types of old and new root exchanged, all other attributes kept, input untouched, result fresh; _sort_tree permutes every column; cat_tree for fixed small sizes (14 variants, all attributes symbolic): shift by ns, junction link, "
      "merge iff Euclidean distance < EPS, translation vector, no other edge, inputs untouched." + BOUNDED,
      ASSUME + "sort_nodes_impl is used through an assumed contract here (proved in C05); cat_tree with symbolic sizes is bounded only.", "DESIGN.md §3 C07, §9")
claim("C08", P,
      "Node.is_furcation / is_tip (child-count definitions, ids need not be positions), Tree.get_tips (exactly the childless nodes, once each), Tree.Node.children, and the callbacks behind get_furcations / get_paths / get_branches "
      "(collect_furcations, assign_path with fresh lists, collect_path, collect_branches for 0-3 children, the post-traversal closing of the root's pending chain) are proved." + BOUNDED,
      ASSUME + "the fold over the whole tree (edge partition by branches) and BranchTree.from_tree are bounded only (every sorted parent table <= 8 nodes); Node.branch only on fixed shapes.", "DESIGN.md §3 C08, §9")
claim("C09", P,
      "Heap-level contracts on Node.__getitem__/__setitem__ and the seven attribute accessors (read at call time, write-through and nothing else), Tree.__getitem__ (negative indices, IndexError exactly out of range), "
      "Tree.Node.parent, Path.get_ndata (fresh in-order gather), Branch.get_compartments (consecutive pairs; branch lengths 2-4) and DictSWC.copy (equal content, disjoint storage) for trees of any size." + BOUNDED,
      ASSUME + "copy.deepcopy assumed to return an equal fresh graph; the history clause follows from the single-step frame/ownership contracts (argued, not mechanised); slices and detach() are bounded only.", "DESIGN.md §3 C09, §9")
claim("C10", P,
      "30 feature carriers proved equal to spec functions that read coordinates only through squared distances: Path.length/straight_line_distance/tortuosity, Node.distance, radial distance, Tree.length (<= 5 nodes), Sholl.__init__/intersect/get/get_rs "
      "(straddle definition, exactly `steps` radii), padding1d, population zero-padding, L-Measure partition asymmetry / fragmentation / contraction / path distance / branch order / angle, count features, Features.get dispatch." + BOUNDED,
      ASSUME + "paths/trees of fixed small size (1-5 nodes) with fully symbolic coordinates where a symbolic-length object list would be needed; branch-based features and the traversal-backed L-Measure counts are bounded only.", "DESIGN.md §3 C10, §9")
claim("C11", P,
      "Two-run property decided as lemmas over contracts: (i) every C10 spec reads coordinates only through squared distances (syntactic obligation), (ii) the C12-verified rotation/translation builders preserve squared distances, "
      "(iii) scaling multiplies distances by s, leaves ratios/counts/Sholl tests/angle cosines unchanged and the C13 closed-form volumes are homogeneous of degree 3; the C10, C12, C13 carriers are re-verified here (DEPENDS)." + BOUNDED,
      ASSUME + "renumbering invariance (re-indexing of sums) needs induction and is bounded only; float32 rounding out of reach.", "DESIGN.md §3 C11, §9")
claim("C12", P,
      "Matrix builders (translate3d, scale3d, rotate3d_x/y/z, rotate3d = Rodrigues), the constructors of Translate/Scale/Rotate*, AffineTransform.__call__ (every node moved by p -> M(p-c)+c, centre fixed, pid/type/r/id untouched, "
      "input unmodified, output fresh) and TranslateOrigin.transform are proved over the reals with (cos,sin) a point of the unit circle." + BOUNDED,
      ASSUME + "float32 rounding out of reach; inverse and distance-preservation are lemmas over the builders' postconditions.", "DESIGN.md §3 C12, §9")
claim("C13", P,
      "Every closed form (sphere, cap, frustum, two-sphere lens and union, sphere-frustum concentric intersection) is proved equal to its solid-of-revolution integral spec on every path, over the reals with pi abstract; "
      "sphere-frustum union by inclusion-exclusion; the sphere-frustum forms in an ARBITRARY pose (symbolic centre, unit axis) with np.allclose modelled faithfully (|a-b| <= atol + rtol|b|) and the library's eps; "
      "find_sphere_line_intersection / project_point_on_line against geometric contracts, find_unit_vector_on_plane against its purpose (unit, orthogonal, every non-zero normal)." + BOUNDED,
      ASSUME + "the library's own tolerance bands are explicit pose-independent clauses (radius bands: one of two stated values; the band 1 < t <= 1+eps is a precondition); np.random.rand in [0,1)^3 with one named "
      "almost-sure requirement; integral specs are trusted definitions cross-checked by quadrature in the bounded part.", "DESIGN.md §3 C13, §9; docs/w3/c13c14.md")
claim("C14", P,
      "get_volume (level names, range assert, dispatch) and the per-node closure `leave` (accuracy symbolic 1..9, 0-3 children): volume grows by sphere + [>=2] frusta - [>=3] the two sphere-frustum intersections per child, no sphere-sphere term; "
      "21 union lemmas (lens inside the frustum, piecewise max profile = closed forms) tie the increment to the measure of the union of one compartment; C13 carriers re-verified." + BOUNDED,
      ASSUME + "the Monte-Carlo objects (levels >= 5 with >= 2 children, level 10) are assumed contracts; both taper directions of the sphere-frustum intersection are verified (C13) with faithful tolerances, "
      "the library's tolerance bands being a pose-independent precondition per compartment (ghost predicate, radii and squared length only).", "DESIGN.md §3 C14, §9; docs/w3/c13c14.md")
claim("C15", P,
      "The recursive-descent parser is proved over an abstract token stream with a ghost bracket depth: _parse_node accepts exactly FLOATx4 ')', _parse_split returns only after the ')' matching its '(', _parse_subtree stops at the '|'/')' of its own level, "
      "_parse returns normally only at depth 0 after the final ')' (premature end raises), parse converts every failure to ValueError; walk_ast (iterative, no recursion) allocates ids in document order with the enclosing NODE as parent and the TREE label as type." + BOUNDED,
      ASSUME + "the exact parent of every point for unbounded documents, the lexer on symbolic text and acceptance of all well-formed documents are bounded only (grammar-generated documents vs a reference converter, all truncations).", "DESIGN.md §3 C15, §9")
claim("C16", P,
      "BranchIsometricResampler/BranchLinearResampler.resample (input 2-4 points, everything else symbolic): m = ceil(L/d)+1 samples, end points kept, equal arc steps <= d, samples on the polyline, radius linear in arc length, zero-length branch handled; "
      "BranchConvSmoother frame (only interior x,y,z written on a detached copy; unbounded); BranchTreeAssembler slice arithmetic (no interior sample dropped; fixed shapes)." + BOUNDED,
      ASSUME + "np.linspace/np.interp/np.ceil/scipy.signal.convolve enter as assumed models; whole-tree resampling, pairing and 'total length never grows' are bounded only.", "DESIGN.md §3 C16, §9")
claim("C17", P,
      "PointsToCuntzMST.__call__ is proved for any number of points (Prim loop invariants over a symbolic n x n mask): spanning tree rooted at 0 with depth witness, every attachment greedy w.r.t. dis[i,j] + bf*acc[i] over exactly the admissible set, "
      "branching cap respected, path lengths, an unmasked entry always exists, the transform object is not modified; the two constructors." + BOUNDED,
      ASSUME + "masked argmin is an assumed contract; distances abstract (symmetric, non-negative); Tree construction and sort_tree at the end are cut (assumed); MST optimality itself is bounded only (vs Kruskal).", "DESIGN.md §3 C17, §9")
claim("C18", P,
      "DisjointSetUnion (__init__, find_parent with termination measure, is_same_set, union_sets: whole partition view = generated equivalence) against an abstract representative map; reset_index_ and mark_roots_as_somas_ "
      "(first root kept, single root, every edge and attribute kept); is_bifurcate (result <-> no node has more than two children, roots exempt on request) for tables of any size." + BOUNDED,
      ASSUME + "has_cyclic, is_sorted, get_dsu/is_single_root, link_roots_to_nearest_ are bounded only (every table <= 4 nodes, union scripts, forests x id bases x repair modes).", "DESIGN.md §3 C18, §9")
claim("C19", P,
      "_get_idx, ChainTrees.__init__/__len__/__getitem__ (binary search invariant, any iterable incl. one-shot), LazyLoadingTrees (load-once ghost counter, no read at construction), Population.__init__/__len__/__getitem__ for all sizes." + BOUNDED,
      ASSUME + "Tree.from_swc is an assumed contract here; directory walking, Populations.from_swc matching and Population.map are bounded only.", "DESIGN.md §3 C19, §9")
claim("C20", P,
      "save_tiff (shape (Z,X,Y,C), dtype factor for every float/unsigned pair in double precision, axes string, options), NDArrayImageStack.__init__ (three rescaling branches, class or dtype instance), TiffImageStack.__init__ "
      "(all 48 axes permutations return (X,Y,Z,C)), ToImageStack.transform/_get_samplers (bounding box covers every sphere, half-voxel offset, slice spacing and count) and the scene closure (one object per edge, containing sphere for nested ends) are proved." + BOUNDED,
      ASSUME + "tifffile, pynrrd and the sdflit sampler are compiled third-party code: assumed through recording models; the file round trip and voxel-level rasterisation are bounded only.", "DESIGN.md §3 C20, §9")
