"""Cross-check of the library models of pyvc/ext_C09.py against the real libraries on concrete inputs.

Run:  /verif/.venv/bin/python tools/xcheck_ext_C09.py      (exit 0 = every model agrees)

Each model is evaluated through the pyvc interpreter on symbolic inputs; the resulting z3 terms are then evaluated
under a concrete assignment and compared with what CPython / numpy / scipy compute for the same values.
"""
import itertools
import os
import sys

sys.path.insert(0, os.path.dirname(os.path.dirname(os.path.abspath(__file__))))
import numpy as np
import scipy.sparse as sp
import z3

from pyvc import ext_C09 as X
from pyvc import models, npmodels
from pyvc.engine import ProgExc
from pyvc.spec import Registry
from pyvc.values import NArr, PList, SArr, Sym, fresh, to_z3
from pyvc.verify import Verifier


def eng():
    e = Verifier(Registry(), "C09")
    e.models = X.MODELS
    return e


def val(term, env):
    s = z3.Solver()
    for k, v in env:
        s.add(k == v)
    assert s.check() == z3.sat
    return s.model().eval(term, model_completion=True)


def ival(term, env):
    return val(term, env).as_long()


bad = 0


def expect(what, got, want):
    global bad
    if got != want:
        bad += 1
        print("MISMATCH", what, "model:", got, "library:", want)


# ---------------------------------------------------------------- slice.indices / range with a step, list of positions
E = eng()
a, b, n = fresh("int", "a"), fresh("int", "b"), fresh("int", "n")
cnt = 0
for st in (None, 1, 2, 3, -1, -2):
    for sa, sb in itertools.product((None, "a"), (None, "b")):
        sl = slice(a if sa else None, b if sb else None, st)
        lo, hi, step = X.slice_indices(E, sl, [n], {})
        rng = X._b_range(E, [lo, hi, step], {})
        length, getter = X.MODELS.as_sequence(E, rng)
        for nv in range(0, 6):
            for av in range(-8, 9):
                for bv in range(-8, 9):
                    env = [(a.z, av), (b.z, bv), (n.z, nv)]
                    want = list(range(*slice(av if sa else None, bv if sb else None, st).indices(nv)))
                    m = ival(to_z3(length, "int"), env)
                    got = [ival(to_z3(getter(Sym(z3.IntVal(k), "int")), "int"), env) for k in range(m)]
                    expect(f"slice {sl} n={nv} a={av} b={bv}", got, want)
                    cnt += 1
                    if not sb:
                        break
                if not sa:
                    break
print("slice/range cases:", cnt)

# ---------------------------------------------------------------- np.ones / np.full with a symbolic extent, concatenate, stack
E = eng()
m = fresh("int", "m")
ones = models.lookup_model(np.ones)(E, [PList([m, 1])], {"dtype": np.float32})
full = models.lookup_model(np.full)(E, [m], {"fill_value": 3, "dtype": np.int32})
for mv in (0, 1, 4):
    env = [(m.z, mv)]
    w = np.ones([mv, 1], dtype=np.float32)
    expect("np.ones shape", (ival(ones.nz(), env),) + ones.inner, w.shape)
    expect("np.ones values", [float(val(z3.Select(ones.cells[0], k), env).as_fraction()) for k in range(mv)], w[:, 0].tolist())
    w = np.full((mv), fill_value=3, dtype=np.int32)
    expect("np.full", [ival(full.get(k).z, env) for k in range(mv)], w.tolist())
A = X.SRows([z3.Array(f"A{j}", z3.IntSort(), z3.RealSort()) for j in range(3)], m.z, (3,), "real")
cat = models.lookup_model(np.concatenate)(E, [PList([A, ones])], {"axis": 1})
conc = np.arange(12, dtype=float).reshape(4, 3)
env = [(m.z, 4)] + [(z3.Select(A.cells[j], k), float(conc[k, j])) for j in range(3) for k in range(4)]
w = np.concatenate([conc, np.ones([4, 1])], axis=1)
expect("np.concatenate axis=1", [[float(val(z3.Select(c, k), env).as_fraction()) for c in cat.cells] for k in range(4)], w.tolist())
expect("column view", [float(val(X.SRows.__pyvc_getitem__(cat, E, (slice(None), 3)).get(k).z, env).as_fraction()) for k in range(4)], w[:, 3].tolist())
B = X.SRows([z3.Array(f"B{j}", z3.IntSort(), z3.RealSort()) for j in range(2)], m.z, (2,), "real")
C = X.SRows([z3.Array(f"C{j}", z3.IntSort(), z3.RealSort()) for j in range(2)], m.z, (2,), "real")
st = models.lookup_model(np.stack)(E, [PList([B, C, B])], {"axis": 2})
bn, cn = np.arange(8, dtype=float).reshape(4, 2), 100 + np.arange(8, dtype=float).reshape(4, 2)
env = [(m.z, 4)] + [(z3.Select(B.cells[j], k), float(bn[k, j])) for j in range(2) for k in range(4)] + [(z3.Select(C.cells[j], k), float(cn[k, j])) for j in range(2) for k in range(4)]
w = np.stack([bn, cn, bn], axis=2)
expect("np.stack shape", (4,) + st.inner, w.shape)
expect("np.stack axis=2", [[[float(val(z3.Select(st.cell(p, q), k), env).as_fraction()) for q in range(3)] for p in range(2)] for k in range(4)], w.tolist())
# np.array of a list of 2-vectors; the empty list
expect("np.array([]) shape", np.array([]).shape, (0,))
expect("np.array of m pairs shape", np.array([np.array([1, 2]) for _ in range(3)]).shape, (3, 2))
try:
    np.stack([np.array([]), np.array([]), np.array([])], axis=2)
    expect("np.stack of empties", "no error", "AxisError")
except ValueError as e:  # numpy.exceptions.AxisError is a ValueError (and an IndexError)
    pass

# ---------------------------------------------------------------- scipy.sparse.coo_matrix
def coo_ok(data, row, col, shape):
    try:
        sp.coo_matrix((np.array(data), (np.array(row, dtype=int), np.array(col, dtype=int))), shape=shape, dtype=np.int32)
        return True
    except ValueError:
        return False


expect("coo inside", coo_ok([1, 1], [0, 1], [1, 2], (3, 3)), True)
expect("coo row outside", coo_ok([1, 1], [0, 3], [1, 2], (3, 3)), False)
expect("coo col outside", coo_ok([1, 1], [0, 1], [1, 3], (3, 3)), False)
expect("coo negative", coo_ok([1, 1], [-1, 1], [1, 2], (3, 3)), False)
expect("coo unequal", coo_ok([1], [0, 1], [1, 2], (3, 3)), False)
expect("coo empty", coo_ok([], [], [], (1, 1)), True)
M = sp.coo_matrix((np.ones(3, dtype=int), (np.array([0, 0, 1]), np.array([1, 2, 3]))), shape=(4, 4), dtype=np.int32)
expect("coo entries", M.toarray().tolist(), [[0, 1, 1, 0], [0, 0, 0, 1], [0, 0, 0, 0], [0, 0, 0, 0]])
expect("coo dtype", M.dtype, np.dtype("int32"))

# ---------------------------------------------------------------- numpy facts the contracts lean on
x = np.arange(5.0)
expect("fancy index is a copy", np.shares_memory(x, x[np.array([1, 2])]), False)
expect("np.array copies", np.shares_memory(x, np.array(x, dtype=x.dtype)), False)
expect("basic slice is a view", np.shares_memory(x, x[1:]), True)
mat = np.zeros((4, 4))
expect("column selection is a view", np.shares_memory(mat, mat[:, 0]), True)
expect("negative scalar index wraps", x[-2], 3.0)
# ---------------------------------------------------------------- lists of view objects: how the list is built does not matter
# (a) Python: `L = []; for x in S: L.append(f(x))`, `L = []; L.extend(f(x) for x in S)` and `[f(x) for x in S]` are the same list, and a
#     list subclass built from any of them (or from a generator) holds the same elements; the empty list subclass has length 0.
# (b) the clause-side field-wise reading of a CONCRETE list of instances (X._view_of_concrete) reports element k's fields at index k.
from swcgeom.core import Tree
from swcgeom.core.compartment import Compartments

_t = Tree(4, id=[0, 1, 2, 3], pid=[-1, 0, 1, 1], x=[0, 1, 2, 3], y=[0, 0, 0, 0], z=[0, 0, 0, 0], r=[1, 1, 1, 1], type=[1, 3, 3, 3])
_f = lambda i: _t.Compartment(_t, _t.pid()[i], _t.id()[i])
_l1 = []
for _i in range(1, 4):
    _l1.append(_f(_i))
_l2 = []
_l2.extend(_f(_i) for _i in range(1, 4))
_l3 = [_f(_i) for _i in range(1, 4)]
_key = lambda cs: [(type(c).__name__, c.attach is _t, c.idx.tolist()) for c in cs]
expect("append loop = extend(generator)", _key(_l1), _key(_l2))
expect("append loop = comprehension", _key(_l1), _key(_l3))
expect("list subclass from list = from generator", _key(Compartments(_l1)), _key(Compartments(_f(_i) for _i in range(1, 4))))
expect("list subclass from the library's own form", _key(Compartments(_l1)), _key(_t.get_compartments()))
expect("empty list subclass", len(Compartments([])), 0)

from pyvc.values import Obj

_objs = [Obj(Tree.Compartment, dict(attach="T", idx=NArr((2,), [p_, c_], "int", None), tag=k_)) for k_, (p_, c_) in enumerate([(0, 1), (1, 2), (1, 3)])]
_h = X._handles_of(PList(_objs))
expect("view: class / shared field / length", (_h.cls_, _h.fixed.get("attach"), ival(X.zint(_h.n), [])), (Tree.Compartment, "T", 3))
for k_, (p_, c_) in enumerate([(0, 1), (1, 2), (1, 3)]):
    expect(f"view: element {k_}", (ival(z3.Select(_h.vec("idx", 0), k_), []), ival(z3.Select(_h.vec("idx", 1), k_), []), ival(z3.Select(_h.col("tag"), k_), [])), (p_, c_, k_))
_h0 = X._handles_of(PList([]))
expect("view of the empty list", (X.is_list_of(_h0, Tree.Compartment, attach="T"), X.has_vec(_h0, "idx", (2,)), ival(X.zint(_h0.n), [])), (True, True, 0))
expect("view: mixed classes are refused", X._handles_of(PList([_objs[0], Obj(Tree.Node, dict(_objs[0].fields))])), None)
expect("is_list_of: wrong class / wrong owner", (X.is_list_of(_h, Tree.Node), X.is_list_of(_h, Tree.Compartment, attach="U")), (False, False))

print("mismatches:", bad)
sys.exit(1 if bad else 0)
