#!/bin/sh
# tools/seed_queue.sh <jobs> id...: take and evaluate finished sub-agent seeds, <jobs> at a time; log in .scratch/seedlog
cd "$(dirname "$0")/.."
J=$1; shift
mkdir -p .scratch
printf '%s\n' "$@" | xargs -P "$J" -I{} sh -c 'tools/seed_take.sh {} >> .scratch/seedlog 2>&1'
