#!/bin/sh
# tools/harm_queue.sh "<id> [extra props]" ... : take and evaluate finished harmless edits one after the other; log in .scratch/harmlog
cd "$(dirname "$0")/.."
mkdir -p .scratch
for spec in "$@"; do
  # shellcheck disable=SC2086
  tools/harm_take.sh $spec >> .scratch/harmlog 2>&1
done
