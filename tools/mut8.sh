#!/bin/sh
# usage: tools/mut8.sh <repo-relative file> <sed-expr> [check args]  -- run THIS worktree's check against a mutated scratch copy of /repo
file=$1; expr=$2; shift 2
S=/var/tmp/w2-c08-mut-$$
rm -rf $S; mkdir -p $S; rsync -a --exclude .git /repo/ $S/
sed -i "$expr" $S/$file
if diff -q /repo/$file $S/$file >/dev/null; then echo "MUTATION DID NOT APPLY"; rm -rf $S; exit 9; fi
diff /repo/$file $S/$file
cd "$(dirname "$0")/.."
VERIF_WORKERS=4 VERIF_REPO=$S ./check C08 --no-bounded "$@" > $S.out 2>&1
rc=$?
grep -v "^WARNING" $S.out; rm -f $S.out
rm -rf $S
echo "mutant exit=$rc"
