"""Cross-check of the models added with work package c08c09 against CPython / numpy on concrete inputs.

Run:  /verif/.venv/bin/python tools/xcheck_tables.py [cases=150]      (exit 0 = every model agrees)

  * builtins getattr (2 and 3 arguments) / hasattr / setattr / delattr on interpreted instances (pyvc/models.py): instance field, class-level
    default, missing attribute (default / AttributeError), frozen object (frame obligation emitted, store still performed);
  * pyvc/ext_tables.py on 1-D arrays of SYMBOLIC length pinned to the numbers of the case, by asking z3 about the resulting path condition:
      np.bincount(x, minlength)   length ENTAILED; out[v] = 0 entailed for absent v, out[v] >= 1 for present v, out[v] >= 2 exactly for values
                                  present twice (the witness lemma); numpy's whole answer ADMITTED; negative entry: the safety obligation is
                                  refutable (numpy raises ValueError);
      np.add.at(a, idx, c)        same facts for the increments, numpy's answer admitted, cells outside idx unchanged (entailed);
      np.flatnonzero(a)           numpy's answer entailed (bool and int operands);
      np.searchsorted(a, [v, w])  over sorted keys: numpy's answer entailed (left / right);
      np.argsort(kind='stable') through the chained proxy: numpy's answer entailed;
  * the lemma `occurrence-witnesses` itself: exhaustively for all arrays of length <= 5 over {0..3}, in plain Python.
"""
import itertools
import os
import random
import sys

sys.path.insert(0, os.path.dirname(os.path.dirname(os.path.abspath(__file__))))
import numpy as np
import z3

from pyvc import ext_C08, ext_tables as X, models
from pyvc.engine import ProgExc
from pyvc.spec import Registry
from pyvc.values import Obj, SArr
from pyvc.verify import Verifier

bad = inconclusive = checks = 0
X.chain(ext_C08.ModelsProxy)


def engine():
    E = Verifier(Registry(), "C08")
    E.cur_key = "xcheck:tables"
    E.models = ext_C08.MODELS
    return E


def sym_array(E, vals, name, kind="int"):
    a = SArr.fresh(kind, name=name)
    E.assume(a.nz() == len(vals))
    for i, x in enumerate(vals):
        E.assume(z3.Select(a.arr, i) == (bool(x) if kind == "bool" else int(x)))
    return a


def check(E, extra, limit=20000):
    global inconclusive
    s = z3.Solver()
    s.set("timeout", limit)
    s.add(*E.pc)
    s.add(extra)
    r = s.check()
    if r == z3.unknown:
        inconclusive += 1
        return None
    return r


def mismatch(what):
    global bad
    bad += 1
    print("MISMATCH", what)


def entailed(E, fact, what):
    global checks
    checks += 1
    if check(E, z3.Not(fact)) == z3.sat:
        mismatch(what)


def admitted(E, fact, what):
    global checks
    checks += 1
    if check(E, fact) == z3.unsat:
        mismatch(what)


def same_array(out, want):
    return z3.And(out.nz() == len(want), *[z3.Select(out.arr, i) == int(x) for i, x in enumerate(want)])


# ------------------------------------------------------------------ getattr / hasattr / setattr / delattr
class K:
    a = 1

    def m(self):
        return 7


def attrs():
    global checks
    E = engine()
    real = K()
    real.b = 2
    o = Obj(K, {"b": 2})
    miss = object()
    for nm in ("a", "b", "c"):
        checks += 3
        if models.lookup_model(hasattr)(E, [o, nm], {}) != hasattr(real, nm):
            mismatch(f"hasattr {nm}")
        got = models.lookup_model(getattr)(E, [o, nm, miss], {})
        if (got is miss) != (getattr(real, nm, miss) is miss) or (got is not miss and got != getattr(real, nm)):
            mismatch(f"getattr/3 {nm}")
        try:
            got = models.lookup_model(getattr)(E, [o, nm], {})
            if got != getattr(real, nm):
                mismatch(f"getattr/2 {nm}")
        except ProgExc as e:
            if hasattr(real, nm) or e.cls is not AttributeError:
                mismatch(f"getattr/2 {nm} raised")
    models.lookup_model(setattr)(E, [o, "c", 5], {})
    setattr(real, "c", 5)
    checks += 4
    if models.lookup_model(getattr)(E, [o, "c", None], {}) != real.c or not models.lookup_model(hasattr)(E, [o, "c"], {}):
        mismatch("setattr then getattr")
    models.lookup_model(delattr)(E, [o, "c"], {})
    delattr(real, "c")
    if models.lookup_model(hasattr)(E, [o, "c"], {}) != hasattr(real, "c"):
        mismatch("delattr")
    try:
        models.lookup_model(delattr)(E, [o, "a"], {})  # class-level default: not an instance attribute
        mismatch("delattr of a class attribute did not raise")
    except ProgExc as e:
        if e.cls is not AttributeError:
            mismatch("delattr class attribute: wrong exception")
    o.frozen = True
    n0 = len(E.obligs)
    models.lookup_model(setattr)(E, [o, "d", 1], {})
    if not any(ob.name.endswith("frame-attr-write") and ob.kind == "frame" for ob in E.obligs[n0:]) or o.fields.get("d") != 1:
        mismatch("setattr on a frozen object: frame obligation / store")


# ------------------------------------------------------------------ the lemma, in plain Python
def lemma_exhaustive():
    global checks
    for n in range(0, 6):
        for xs in itertools.product(range(4), repeat=n):
            checks += 1
            for v in range(-1, 5):
                occ = sum(1 for t in xs if t == v)
                pos = [i for i, t in enumerate(xs) if t == v]
                ok = occ >= 0 and (occ >= 1) == (len(pos) >= 1) and (occ >= 2) == (len(pos) >= 2)
                ok = ok and all(sum(1 for t in xs if t == xs[i]) >= 1 for i in range(n))
                ok = ok and all(sum(1 for t in xs if t == xs[i]) >= 2 for i in range(n) for j in range(i + 1, n) if xs[i] == xs[j])
                if not ok:
                    mismatch(f"occurrence-witnesses {xs} {v}")


# ------------------------------------------------------------------ numpy models
def bincount_case(rng):
    n = rng.randrange(0, 6)
    xs = [rng.randrange(0, 5) for _ in range(n)]
    m = rng.choice([0, 0, 3, 6])
    want = np.bincount(np.array(xs, dtype=np.int64), minlength=m)
    E = engine()
    out = E.models.lookup_model(np.bincount)(E, [sym_array(E, xs, "x")], dict(minlength=m))
    entailed(E, out.nz() == len(want), f"bincount length {xs} {m}")
    for v in range(len(want)):
        c = int(want[v])
        cell = z3.Select(out.arr, v)
        entailed(E, (cell == 0) if c == 0 else (cell >= 1), f"bincount presence {xs} v={v}")
        entailed(E, (cell >= 2) if c >= 2 else (cell <= 1), f"bincount two occurrences {xs} v={v}")
    admitted(E, same_array(out, want), f"bincount answer {xs} {m} -> {list(want)}")


def bincount_negative():
    global checks
    checks += 1
    E = engine()
    E.models.lookup_model(np.bincount)(E, [sym_array(E, [1, -2, 0], "x")], {})
    ob = [o for o in E.obligs if o.name.endswith("bincount-of-non-negative-ints")]
    s = z3.Solver()
    s.add(*ob[0].hyps)
    s.add(z3.Not(ob[0].goal))
    if not ob or s.check() != z3.sat:
        mismatch("bincount of a negative entry: the safety obligation is not refutable")


def add_at_case(rng):
    n = rng.randrange(1, 6)
    base = [rng.randrange(-3, 4) for _ in range(n)]
    idx = [rng.randrange(-n, n) for _ in range(rng.randrange(0, 6))]
    c = rng.choice([1, 1, 2, -1])
    want = np.array(base, dtype=np.int64)
    np.add.at(want, np.array(idx, dtype=np.int64), c)
    E = engine()
    a = sym_array(E, base, "a")
    E.models.lookup_model(np.add.at)(E, [a, sym_array(E, idx, "idx"), c], {})
    admitted(E, same_array(a, want), f"add.at answer {base} {idx} {c}")
    hit = {i % n for i in idx}
    for v in range(n):
        if v not in hit:
            entailed(E, z3.Select(a.arr, v) == base[v], f"add.at untouched cell {base} {idx} v={v}")
        elif c > 0:
            entailed(E, z3.Select(a.arr, v) >= base[v] + c, f"add.at touched cell {base} {idx} v={v}")


def flatnonzero_case(rng):
    n = rng.randrange(0, 7)
    kind = rng.choice(["bool", "int"])
    xs = [rng.choice([0, 0, 1, 3]) for _ in range(n)] if kind == "int" else [rng.random() < 0.5 for _ in range(n)]
    want = np.flatnonzero(np.array(xs))
    E = engine()
    out = E.models.lookup_model(np.flatnonzero)(E, [sym_array(E, xs, "a", kind)], {})
    entailed(E, same_array(out, want), f"flatnonzero {xs}")


def searchsorted_case(rng):
    n = rng.randrange(0, 6)
    keys = sorted(rng.randrange(0, 5) for _ in range(n))
    v = rng.randrange(-1, 6)
    side = rng.choice(["left", "right"])
    want = np.searchsorted(np.array(keys, dtype=np.int64), [v, v + 1], side=side)
    E = engine()
    from pyvc.values import PList, to_z3

    out = E.models.lookup_model(np.searchsorted)(E, [sym_array(E, keys, "a"), PList([v, v + 1])], dict(side=side))
    entailed(E, z3.And(*[to_z3(x, "int") == int(w) for x, w in zip(out.items, want)]), f"searchsorted {keys} [{v},{v + 1}] {side}")


def argsort_case(rng):
    n = rng.randrange(0, 6)
    xs = [rng.randrange(-1, 3) for _ in range(n)]
    want = np.argsort(np.array(xs, dtype=np.int64), kind="stable")
    E = engine()
    out = E.models.lookup_model(np.argsort)(E, [sym_array(E, xs, "a")], dict(kind="stable"))
    entailed(E, same_array(out, want), f"stable argsort {xs}")


def main():
    cases = int(sys.argv[1]) if len(sys.argv) > 1 else 150
    rng = random.Random(20260930)
    attrs()
    lemma_exhaustive()
    bincount_negative()
    for _ in range(cases):
        bincount_case(rng)
        add_at_case(rng)
        flatnonzero_case(rng)
        searchsorted_case(rng)
        argsort_case(rng)
    print(f"xcheck_tables: {checks} comparisons, {bad} mismatches, {inconclusive} inconclusive (solver time limit)")
    return 1 if bad else 0


if __name__ == "__main__":
    sys.exit(main())
