"""Cross-check of pyvc/layout.py (contiguity flag of 1-D arrays; functions that return the argument ITSELF, a VIEW or a COPY) against numpy.

Run:  /verif/.venv/bin/python tools/xcheck_layout.py [cases=40]      (exit 0 = every comparison agrees)

For every case a real 1-D numpy array is made in one of the storage layouts below, and its model twin (an `SArr` of symbolic length
whose cells are pinned, or an `NArr`) gets the contiguity flag the real strides dictate -- as a constant (True / False) or as a
SYMBOLIC boolean pinned by an assumption, which exercises the forking path of the models.  Every function of the list is applied to
both; compared are
  * what comes back: the argument itself / a new array object on the same storage / a fresh allocation,
  * its length, every cell, and (where the model records it) the dtype,
  * `flags.c_contiguous` of the result against `layout.is_contiguous`,
  * whether a store into the result is visible in the argument (the property C09 is about).
A call numpy rejects must raise in the model; a call the model refuses (`Unsupported`) is counted, not compared.

Layouts: fresh array | column of a C-ordered (n, k) table | column of an F-ordered table (contiguous!) | row of a C table |
a[::2] | a[1::3] | a[::-1] | a[lo:hi] of a contiguous and of a strided array | lengths 0 and 1 of all of these (contiguous whatever
the stride) | float32 / float64 / int32 / int64.
"""
import os
import random
import sys

sys.path.insert(0, os.path.dirname(os.path.dirname(os.path.abspath(__file__))))
import numpy as np
import z3

from pyvc import layout, models, npmodels
from pyvc.engine import Infeasible, ProgExc, Unsupported
from pyvc.spec import Registry
from pyvc.values import NArr, SArr, Sym, fresh
from pyvc.verify import Verifier

bad = 0
compared = 0
refused = {}


def engine():
    E = Verifier(Registry(), "C09")
    E.cur_key = "xcheck:layout"
    return E


def mismatch(what, *info):
    global bad
    bad += 1
    print("MISMATCH", what, *info)


def real_arrays(rng, n, dt):
    """(label, array) in every layout, all of length n"""
    vals = [rng.randint(-9, 9) for _ in range(3 * n + 4)]
    k = rng.randint(2, 4)
    j = rng.randrange(k)
    c_tab = np.array(vals[: n * k] + [0] * max(0, n * k - len(vals)), dtype=dt)[: n * k].reshape(n, k) if n else np.zeros((0, k), dt)
    f_tab = np.asfortranarray(c_tab.copy())
    r_tab = np.array([[rng.randint(-9, 9) for _ in range(n)] for _ in range(3)], dtype=dt).reshape(3, n)
    long = np.array([rng.randint(-9, 9) for _ in range(3 * n + 2)], dtype=dt)
    out = [("fresh", np.array(vals[:n], dtype=dt)),
           ("C-table column", c_tab[:, j]), ("F-table column", f_tab[:, j]), ("C-table row", r_tab[1]),
           ("a[::2]", long[: 2 * n : 2]), ("a[1::3]", long[1 : 1 + 3 * n : 3][:n]), ("a[::-1]", np.array(vals[:n], dtype=dt)[::-1]),
           ("contiguous a[lo:hi]", long[1 : 1 + n]), ("strided a[lo:hi]", c_tab[:, j][0:n])]
    return [(lab, a) for lab, a in out if a.shape == (n,)]


def twin(E, a, form, flag_form):
    """model value of the real array `a`"""
    unit = bool(a.strides[0] == a.itemsize) if a.size else rng_flag[0]
    kind = "real" if a.dtype.kind == "f" else "int"
    if form == "sarr":
        t = SArr.fresh(kind, name="a", dtype=a.dtype)
        E.assume(t.nz() == len(a))
        for i, x in enumerate(a):
            E.assume(z3.Select(t.arr, i) == (z3.RealVal(float(x)) if kind == "real" else int(x)))
    else:
        t = NArr(a.shape, [E.snum(z3.RealVal(float(x)), "real") if kind == "real" else int(x) for x in a], kind, a.dtype)
    if flag_form == "const":
        t.contiguous = unit
    else:
        b = fresh("bool", "flag")
        E.assume(b.z == unit)
        t.contiguous = b
    return t


rng_flag = [True]

CALLS = []


def call(label, real, model):
    CALLS.append((label, real, model))


def fn(f):
    return lambda E, t, *a, **k: models.lookup_model(f)(E, [t] + list(a), k)


def meth(name):
    return lambda E, t, *a, **k: models.method_of(E, t, name).model(E, t, list(a), k)


def build_calls():
    for f, nm in ((np.ascontiguousarray, "ascontiguousarray"), (np.asfortranarray, "asfortranarray")):
        call(f"np.{nm}(a)", lambda a, _f=f: _f(a), lambda E, t, a, _f=f: fn(_f)(E, t))
        call(f"np.{nm}(a, dtype=a.dtype)", lambda a, _f=f: _f(a, dtype=a.dtype), lambda E, t, a, _f=f: fn(_f)(E, t, dtype=a.dtype))
        call(f"np.{nm}(a, float64)", lambda a, _f=f: _f(a, np.float64), lambda E, t, a, _f=f: fn(_f)(E, t, np.float64))
    for req in (None, "C", "F", ["C"], ["F", "E"], ["C_CONTIGUOUS"], "E", ["C", "F"]):
        call(f"np.require(a, None, {req!r})", lambda a, _r=req: np.require(a, None, _r), lambda E, t, a, _r=req: fn(np.require)(E, t, None, _r))
    call("np.require(a, dtype=float64, requirements='C')", lambda a: np.require(a, dtype=np.float64, requirements="C"),
         lambda E, t, a: fn(np.require)(E, t, dtype=np.float64, requirements="C"))
    call("np.require(a, dtype=a.dtype)", lambda a: np.require(a, dtype=a.dtype), lambda E, t, a: fn(np.require)(E, t, dtype=a.dtype))
    for o in ("C", "F", "A", "K", None):
        call(f"np.asarray(a, order={o!r})", lambda a, _o=o: np.asarray(a, order=_o), lambda E, t, a, _o=o: fn(np.asarray)(E, t, order=_o))
        call(f"np.asarray(a, a.dtype, order={o!r})", lambda a, _o=o: np.asarray(a, a.dtype, order=_o), lambda E, t, a, _o=o: fn(np.asarray)(E, t, a.dtype, order=_o))
        call(f"np.asarray(a, float64, order={o!r})", lambda a, _o=o: np.asarray(a, np.float64, order=_o), lambda E, t, a, _o=o: fn(np.asarray)(E, t, np.float64, order=_o))
        call(f"np.asanyarray(a, order={o!r})", lambda a, _o=o: np.asanyarray(a, order=_o), lambda E, t, a, _o=o: fn(np.asanyarray)(E, t, order=_o))
    call("a.copy()", lambda a: a.copy(), lambda E, t, a: meth("copy")(E, t))
    call("np.copy(a)", lambda a: np.copy(a), lambda E, t, a: fn(np.copy)(E, t))
    call("a.flatten()", lambda a: a.flatten(), lambda E, t, a: meth("flatten")(E, t))
    call("a.ravel()", lambda a: a.ravel(), lambda E, t, a: meth("ravel")(E, t))
    call("np.ravel(a)", lambda a: np.ravel(a), lambda E, t, a: fn(np.ravel)(E, t))
    for o in ("C", "F", "A", "K"):
        call(f"a.copy(order={o!r})", lambda a, _o=o: a.copy(order=_o), lambda E, t, a, _o=o: meth("copy")(E, t, order=_o))
        call(f"a.copy({o!r})", lambda a, _o=o: a.copy(_o), lambda E, t, a, _o=o: meth("copy")(E, t, _o))
        call(f"np.copy(a, order={o!r})", lambda a, _o=o: np.copy(a, order=_o), lambda E, t, a, _o=o: fn(np.copy)(E, t, order=_o))
        call(f"a.flatten({o!r})", lambda a, _o=o: a.flatten(_o), lambda E, t, a, _o=o: meth("flatten")(E, t, _o))
        call(f"a.ravel({o!r})", lambda a, _o=o: a.ravel(_o), lambda E, t, a, _o=o: meth("ravel")(E, t, _o))
        call(f"np.ravel(a, order={o!r})", lambda a, _o=o: np.ravel(a, order=_o), lambda E, t, a, _o=o: fn(np.ravel)(E, t, order=_o))
    call("a.reshape(-1)", lambda a: a.reshape(-1), lambda E, t, a: meth("reshape")(E, t, -1))
    call("a.reshape((-1,))", lambda a: a.reshape((-1,)), lambda E, t, a: meth("reshape")(E, t, (-1,)))
    call("a.reshape(len(a))", lambda a: a.reshape(len(a)), lambda E, t, a: meth("reshape")(E, t, len(a)))
    call("a.reshape(len(a) + 1)", lambda a: a.reshape(len(a) + 1), lambda E, t, a: meth("reshape")(E, t, len(a) + 1))
    call("np.reshape(a, -1)", lambda a: np.reshape(a, -1), lambda E, t, a: fn(np.reshape)(E, t, -1))
    call("a.view()", lambda a: a.view(), lambda E, t, a: meth("view")(E, t))
    call("a.view(a.dtype)", lambda a: a.view(a.dtype), lambda E, t, a: meth("view")(E, t, a.dtype))
    call("a[:]", lambda a: a[:], lambda E, t, a: npmodels.getitem(E, t, slice(None, None, None)))
    call("a[1:]", lambda a: a[1:], lambda E, t, a: npmodels.getitem(E, t, slice(1, None, None)))


def how_real(r, a):
    if r is a:
        return "itself"
    if r.size == 0 or a.size == 0:
        # an empty array shares nothing that could be observed; numpy's base tells what was built
        return "view" if (r.base is not None and (r.base is a or r.base is a.base)) else "copy"
    return "view" if np.shares_memory(r, a) else "copy"


def how_model(out, t):
    if out is t:
        return "itself"
    if isinstance(out, NArr):
        return "view" if out.root() is t.root() and out.view_of is not None else "copy"
    return "view" if getattr(out, "view_of", None) is not None and out.uid == t.uid else "copy"


def cells(E, v):
    """(length, [z3 term per cell]) of a model array whose length the path condition pins"""
    if isinstance(v, NArr):
        return len(v.items), [x.z if isinstance(x, Sym) else (z3.IntVal(x) if isinstance(x, int) else z3.RealVal(float(x))) for x in v.items]
    s = z3.Solver()
    s.add(*E.pc)
    assert s.check() == z3.sat
    n = s.model().eval(v.nz(), model_completion=True).as_long()
    s.add(v.nz() != n)
    if s.check() != z3.unsat:
        return None, []
    return n, [z3.Select(v.arr, i) for i in range(n)]


def must_equal(E, terms, want, what):
    s = z3.Solver()
    s.add(*E.pc)
    if s.check() != z3.sat:
        return mismatch(what, "model facts are contradictory")
    diff = [t != (z3.RealVal(float(x)) if t.sort() == z3.RealSort() else int(x)) for t, x in zip(terms, want)]
    if diff:
        s.add(z3.Or(*diff))
        if s.check() != z3.unsat:
            mismatch(what, "cells differ; numpy:", list(want))


def one(label, a, form, flag_form, name, real, model):
    global compared
    what = f"{name} on {label} {a.dtype} n={len(a)} [{form}, flag {flag_form}]"
    try:
        r = real(a)
        rexc = None
    except Exception as e:  # noqa: BLE001
        r, rexc = None, type(e).__name__
    E = engine()
    t = twin(E, a, form, flag_form)
    try:
        out = model(E, t, a)
        mexc = None
    except Unsupported as e:
        refused[name] = refused.get(name, 0) + 1
        return
    except ProgExc as e:
        out, mexc = None, e.cls.__name__ if hasattr(e, "cls") else "ProgExc"
    compared += 1
    if (rexc is None) != (mexc is None):
        return mismatch(what, "numpy raises", rexc, "/ model raises", mexc)
    if rexc is not None:
        return
    hr, hm = how_real(r, a), how_model(out, t)
    if hr != hm:
        return mismatch(what, "numpy gives", hr, "/ model gives", hm)
    n, terms = cells(E, out)
    if n != len(r):
        return mismatch(what, "length", n, "numpy", len(r))
    must_equal(E, terms, list(r), what)
    if getattr(out, "dtype", None) is not None and np.dtype(out.dtype) != r.dtype:
        mismatch(what, "dtype", out.dtype, "numpy", r.dtype)
    # contiguity of the result
    c = layout.is_contiguous(E, out)
    if not isinstance(c, bool):
        s = z3.Solver()
        s.add(*E.pc)
        s.add(c != bool(r.flags.c_contiguous))
        if s.check() != z3.unsat:
            mismatch(what, "result contiguity not decided as numpy's", r.flags.c_contiguous)
    elif c != bool(r.flags.c_contiguous) or bool(r.flags.c_contiguous) != bool(r.flags.f_contiguous):
        mismatch(what, "result contiguous:", c, "numpy", r.flags.c_contiguous, r.flags.f_contiguous)
    # a store into the result: visible in the argument?
    if len(r) and r.dtype == a.dtype:
        new = int(a[0].item()) + 1
        r[0] = new
        seen = a[0].item() == new
        npmodels.setitem(E, out, 0, new if out.kind == "int" else E.snum(z3.RealVal(new), "real"))
        _, tt = cells(E, t)
        s = z3.Solver()
        s.add(*E.pc)
        s.add(tt[0] == new)
        vis = s.check() == z3.sat
        s2 = z3.Solver()
        s2.add(*E.pc)
        s2.add(tt[0] != new)
        must = s2.check() == z3.unsat
        if seen != vis or seen != must:
            mismatch(what, "store into the result visible in the argument: numpy", seen, "/ model", (vis, must))


def flags_check(label, a, form, flag_form):
    global compared
    E = engine()
    t = twin(E, a, form, flag_form)
    fl = models.method_of(E, t, "flags") if not hasattr(E, "getattr_value") else None
    for nm, want in (("c_contiguous", a.flags.c_contiguous), ("f_contiguous", a.flags.f_contiguous), ("contiguous", a.flags.contiguous), ("fnc", a.flags.fnc), ("forc", a.flags.forc)):
        got = fl.__pyvc_getattr__(E, nm)
        compared += 1
        if isinstance(got, Sym):
            s = z3.Solver()
            s.add(*E.pc)
            s.add(got.z != bool(want))
            ok = s.check() == z3.unsat
        else:
            ok = got == bool(want)
        if not ok:
            mismatch(f"a.flags.{nm} on {label} n={len(a)} [{form}, flag {flag_form}]", got, "numpy", want)
    got = fl.__pyvc_getitem__(E, "C_CONTIGUOUS")
    if not isinstance(got, Sym) and got != bool(a.flags["C_CONTIGUOUS"]):
        mismatch("a.flags['C_CONTIGUOUS']", label)


def main():
    cases = int(sys.argv[1]) if len(sys.argv) > 1 else 40
    rng = random.Random(9)
    build_calls()
    for c in range(cases):
        n = [0, 1, 2, 3, 5][c % 5] if c < 10 else rng.randint(0, 6)
        dt = [np.float32, np.int32, np.float64, np.int64][c % 4]
        for label, a0 in real_arrays(rng, n, dt):
            rng_flag[0] = rng.random() < 0.5  # an empty array: whatever the flag says, it is contiguous
            form = ("sarr", "narr")[rng.randrange(2)]
            flag_form = ("const", "symbolic")[rng.randrange(2)]
            flags_check(label, a0, form, flag_form)
            for name, real, model in CALLS:
                one(label, a0, form, flag_form, name, real, model)  # (stores made into the results change a0; the twin is rebuilt from it)
    print(f"xcheck_layout: {compared} comparisons, {bad} mismatches; refused by the model (Unsupported): {refused or 'none'}")
    return 1 if bad else 0


if __name__ == "__main__":
    sys.exit(main())
