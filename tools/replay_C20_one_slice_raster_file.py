"""Native replay of the C20 finding `ToImageStack.transform_and_save / saved-raster-reads-back-as-(X,Y,Z,1)-one-slice`
(run with /verif/.venv/bin/python or /venv/bin/python; VERIF_REPO=<copy> to try a fix):

A rasterised stack that is ONE z slice thick is written by ToImageStack.save_tif as a single TIFF page.  tifffile then reports a 2-D
image with axes 'YX' (the metadata axes string 'ZXY' does not fit a 2-D page and is dropped), so the file is not a (Z, X, Y) stack
and the library's own reader refuses it: read_imgs -> NDArrayImageStack.__init__ -> AssertionError('Should be shape of (X, Y, Z, C)').
Stacks of two or more slices read back as (X, Y, Z, 1) with the rasterised voxels.

Also replays the three observations that lie OUTSIDE the statement of C20 (v3d axis order, GrayImageStack.__getitem__, TeraFly keys)
and the degenerate resolution (no voxel centre inside the box -> np.stack of nothing)."""
import logging
import os
import shutil
import sys
import tempfile
import warnings

sys.path.insert(0, os.environ.get("VERIF_REPO", "/repo"))
import numpy as np
import tifffile

from swcgeom.core import Tree
from swcgeom.images.io import read_images, read_imgs, save_tiff
from swcgeom.transforms.image_stack import ToImageStack

logging.disable(logging.CRITICAL)
warnings.simplefilter("ignore")
base = tempfile.mkdtemp(prefix="c20-replay-", dir="/var/tmp")
failed = False
try:
    print("== FINDING: a raster one slice thick, saved by transform_and_save, read back by read_imgs")
    t = Tree(3, id=[0, 1, 2], type=[1, 3, 3], x=[0.0, 3.0, 6.0], y=[0.0, 1.0, 0.0], z=[0.0, 0.0, 0.0], r=[1.0, 1.0, 1.0], pid=[-1, 0, 1])
    for res in [(1, 1, 1), (1, 1, 2), 2, (1, 2, 3)]:
        tr = ToImageStack(resolution=res)
        arr = tr(t)  # (Z, X, Y)
        f = os.path.join(base, "flat.tif")
        if os.path.exists(f):
            os.remove(f)
        tr.transform_and_save(f, t, verbose=False)
        with tifffile.TiffFile(f) as tf:
            sh, ax = tf.series[0].shape, tf.series[0].axes
        try:
            s = read_imgs(f, dtype=np.uint8)
            same = s.shape == arr.transpose(1, 2, 0)[..., None].shape and np.array_equal(s.get_full()[..., 0], arr.transpose(1, 2, 0))
            got = f"shape {tuple(int(v) for v in s.shape)}, voxels equal: {same}"
            failed = failed or not same
        except Exception as e:
            got = f"{type(e).__name__}: {e}"
            failed = True
        print(f"  resolution {res}: raster (Z, X, Y) = {arr.shape} | file series {sh} axes {ax!r} | read_imgs: {got}")

    print("== outside C20: v3draw written with header sizes x, y, z, c = 4, 3, 2, 1")
    from v3dpy.loaders import Raw

    a = (np.arange(24) % 251).astype(np.uint8).reshape(4, 3, 2, 1)
    f = os.path.join(base, "s.v3draw")
    Raw().save(f, np.ascontiguousarray(a.transpose(3, 2, 1, 0)))
    st = read_imgs(f, dtype=np.uint8)
    print(f"  read_imgs shape {tuple(st.shape)}; equal to the (X, Y, Z, C) original: {st.shape == a.shape and np.array_equal(st.get_full(), a)}; equal to its (C, Z, Y, X) transpose: {np.array_equal(st.get_full(), a.transpose(3, 2, 1, 0))}")

    print("== outside C20: GrayImageStack (deprecated read_images)")
    f = os.path.join(base, "g.tif")
    b = (np.arange(30) % 251).astype(np.uint8).reshape(2, 3, 5, 1)
    save_tiff(b, f)
    g = read_images(f, dtype=np.uint8)
    try:
        r = repr(g[0, 0, 0])
    except RecursionError:
        r = "RecursionError"
    print(f"  shape {tuple(g.shape)}, get_full equals channel 0: {np.array_equal(g.get_full(), b[..., 0])}, g[0, 0, 0] -> {r}")

    print("== outside C20: TeraFly directory RES(4x6x2) with one tile")
    root = os.path.join(base, "tera")
    d = os.path.join(root, "RES(4x6x2)", "000000", "000000_000000")
    os.makedirs(d)
    vol = (np.arange(48) % 251).astype(np.uint8).reshape(6, 4, 2, 1)
    save_tiff(vol, os.path.join(d, "000000_000000_000000.tif"))
    st = read_imgs(root, dtype=np.uint8)
    print(f"  class {type(st).__name__}, shape {tuple(int(v) for v in st.shape)}")
    for what, fn in [("st[1:3, 1:3, 0:2, :]", lambda: st[1:3, 1:3, 0:2, :]), ("st[1:3, 1:3, 1:2]", lambda: st[1:3, 1:3, 1:2]), ("st[0:2, 0:2, 0:2]", lambda: st[0:2, 0:2, 0:2]),
                     ("st[1, 1, 1, 0]", lambda: st[1, 1, 1, 0]), ("st.get_full()", lambda: st.get_full()), ("save_tiff(st, out)", lambda: save_tiff(st, os.path.join(base, "out.tif")))]:
        try:
            r = fn()
            print(f"  {what} -> {getattr(r, 'shape', r)}")
        except Exception as e:
            print(f"  {what} -> {type(e).__name__}: {str(e)[:80]}")

    print("== outside C20 (degenerate resolution): a voxel more than twice as high as the box, no voxel centre inside")
    try:
        print("  ", ToImageStack(resolution=(1, 1, 9))(t).shape)
    except Exception as e:
        print(f"  ToImageStack((1, 1, 9))(flat tree) -> {type(e).__name__}: {e}")
finally:
    shutil.rmtree(base, ignore_errors=True)
print("FINDING reproduced" if failed else "finding NOT reproduced (fixed?)")
sys.exit(1 if failed else 0)
