"""cross-check of the library models added in pyvc/ext_C10.py (round 2) against the real library on concrete inputs
run: /verif/.venv/bin/python tools/xcheck_ext_C10.py"""
import itertools
import math
import os
import sys
from fractions import Fraction

sys.path.insert(0, os.path.dirname(os.path.dirname(os.path.abspath(__file__))))
sys.path.insert(0, os.environ.get("VERIF_REPO", "/repo"))
import numpy as np
import z3

from pyvc import ext_C10 as X
from pyvc.engine import ProgExc
from pyvc.spec import Registry
from pyvc.values import NArr, PList, SArr, Sym
from pyvc.verify import Verifier

E = Verifier(Registry(), "C10")
ok = True


def check(name, cond):
    global ok
    ok = ok and bool(cond)
    print(("ok   " if cond else "FAIL ") + name)


def val(z):
    """value of a closed z3 term"""
    s = z3.Solver()
    for h in E.pc:
        s.add(h)
    assert s.check() == z3.sat
    return s.model().eval(z, model_completion=True)


# np.nonzero of a concrete mask
for m in ([True, False, True, True], [False, False], []):
    got = X._nonzero(E, [NArr((len(m),), m, "bool")], {})[0].items
    check(f"nonzero {m}", got == list(np.nonzero(np.array(m, dtype=bool))[0]))
# np.setdiff1d on concrete ints
for a, b in (([0, 1, 2, 3], [-1, 0, 0, 1]), ([0], [-1]), ([0, 1, 2], [-1, 2, 0])):
    got = X._setdiff1d(E, [NArr((len(a),), a, "int"), NArr((len(b),), b, "int")], {"assume_unique": True}).items
    check(f"setdiff1d {a} {b}", got == list(np.setdiff1d(np.array(a), np.array(b), assume_unique=True)))
# np.degrees(x) = x*180/pi
for x in (0.0, 1.0, -2.5, math.pi):
    check(f"degrees {x}", abs(float(np.degrees(x)) - x * 180 / math.pi) < 1e-12)
# np.ceil / int: -to_int(-x), truncation toward zero
for x in (Fraction(7, 2), Fraction(-7, 2), Fraction(3), Fraction(0), Fraction(-1, 3)):
    xs = Sym(z3.RealVal(str(x)), "real")
    c = val(X._ceil(E, [xs], {}).z)
    check(f"ceil {x}", Fraction(c.numerator_as_long(), c.denominator_as_long()) == Fraction(float(np.ceil(float(x)))))
    r = X._int(E, [Sym(z3.RealVal(str(x)) + z3.Real("zero_"), "real")], {})
    E.pc.append(z3.Real("zero_") == 0)
    check(f"int {x}", val(r.z).as_long() == int(float(x)))
# np.linalg.norm(a, ord=2, axis=1, keepdims=True)
a = [[3, 4, 0], [0, 0, 0], [1, 2, 2]]
got = X._norm(E, [NArr((3, 3), [Fraction(v) for row in a for v in row], "real")], dict(ord=2, axis=1, keepdims=True))
want = np.linalg.norm(np.array(a, dtype=float), ord=2, axis=1, keepdims=True)
check("norm keepdims shape", got.shape == want.shape)
check("norm keepdims values", [float(v) for v in got.items] == list(want.reshape(-1)))
got = X._norm(E, [NArr((3,), [Fraction(2), Fraction(3), Fraction(6)], "real")], {})
check("norm 1-D", float(got) == float(np.linalg.norm(np.array([2.0, 3.0, 6.0]))))
# max / min of one scalar, of nothing; chain.from_iterable
for args in ([5], []):
    try:
        max(*args)
        real = None
    except TypeError as e:
        real = TypeError
    try:
        X._minmax(False)(E, args, {})
        mod = None
    except ProgExc as e:
        mod = e.cls
    check(f"max(*{args}) raises TypeError in both", real is TypeError and mod is TypeError)
check("max(*[2, 7, 3])", X._minmax(False)(E, [2, 7, 3], {}) == max(*[2, 7, 3]))
nested = [[1, 2], [], [3]]
got = X._from_iterable(E, [PList([PList(x) for x in nested])], {})
check("chain.from_iterable", got.seq.items == list(itertools.chain.from_iterable(nested)))
# np.zeros((P, T, n)) and out[i, j, :L] = v on a symbolic last extent, evaluated at n = 4
n = Sym(z3.Int("n_"), "int")
E.pc.append(n.z == 4)
g = X._zeros(E, [(2, 2, n)], dict(dtype=np.float32))
v = SArr(z3.Lambda([z3.Int("q_")], z3.ToReal(z3.Int("q_")) + 10), z3.IntVal(3), "real")
g.__pyvc_setitem__(E, (1, 0, slice(None, 3, None)), v)
ref = np.zeros((2, 2, 4), dtype=np.float32)
ref[1, 0, :3] = np.array([10, 11, 12])
gotv = [[[float(val(z3.Select(g.rows[i][j], k)).as_fraction()) for k in range(4)] for j in range(2)] for i in range(2)]
check("zeros((2,2,n)) + slice store", gotv == ref.tolist())
try:
    ref[0, 0, :2] = np.array([1, 2, 3])
    real = None
except ValueError:
    real = ValueError
E2 = Verifier(Registry(), "C10")
E2.pc.append(n.z == 4)
try:
    g.__pyvc_setitem__(E2, (0, 0, slice(None, 2, None)), v)
    mod = None
except ProgExc as e:
    mod = e.cls
check("slice store of a wrong length raises ValueError in both", real is ValueError and mod is ValueError)
# np.count_nonzero(list of rows, axis=1): per-row counts (rows given by a family indexed by j), evaluated on 3 rows of length 4
rows = np.array([[1, 0, 1, 1], [0, 0, 0, 0], [1, 1, 1, 1]], dtype=bool)
tbl = z3.K(z3.IntSort(), z3.BoolVal(False))
j, i = z3.Int("j_fam"), z3.Int("i_fam")
cell = z3.BoolVal(False)
for a_ in range(3):
    for b_ in range(4):
        if rows[a_, b_]:
            cell = z3.Or(cell, z3.And(j == a_, i == b_))
fam = X.RowFamily(j, z3.IntVal(3), SArr(z3.Lambda([i], cell), z3.IntVal(4), "bool"))
E3 = Verifier(Registry(), "C10")
res = X._count_nonzero(E3, [fam], dict(axis=1))
s = z3.Solver()
for h in E3.pc:
    s.add(h)
want = np.count_nonzero(list(rows), axis=1)
s.add(z3.Or(*[res.get(k).z != int(want[k]) for k in range(3)]))
check("count_nonzero(rows, axis=1) = per-row counts (the axioms force numpy's answer)", s.check() == z3.unsat)
print("ALL OK" if ok else "MISMATCH")
sys.exit(0 if ok else 1)
