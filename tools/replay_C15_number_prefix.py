"""Replay of the finding behind obligation C15/regex/number-token-is-entirely-a-number:
the ASC Lexer classifies a word with RE_FLOAT.match (a PREFIX test) and converts the WHOLE word with float(), so a malformed
coordinate that starts like a number and that float() happens to accept (Python digit separators, non-ASCII digits) is
converted instead of rejected.      /venv/bin/python tools/replay_C15_number_prefix.py
"""
import io
import os
import sys

sys.path.insert(0, os.environ.get("VERIF_REPO", "/repo"))
from swcgeom.transforms.neurolucida_asc import NeurolucidaAscToSwc, RE_FLOAT  # noqa: E402

DOC = '((Axon)(1 0 0 0.5)(%s -0.5 0.25 0.625))'
bad = 0
for word in ("1_0", "0٠", "1٣", "2.5", "1,5", "1.2.3"):
    whole = RE_FLOAT.fullmatch(word) is not None
    try:
        t = NeurolucidaAscToSwc.from_stream(io.StringIO(DOC % word))
        got = f"converted, {t.number_of_nodes()} nodes, x of the last point = {float(t.x()[-1])}"
        if not whole:
            bad += 1
    except Exception as e:  # noqa: BLE001
        got = f"rejected: {type(e).__name__}: {e}"
    print(f"point ({word} -0.5 0.25 0.625): a number of the ASC format (RE_FLOAT matches the whole word): {whole};  {got}")
print("malformed points converted:", bad)
sys.exit(1 if bad else 0)
