"""Cross-check of pyvc/regex_z3.py against the real `re` (and of the reference grammars of contracts/regex_facts.py against
the real float() / int() / format() / str()):

    python tools/xcheck_regex_z3.py [N per pattern, default 3000] [seed]

For every pattern the repository applies (read from the repository exactly as the facts do) and every reference regex, N
random strings (sampled from the pattern's own parse tree, then mutated with characters that matter: Unicode blanks and
digits, signs, points, exponents, newlines, characters beyond z3's alphabet) are decided twice: by `re.<method>` natively and
by z3 on the translated regular expression.  Any disagreement is printed and the exit code is 1.
"""
import os
import random
import re
import re._constants as C
import re._parser as P
import sys
import time

HERE = os.path.dirname(os.path.dirname(os.path.abspath(__file__)))
sys.path.insert(0, HERE)
sys.path.insert(0, os.environ.get("VERIF_REPO", "/repo"))

from contracts import regex_facts as RF  # noqa: E402
from pyvc import regex_z3 as RZ  # noqa: E402

POOL = list(" \t\n\r\x0b\x0c\x1c\x1f\x85\xa0   　") + list("0123456789") + list("٠٣५\U0001D7CE") \
    + list("eE+-.,#_xX;()|iInNfFaAtTyY") + ["\U00030000", "\U0010FFFF", "\U0002FFFF", "\\", "{", "u"]


def sample(items, rnd, depth=0):
    out = []
    for op, av in items:
        if op is C.LITERAL:
            out.append(chr(av))
        elif op is C.NOT_LITERAL or op is C.ANY:
            out.append(rnd.choice(POOL))
        elif op is C.IN:
            pos = [a for a in av if a[0] is not C.NEGATE]
            if len(pos) != len(av):
                out.append(rnd.choice(POOL))
                continue
            o, a = rnd.choice(pos)
            if o is C.LITERAL:
                out.append(chr(a))
            elif o is C.RANGE:
                out.append(chr(rnd.randint(a[0], min(a[1], a[0] + 12))))
            elif o is C.CATEGORY:
                src = {C.CATEGORY_DIGIT: "0123456789٣५", C.CATEGORY_SPACE: " \t\n\r\xa0 ", C.CATEGORY_WORD: "a_1"}.get(a)
                out.append(rnd.choice(src) if src else rnd.choice(POOL))
        elif op is C.SUBPATTERN:
            out.append(sample(av[3], rnd, depth + 1))
        elif op is C.BRANCH:
            out.append(sample(rnd.choice(av[1]), rnd, depth + 1))
        elif op in (C.MAX_REPEAT, C.MIN_REPEAT):
            lo, hi, sub = av
            hi = lo + 3 if hi is C.MAXREPEAT else hi
            for _ in range(rnd.randint(lo, min(hi, lo + 3))):
                out.append(sample(sub, rnd, depth + 1))
        # anchors / look-aheads contribute no characters
    return "".join(out)


def mutate(s, rnd):
    s = list(s)
    for _ in range(rnd.choice([0, 0, 1, 1, 2, 3])):
        k = rnd.randint(0, len(s))
        what = rnd.random()
        if what < 0.45 or not s:
            s.insert(k, rnd.choice(POOL))
        elif what < 0.75:
            del s[min(k, len(s) - 1)]
        else:
            s[min(k, len(s) - 1)] = rnd.choice(POOL)
    return "".join(s)


def clip(s):
    """z3's alphabet ends at U+2FFFF, which stands for every code point from there on (see regex_z3)"""
    return "".join(ch if ord(ch) <= RZ.MAXCP else chr(RZ.MAXCP) for ch in s)


def strings(pattern, flags, n, rnd, extra=()):
    tree = list(P.parse(pattern, flags))
    seen = set(extra)
    tries = 0
    while len(seen) < n + len(extra) and tries < 40 * n:
        tries += 1
        s = sample(tree, rnd)
        if rnd.random() < 0.7:
            s = mutate(s, rnd)
        if rnd.random() < 0.15:
            s = s + rnd.choice(["\n", "\r\n", " ", "\n\n"])
        seen.add(s)
    return sorted(seen)


def check(label, pattern, flags, method, native, n, rnd, extra=()):
    t0 = time.time()
    r = RZ.parse(pattern, flags).hit(method)
    bad, pos = [], 0
    ss = strings(pattern, flags, n, rnd, extra)
    for s in ss:
        want = bool(native(s))
        got = RZ.member(clip(s), r)
        pos += want
        if want != got:
            bad.append((s, want, got))
    print(f"{label:58s} {method:9s} strings={len(ss):5d} accepted={pos:5d} disagreements={len(bad)}  {time.time() - t0:5.1f}s", flush=True)
    for s, want, got in bad[:8]:
        print(f"    {s!r}: native={want} z3={got}")
    return len(bad)


def main():
    n = int(sys.argv[1]) if len(sys.argv) > 1 else 3000
    rnd = random.Random(int(sys.argv[2]) if len(sys.argv) > 2 else 20260929)
    bad = 0
    corner = ("", "\n", " ", "1 1 0 0 0 1 -1", "1 1 0 0 0 1 -1\n", "1 1 0 0 0 1 -1\n\n", "1 1 0 0 0 1 1,5", "1 1 0 0 0 1 1.5", "# c", " #", "1 1 0 0 0 1 -1 1e3 \r\n")
    # --- the patterns the repository applies
    for ne in (0, 1):
        for m, p, f in RF.swc_patterns(ne):
            pat = re.compile(p, f)
            bad += check(f"io.py parse_swc pattern[{ne} extra] {p[:28]}...", p, f, m, getattr(pat, m), n, rnd, corner)
    import swcgeom.core.swc_utils.io as io_mod

    bad += check("io.py RE_FLOAT", io_mod.RE_FLOAT, 0, "fullmatch", re.compile(io_mod.RE_FLOAT).fullmatch, n, rnd)
    (m, p, f), delims = RF.asc_patterns()
    for mm in sorted({m, "fullmatch", "match", "search"}):
        bad += check("neurolucida_asc.py RE_FLOAT", p, f, mm, getattr(re.compile(p, f), mm), n, rnd, ("1,5", "1.2.3", "2.5E-", "1_0", "1."))

    # --- synthetic patterns covering the supported subset
    for p, f in [(r"a{2,3}b{2,}[^a-c\d].", 0), (r"(?:ab|a)(?:c|bc)$", 0), (r"x(?!y)[xy]*\Z", 0), (r"\w+?\W", re.ASCII), (r"(?=.*\d)[a-z0-9]{2,4}$", 0),
                 (r"^(\s*)(-?\d+)(?:,(\S*))?\s*$", 0), (r"\d+\s\w", re.ASCII), (r"\A[+-]?(?:0|[1-9]\d*)(?=[eE.]|$)", 0), (r"[\s\S]x|[^\n]$", 0)]:
        for mm in ("search", "match", "fullmatch"):
            bad += check(f"synthetic {p} flags={int(f)}", p, f, mm, getattr(re.compile(p, f), mm), max(200, n // 5), rnd, ("", "\n", "aab", "abc\n"))
    refused = 0
    for p, f in [(r"\w", 0), (r"(a)\1", 0), (r"(?<=a)b", 0), (r"\bword", 0), (r"a", re.I), (r"a.b", re.S), (r"^a$", re.M), (r"a|^b", 0), (r"(?:a$)*", 0), (r"(?>a+)b", 0), (r"a*+b", 0), (r"(?i:a)", 0), (r"(a)(?(1)b|c)", 0)]:
        try:
            RZ.Pat(p, f).search()
            print(f"NOT REFUSED: {p!r} flags={int(f)}")
            bad += 1
        except RZ.Unsupported:
            refused += 1
    print(f"unsupported constructs refused: {refused}")
    # --- the reference grammars against the interpreter
    def ok(fn):
        def f(s):
            try:
                fn(s)
                return True
            except ValueError:
                return False

        return f

    bad += check("reference: float() argument grammar vs float()", RF.PY_FLOAT, 0, "fullmatch", ok(float), 2 * n, rnd,
                 ("inf", "-Infinity", "nan", "+NaN", " 1_0 ", "1__0", "_1", "1_", "1._5", "1e1_0", ".", "e5", "1e", "٣.५", "infinit", "1\x1c", "\xa01", "1 2", "0x10", "1e+-1"))
    bad += check("reference: int() argument grammar vs int()", RF.PY_INT, 0, "fullmatch", ok(int), n, rnd, ("1_0", "+-1", " -0 ", "٣", "1.", "", " ", "0_", "00", "-"))
    # --- the writer's texts are in the writer languages (sampled: these are inclusions the facts take as given)
    wf, wn, wp = (re.compile(x) for x in (RF.W_FLOAT, RF.W_NAT, RF.W_PID))
    miss = 0
    for _ in range(20000):
        v = rnd.choice([rnd.uniform(-1e6, 1e6), rnd.uniform(-1, 1) * 10 ** rnd.randint(-30, 300), float(rnd.randint(-5, 5)), -0.0, 1e-5, 0.00005, 5e-324, 1.7976931348623157e308])
        miss += wf.fullmatch(f"{v:.4f}") is None
        k = rnd.choice([rnd.randint(0, 10), rnd.randint(0, 10 ** rnd.randint(1, 30))])
        miss += wn.fullmatch(str(k)) is None or wp.fullmatch(str(k)) is None
    miss += wp.fullmatch(str(-1)) is None
    import numpy as np

    for v in (np.float32(1.5), np.float64(-0.0), np.float32(3.4028235e38)):
        miss += wf.fullmatch(f"{v:.4f}") is None
    for k in (np.int32(-1), np.int64(7), np.int64(2 ** 62)):
        miss += wp.fullmatch(str(k)) is None
    print(f"writer texts format(v,'.4f') / str(k) outside the writer languages: {miss}")
    bad += miss
    # --- Python-side character sets used as reference
    same_ws = RZ.py_space() == RZ.class_ranges(r"\s")
    same_d = RZ.py_decimal() == RZ.class_ranges(r"\d")
    print(f"str.isspace == \\s : {same_ws}   str.isdecimal == \\d : {same_d}")
    print("TOTAL disagreements:", bad)
    return 1 if bad else 0


if __name__ == "__main__":
    sys.exit(main())
