"""Cross-check of the models of pyvc/ext_C17.py against numpy: masked argmin on random masked matrices; plain matrix argmin / max / min /
np.where; the three spellings of the pairwise-distance matrix (values over the reals, and the static float rule against what numpy computes
in float32); row tests / selections / stackings of a point cloud (np.isclose / allclose, .all / .any(axis=1), P[mask], np.unique(axis=0), np.delete, np.vstack /
np.concatenate, np.where(mask) / np.flatnonzero) against numpy on clouds around a soma 0 .. 1e5 away from the origin.

Run:  /verif/.venv/bin/python tools/xcheck_ext_C17.py [cases=1000]      (exit 0 = the model agrees with numpy on every case)

For every case the REAL model function `_masked_argmin` + `_np_unravel_index` is run through a pyvc engine on an (n, m) matrix whose
cells are the concrete numbers of the case; the facts the model assumes (its primitives (I), (F), (A), see the docstring of the model)
are then checked against what numpy computes for `np.unravel_index(ma.array(d, mask=k).argmin(), d.shape)`:
  * numpy's answer satisfies the assumed facts (the model does not exclude the real behaviour), and
  * no other cell does (the model is as precise as numpy: ties go to the first cell in row-major order);
  * the DERIVED characterisation used by the proof of PointsToCuntzMST.__call__ (unmasked, minimal among the unmasked cells) holds
    for numpy's answer;
  * for fully masked matrices numpy silently returns cell (0, 0): this is why the model carries the proof obligation
    `argmin-some-unmasked-entry` (checked here: such a case is outside the model's domain, the obligation is generated and false).
Matrices: shapes 1..6 x 1..6, values from a small grid (many ties) or random floats, masks random with every density, also all /
all-but-one masked, diagonal masked (the shape the carrier produces).
"""
import os
import random
import sys

sys.path.insert(0, os.path.dirname(os.path.dirname(os.path.abspath(__file__))))
import numpy as np
import z3
from numpy import ma

from pyvc import ext_C17 as X
from pyvc.spec import Registry
from pyvc.values import frac
from pyvc.verify import Verifier

X.install()
I, Rl, B = z3.IntSort(), z3.RealSort(), z3.BoolSort()


def matrix(vals, kind):
    n, m = vals.shape
    a, b = z3.Ints("xa xb")
    body = z3.BoolVal(False) if kind == "bool" else z3.RealVal(0)
    for r in range(n):
        for c in range(m):
            v = z3.BoolVal(bool(vals[r, c])) if kind == "bool" else z3.RealVal(str(frac(float(vals[r, c]))))
            body = z3.If(z3.And(a == r, b == c), v, body)
    return X.M2(z3.Lambda([a, b], body), n, m, kind)


def run_model(d, k):
    E = Verifier(Registry(), "C17")
    E.cur_key = "xcheck:masked_argmin"
    arr = X._ma_array(E, [matrix(d, "real")], {"mask": matrix(k, "bool")})
    flat = X._masked_argmin(E, arr, [], {})
    i, j = X._np_unravel_index(E, [flat, arr.__pyvc_getattr__(E, "shape")], {})
    return E, i.z, j.z


# ------------------------------------------------------------------ plain-matrix models: argmin, max / min, np.where
def _engine():
    E = Verifier(Registry(), "C17")
    E.cur_key = "xcheck:matrix"
    return E


def _unique_value(E, term, want):
    """the assumed facts admit `want` for `term` and nothing else"""
    s = z3.Solver()
    s.add(*E.pc)
    s.add(term == want)
    ok1 = s.check() == z3.sat
    s = z3.Solver()
    s.add(*E.pc)
    s.add(term != want)
    return ok1 and s.check() == z3.unsat


def check_plain(cases, rng):
    bad = 0
    for _ in range(cases):
        n, m = rng.randint(1, 5), rng.randint(1, 5)
        d = np.array([[rng.choice([0.0, 0.5, 1.0, 1.5, 2.0]) if rng.random() < 0.6 else rng.uniform(-3, 3) for _ in range(m)] for _ in range(n)])
        k = np.array([[rng.random() < 0.4 for _ in range(m)] for _ in range(n)], dtype=bool)
        # ndarray.argmin + unravel_index
        E = _engine()
        M = matrix(d, "real")
        flat = X._m2_argmin(E, M, [], {})
        i, j = X._np_unravel_index(E, [flat, M.__pyvc_getattr__(E, "shape")], {})
        wi, wj = (int(x) for x in np.unravel_index(d.argmin(), d.shape))
        if not (_unique_value(E, i.z, wi) and _unique_value(E, j.z, wj)):
            bad += 1
            print("MISMATCH argmin", d.tolist(), (wi, wj))
        # max / min
        for is_max in (True, False):
            E = _engine()
            r = X._m2_red(is_max)(E, matrix(d, "real"), [], {})
            want = z3.RealVal(str(frac(float(d.max() if is_max else d.min()))))
            if not _unique_value(E, r.z, want):
                bad += 1
                print("MISMATCH max/min", d.tolist())
        # np.where(mask, scalar, matrix) and np.where(mask, matrix, matrix)
        E = _engine()
        c = rng.uniform(-2, 2)
        W = X._np_where(E, [matrix(k, "bool"), frac(c), matrix(d, "real")], {})
        W2 = X._np_where(E, [matrix(k, "bool"), matrix(d, "real"), matrix(-d, "real")], {})
        w1, w2 = np.where(k, c, d), np.where(k, d, -d)
        for a in range(n):
            for b in range(m):
                for Wm, wn in ((W, w1), (W2, w2)):
                    got = z3.simplify(X.sel2(Wm.arr, a, b))
                    if not z3.is_true(z3.simplify(got == z3.RealVal(str(frac(float(wn[a, b])))))):
                        bad += 1
                        print("MISMATCH where", a, b, got, wn[a, b])
    print(f"matrix argmin / max / min / np.where: {cases} random matrices, mismatches: {bad}")
    return bad


# ------------------------------------------------------------------ distance matrices: the idioms and the float rule
def cloud(P):
    n = P.shape[0]
    a = z3.Int("pa")
    cols = []
    for c in range(3):
        body = z3.RealVal(0)
        for r in range(n):
            body = z3.If(a == r, z3.RealVal(str(frac(float(P[r, c])))), body)
        cols.append(z3.Lambda([a], body))
    return X.Points(cols, n)


def _value(term):
    """number denoted by a closed term in which rsqrt is the real square root"""
    import math

    t = z3.simplify(term)
    if z3.is_rational_value(t) or z3.is_algebraic_value(t):
        return float(t.as_fraction()) if z3.is_rational_value(t) else float(t.approx(20).as_fraction())
    if t.decl().name() == "rsqrt":
        return math.sqrt(_value(t.arg(0)))
    raise ValueError(f"cannot evaluate {t}")


def _run_source(E, src, P):
    """run a straight-line numpy snippet (the carrier's own spelling) through the pyvc interpreter on a concrete cloud"""
    import ast as _ast

    from pyvc.interp import Frame

    fr = Frame(vars=dict(points=P), globs=dict(np=np))
    for st in _ast.parse(src).body:
        E.exec(st, fr)
    return fr.vars["dis"]


IDIOMS = {
    "norm of reshaped differences": "dis = np.linalg.norm(points.reshape((-1, 1, 3)) - points.reshape((1, -1, 3)), axis=2)",
    "sqrt of summed squared differences": "diff = points[:, None, :] - points[None, :, :]\ndis = np.sqrt((diff**2).sum(axis=2))",
    "Gram matrix": "sq = np.einsum('ij,ij->i', points, points)\ndis = np.sqrt(np.maximum(sq[:, None] + sq[None, :] - 2 * points @ points.T, 0))",
}


def check_distances(cases, rng):
    bad = 0
    worst = {k: 0.0 for k in IDIOMS}
    for _ in range(cases):
        n = rng.randint(2, 5)
        off = rng.choice([0.0, 0.0, 1000.0, -2500.0])
        P64 = np.array([[off + rng.uniform(0, 9) for _ in range(3)] for _ in range(n)], dtype=np.float32).astype(np.float64)
        exact = np.sqrt(((P64[:, None, :] - P64[None, :, :]) ** 2).sum(axis=2))
        for name, src in IDIOMS.items():
            E = _engine()
            dis = _run_source(E, src, cloud(P64))
            fp = X.fp_of(dis)
            clean = fp is not None and not fp.sites
            if clean != (name != "Gram matrix"):
                bad += 1
                print("MISMATCH float rule", name, None if fp is None else [w for w, _ in fp.sites])
            # (a) the model's real-number value is the Euclidean distance
            for a in range(n):
                for b in range(n):
                    got = _value(X.sel2(dis.arr, a, b))
                    if abs(got - exact[a, b]) > 1e-9 * (1 + exact[a, b]):
                        bad += 1
                        print("MISMATCH value", name, a, b, got, exact[a, b])
            # (b) what numpy computes in float32 (the declared input dtype) against the float rule: an expression without
            #     cancellation sites stays within gamma_k of the exact value, k = fp.ops
            loc = dict(np=np, points=P64.astype(np.float32))
            exec(src, loc)
            f32 = np.asarray(loc["dis"], dtype=np.float64)
            nz = exact > 0
            rel = float((np.abs(f32 - exact)[nz] / exact[nz]).max())
            worst[name] = max(worst[name], rel)
            if clean and rel > 2 * fp.ops * 2.0 ** -24:
                bad += 1
                print("MISMATCH float bound", name, rel, fp.ops)
    print(f"distance idioms: {cases} clouds (half of them ~1e3 away from the origin), mismatches: {bad}; worst float32 relative error: "
          + ", ".join(f"{k}: {v:.2e}" for k, v in worst.items()) + f"  (gamma_6 ~ {6 * 2.0 ** -24:.1e})")
    return bad


# ------------------------------------------------------------------ rows of a cloud: tests, selections, stackings
ROW_IDIOMS = {
    "isclose().all(axis=1), P[~mask]": "m = np.isclose(points, soma).all(axis=1)\nout = points[~m]",
    "isclose(soma, P, rtol, atol).any(axis=1), P[mask]": "m = np.isclose(soma, points, rtol=1e-3, atol=1e-2).any(axis=1)\nout = points[m]",
    "np.unique(P, axis=0)": "out = np.unique(points, axis=0)",
    "np.vstack([soma[None], P])": "out = np.vstack([soma[None], points])",
    "np.vstack([soma, P])": "out = np.vstack([soma, points])",
    "np.concatenate([P, [soma], P[1:]])": "out = np.concatenate([points, [soma], points[1:]])",
    "np.concatenate([soma[None, :], P], axis=0)": "out = np.concatenate([soma[None, :], points], axis=0)",
    "np.delete(P, np.where(eq.all(axis=1))[0], axis=0)": "out = np.delete(points, np.where((points == soma).all(axis=1))[0], axis=0)",
    "np.delete(P, mask, axis=0)": "out = np.delete(points, (points != soma).any(axis=1), axis=0)",
    "np.delete(P, 0, axis=0)": "out = np.delete(points, 0, axis=0)",
    "np.delete(P, -1, axis=0)": "out = np.delete(points, -1, axis=0)",
    "squared distance to the soma > c": "keep = ((points - soma) ** 2).sum(axis=1) > 0.1\nout = points[keep]",
    "P[np.flatnonzero(np.any(np.abs(P - soma) > c, axis=1))]": "out = points[np.flatnonzero(np.any(np.abs(points - soma) > 0.3, axis=1))]",
    "P[1:-1]": "out = points[1:-1]",
    "P[(P[:, 0] > soma[0]) & ~(P[:, 2] < soma[2])]": "out = points[(points[:, 0] > soma[0]) & ~(points[:, 2] < soma[2])]",
    "P[np.where(mask)]": "out = points[np.where(np.isclose(points, soma, atol=0.05).all(axis=1))]",
}


def check_rows(cases, rng):
    """every idiom on random small clouds around a soma at several distances from the origin (with points at / next to the soma and duplicate points):
    numpy's result satisfies what the model assumes about its result, and no other (k, 3) array does.  (Thresholds are chosen away from the values the steps
    produce: on a boundary the float64 evaluation of numpy and the exact evaluation over the reals may differ - "floats are reals" is the engine's standing assumption.)"""
    from pyvc.interp import Frame
    from pyvc.values import NArr

    import ast as _ast

    bad = done = 0
    steps = [0.0, 0.0, 1e-9, -1e-9, 1e-6, 0.004, -0.009, 0.011, 0.04, -0.2, 0.5, 0.7, 3.0, -2.0]
    for case in range(cases):
        mag = rng.choice([0.0, 1.0, 1e3, 1e5])
        soma = np.array([mag * rng.choice([-1, 1]) * rng.uniform(0.5, 1.5) for _ in range(3)])
        n = rng.randint(1, 6)
        P = np.array([[soma[c] + rng.choice(steps) for c in range(3)] for _ in range(n)])
        if n > 1 and rng.random() < 0.4:
            P[rng.randrange(n)] = P[rng.randrange(n)]
        for name, src in ROW_IDIOMS.items():
            try:
                env = dict(np=np, points=P.copy(), soma=soma.copy())
                exec(src, env)
                want = np.asarray(env["out"], dtype=float)
            except Exception as e:  # numpy refuses (e.g. deleting from an empty array): outside this check
                continue
            E = _engine()
            fr = Frame(vars=dict(points=cloud(P), soma=NArr((3,), [frac(float(v)) for v in soma], "real")), globs=dict(np=np))
            try:
                for st in _ast.parse(src).body:
                    E.exec(st, fr)
            except Exception as e:  # noqa: BLE001
                bad += 1
                print("MODEL RAISES", name, type(e).__name__, e)
                continue
            out = fr.vars["out"]
            k = want.shape[0]
            same = z3.And(out.nz() == k, *[z3.Select(out.cols[c], z3.IntVal(r)) == z3.RealVal(str(frac(float(want[r, c])))) for r in range(k) for c in range(3)])
            s1 = z3.Solver()
            s1.add(*E.pc)
            s1.add(same)
            s2 = z3.Solver()
            s2.add(*E.pc)
            s2.add(z3.Not(same))
            ok1, ok2 = s1.check() == z3.sat, s2.check() == z3.unsat
            done += 1
            if not (ok1 and ok2):
                bad += 1
                print("MISMATCH", name, dict(numpy_allowed=ok1, numpy_only=ok2), "soma", soma.tolist(), "points", P.tolist(), "numpy", want.tolist())
        # np.allclose: one truth value
        for kw in ("", ", atol=0.05", ", rtol=1e-3, atol=0.0"):
            want = bool(eval(f"np.allclose(points, soma{kw})", dict(np=np, points=P, soma=soma)))
            E = _engine()
            fr = Frame(vars=dict(points=cloud(P), soma=NArr((3,), [frac(float(v)) for v in soma], "real")), globs=dict(np=np))
            E.exec(_ast.parse(f"flag = np.allclose(points, soma{kw})").body[0], fr)
            fz = fr.vars["flag"]
            fz = fz.z if hasattr(fz, "z") else z3.BoolVal(bool(fz))
            s = z3.Solver()
            s.add(*E.pc)
            s.add(fz != z3.BoolVal(want))
            done += 1
            if s.check() != z3.unsat:
                bad += 1
                print("MISMATCH np.allclose", kw, soma.tolist(), P.tolist(), want)
    print(f"rows of a cloud: {done} evaluations of {len(ROW_IDIOMS)} idioms + np.allclose on {cases} clouds, mismatches: {bad}")
    return bad


def main():
    cases = int(sys.argv[1]) if len(sys.argv) > 1 else 1000
    rng = random.Random(17)
    bad = done = fully = 0
    while done < cases:
        n, m = rng.randint(1, 6), rng.randint(1, 6)
        if rng.random() < 0.5:
            d = np.array([[rng.choice([0.0, 0.5, 1.0, 1.5, 2.0]) for _ in range(m)] for _ in range(n)])
        else:
            d = np.array([[rng.uniform(-3, 3) for _ in range(m)] for _ in range(n)])
        mode = rng.random()
        p = rng.random()
        k = np.array([[rng.random() < p for _ in range(m)] for _ in range(n)], dtype=bool)
        if mode < 0.08:
            k[:] = True
        elif mode < 0.16:
            k[:] = True
            k[rng.randrange(n), rng.randrange(m)] = False
        elif mode < 0.3:
            for t in range(min(n, m)):
                k[t, t] = True
        want = tuple(int(x) for x in np.unravel_index(ma.array(d, mask=k).argmin(), d.shape))
        E, iz, jz = run_model(d, k)
        obl = [o for o in E.obligs if o.name.endswith("argmin-some-unmasked-entry")]
        der = [o for o in E.obligs if o.name.endswith("masked-argmin-returns-an-unmasked-minimal-cell")]
        assert len(obl) == 1 and len(der) == 1
        done += 1
        if k.all():
            fully += 1
            s = z3.Solver()
            s.add(z3.Not(obl[0].goal))
            if s.check() != z3.sat or want != (0, 0):
                bad += 1
                print("MISMATCH fully masked", d.tolist(), k.tolist(), want)
            continue
        hyps = [h for h in E.pc if not h.eq(der[0].goal)]  # the assumed facts (the derived one is appended to pc after its obligation)
        s = z3.Solver()
        s.add(*hyps)
        s.add(iz == want[0], jz == want[1])
        ok1 = s.check() == z3.sat
        s = z3.Solver()
        s.add(*hyps)
        s.add(z3.Or(iz != want[0], jz != want[1]))
        ok2 = s.check() == z3.unsat
        s = z3.Solver()
        s.add(iz == want[0], jz == want[1], z3.Not(der[0].goal))
        ok3 = s.check() == z3.unsat
        s = z3.Solver()
        s.add(*obl[0].hyps)
        s.add(z3.Not(obl[0].goal))
        ok4 = s.check() == z3.unsat
        if not (ok1 and ok2 and ok3 and ok4):
            bad += 1
            print("MISMATCH", dict(numpy_allowed=ok1, numpy_only=ok2, derived_holds=ok3, obligation_true=ok4), d.tolist(), k.tolist(), want)
    print(f"masked argmin: {done} random masked matrices ({fully} fully masked), mismatches: {bad}")
    bad += check_plain(max(20, cases // 5), rng)
    bad += check_distances(max(10, cases // 20), rng)
    bad += check_rows(max(10, cases // 25), rng)
    return 1 if bad else 0


if __name__ == "__main__":
    sys.exit(main())
