"""Cross-check of the masked-argmin model of pyvc/ext_C17.py against numpy on random masked matrices.

Run:  /verif/.venv/bin/python tools/xcheck_ext_C17.py [cases=1000]      (exit 0 = the model agrees with numpy on every case)

For every case the REAL model function `_masked_argmin` + `_np_unravel_index` is run through a pyvc engine on an (n, m) matrix whose
cells are the concrete numbers of the case; the facts the model assumes (its primitives (I), (F), (A), see the docstring of the model)
are then checked against what numpy computes for `np.unravel_index(ma.array(d, mask=k).argmin(), d.shape)`:
  * numpy's answer satisfies the assumed facts (the model does not exclude the real behaviour), and
  * no other cell does (the model is as precise as numpy: ties go to the first cell in row-major order);
  * the DERIVED characterisation used by the proof of PointsToCuntzMST.__call__ (unmasked, minimal among the unmasked cells) holds
    for numpy's answer;
  * for fully masked matrices numpy silently returns cell (0, 0): this is why the model carries the proof obligation
    `argmin-some-unmasked-entry` (checked here: such a case is outside the model's domain, the obligation is generated and false).
Matrices: shapes 1..6 x 1..6, values from a small grid (many ties) or random floats, masks random with every density, also all /
all-but-one masked, diagonal masked (the shape the carrier produces).
"""
import os
import random
import sys

sys.path.insert(0, os.path.dirname(os.path.dirname(os.path.abspath(__file__))))
import numpy as np
import z3
from numpy import ma

from pyvc import ext_C17 as X
from pyvc.spec import Registry
from pyvc.values import frac
from pyvc.verify import Verifier

I, Rl, B = z3.IntSort(), z3.RealSort(), z3.BoolSort()


def matrix(vals, kind):
    n, m = vals.shape
    a, b = z3.Ints("xa xb")
    body = z3.BoolVal(False) if kind == "bool" else z3.RealVal(0)
    for r in range(n):
        for c in range(m):
            v = z3.BoolVal(bool(vals[r, c])) if kind == "bool" else z3.RealVal(str(frac(float(vals[r, c]))))
            body = z3.If(z3.And(a == r, b == c), v, body)
    return X.M2(z3.Lambda([a, b], body), n, m, kind)


def run_model(d, k):
    E = Verifier(Registry(), "C17")
    E.cur_key = "xcheck:masked_argmin"
    arr = X._ma_array(E, [matrix(d, "real")], {"mask": matrix(k, "bool")})
    flat = X._masked_argmin(E, arr, [], {})
    i, j = X._np_unravel_index(E, [flat, arr.__pyvc_getattr__(E, "shape")], {})
    return E, i.z, j.z


def main():
    cases = int(sys.argv[1]) if len(sys.argv) > 1 else 1000
    rng = random.Random(17)
    bad = done = fully = 0
    while done < cases:
        n, m = rng.randint(1, 6), rng.randint(1, 6)
        if rng.random() < 0.5:
            d = np.array([[rng.choice([0.0, 0.5, 1.0, 1.5, 2.0]) for _ in range(m)] for _ in range(n)])
        else:
            d = np.array([[rng.uniform(-3, 3) for _ in range(m)] for _ in range(n)])
        mode = rng.random()
        p = rng.random()
        k = np.array([[rng.random() < p for _ in range(m)] for _ in range(n)], dtype=bool)
        if mode < 0.08:
            k[:] = True
        elif mode < 0.16:
            k[:] = True
            k[rng.randrange(n), rng.randrange(m)] = False
        elif mode < 0.3:
            for t in range(min(n, m)):
                k[t, t] = True
        want = tuple(int(x) for x in np.unravel_index(ma.array(d, mask=k).argmin(), d.shape))
        E, iz, jz = run_model(d, k)
        obl = [o for o in E.obligs if o.name.endswith("argmin-some-unmasked-entry")]
        der = [o for o in E.obligs if o.name.endswith("masked-argmin-returns-an-unmasked-minimal-cell")]
        assert len(obl) == 1 and len(der) == 1
        done += 1
        if k.all():
            fully += 1
            s = z3.Solver()
            s.add(z3.Not(obl[0].goal))
            if s.check() != z3.sat or want != (0, 0):
                bad += 1
                print("MISMATCH fully masked", d.tolist(), k.tolist(), want)
            continue
        hyps = [h for h in E.pc if not h.eq(der[0].goal)]  # the assumed facts (the derived one is appended to pc after its obligation)
        s = z3.Solver()
        s.add(*hyps)
        s.add(iz == want[0], jz == want[1])
        ok1 = s.check() == z3.sat
        s = z3.Solver()
        s.add(*hyps)
        s.add(z3.Or(iz != want[0], jz != want[1]))
        ok2 = s.check() == z3.unsat
        s = z3.Solver()
        s.add(iz == want[0], jz == want[1], z3.Not(der[0].goal))
        ok3 = s.check() == z3.unsat
        s = z3.Solver()
        s.add(*obl[0].hyps)
        s.add(z3.Not(obl[0].goal))
        ok4 = s.check() == z3.unsat
        if not (ok1 and ok2 and ok3 and ok4):
            bad += 1
            print("MISMATCH", dict(numpy_allowed=ok1, numpy_only=ok2, derived_holds=ok3, obligation_true=ok4), d.tolist(), k.tolist(), want)
    print(f"masked argmin: {done} random masked matrices ({fully} fully masked), mismatches: {bad}")
    return 1 if bad else 0


if __name__ == "__main__":
    sys.exit(main())
