#!/usr/bin/env python3
"""Confirm a seeded property-breaking change and run the property's check against it.

usage: tools/seed_eval.py <src-dir with patch.diff demo.py meta.json> <seed-id> [--tier quick] [--keep]

Steps (all in a scratch copy of /repo under /var/tmp, removed afterwards):
  1. patch applies to the current /repo tree;  2. the pinned test suite still passes with it;
  3. demo.py exits 1 with the change and 0 without;  4. ./check <prop> against the changed copy (VERIF_REPO).
Writes /verif/seeded/<seed-id>/{patch.diff,demo.py,meta.json} (meta.json extended with what was run and observed).
"""
import json
import os
import shutil
import subprocess
import sys
import time

HERE = os.path.dirname(os.path.dirname(os.path.abspath(__file__)))
PY = "/venv/bin/python"


def run(cmd, cwd=None, env=None, timeout=1800):
    e = dict(os.environ)
    e.update(env or {})
    p = subprocess.run(cmd, cwd=cwd, env=e, stdout=subprocess.PIPE, stderr=subprocess.STDOUT, text=True, timeout=timeout)
    return p.returncode, p.stdout


def main():
    src, sid = sys.argv[1], sys.argv[2]
    tier = "quick"
    if "--tier" in sys.argv:
        tier = sys.argv[sys.argv.index("--tier") + 1]
    meta = json.load(open(os.path.join(src, "meta.json")))
    prop = meta["property"]
    props = [prop] + [p for p in sys.argv[3:] if p.startswith("C") and len(p) == 3 and p != prop]
    scratch = f"/var/tmp/seed-{sid}-{os.getpid()}"
    shutil.rmtree(scratch, ignore_errors=True)
    rec = dict(seed=sid, property=prop, at=time.strftime("%Y-%m-%d %H:%M:%S"))
    try:
        subprocess.run(["rsync", "-a", "--exclude", ".git", "/repo/", scratch + "/"], check=True)
        rc, out = run(["git", "apply", "--verbose", os.path.abspath(os.path.join(src, "patch.diff"))], cwd=scratch)
        rec["patch_applies"] = rc == 0
        if rc != 0:
            rec["patch_output"] = out[-1500:]
            print(json.dumps(rec, indent=1))
            return 2
        rc, out = run([PY, "-m", "pytest", "-q", "-p", "no:cacheprovider", "-x"], cwd=scratch, timeout=900)
        rec["tests_with_change"] = out.strip().splitlines()[-1] if out.strip() else ""
        rec["tests_pass_with_change"] = rc == 0
        demo = os.path.abspath(os.path.join(src, "demo.py"))
        rc1, out1 = run([PY, demo], cwd=scratch, env={"PYTHONPATH": scratch}, timeout=900)
        rc0, out0 = run([PY, demo], cwd="/repo", env={"PYTHONPATH": "/repo"}, timeout=900)
        rec["demo_exit_with_change"], rec["demo_exit_without"] = rc1, rc0
        rec["demo_output_with_change"] = out1.strip()[-600:]
        rec["confirmed"] = bool(rec["tests_pass_with_change"] and rc1 == 1 and rc0 == 0)
        rec["checks"] = {}
        for p in props:
            t0 = time.time()
            rc, out = run([os.path.join(HERE, "check"), p, "--tier", tier], cwd=HERE, env={"VERIF_REPO": scratch, "VERIF_EVIDENCE_DIR": os.path.join(scratch, ".evidence")}, timeout=3600)
            lines = [ln for ln in out.splitlines() if ln.startswith(("VIOLATION", "KNOWN-FINDING", "UNDECIDED", "MACHINERY-ERROR")) or ln.startswith(p + ":")]
            lines = [ln for ln in lines if not ln.startswith("VIOLATION")][:10] + [ln for ln in lines if ln.startswith("VIOLATION")][:12]
            rec["checks"][p] = dict(exit=rc, wall_s=round(time.time() - t0, 1), lines=[ln[:300] for ln in lines])
        rec["detected"] = any(c["exit"] == 1 for c in rec["checks"].values())
        rec["caught_by"] = sorted({ln.split("obligation=")[-1].split()[0] if "obligation=" in ln else "bounded:" + ln.split("bounded=")[-1].split()[0]
                                   for c in rec["checks"].values() for ln in c["lines"] if ln.startswith("VIOLATION")})
    finally:
        shutil.rmtree(scratch, ignore_errors=True)
    out_dir = os.path.join(HERE, "seeded", sid)
    os.makedirs(out_dir, exist_ok=True)
    if os.path.realpath(src) != os.path.realpath(out_dir):
        shutil.copy(os.path.join(src, "patch.diff"), os.path.join(out_dir, "patch.diff"))
        shutil.copy(os.path.join(src, "demo.py"), os.path.join(out_dir, "demo.py"))
    m2 = dict(property=prop, breaks=meta.get("what") or meta.get("breaks"), needs=meta.get("needs"), files=meta.get("files"), origin="independent sub-agent given only the property text and a scratch worktree",
              confirmed_by=["tools/seed_eval.py: patch applies to /repo HEAD copy", f"pytest with change: {rec.get('tests_with_change')}",
                            f"demo.py exit with change = {rec.get('demo_exit_with_change')}, without = {rec.get('demo_exit_without')}"],
              evaluation=rec)
    json.dump(m2, open(os.path.join(out_dir, "meta.json"), "w"), indent=1)
    print(f"{sid}: confirmed={rec.get('confirmed')} detected={rec.get('detected')} " + " ".join(f"{p}:exit={c['exit']}" for p, c in rec.get("checks", {}).items()) + f" caught_by={rec.get('caught_by')}")
    return 0


if __name__ == "__main__":
    sys.exit(main())
