#!/usr/bin/env python3
"""Cross-check of the general walk_ast contract (contracts/C15.py: register_walk_general) against the real code on concrete ASTs.

For a set of concrete documents (the fixed shapes of contracts/C15.py plus random ones: nested splits, several trees, colour /
comment markers, long runs) the REAL parser builds the AST; its nodes are numbered in allocation (= document) order and the ghost
functions of the abstract AST (kind, children, parent, end of subtree, label, values, rank, enclosing tree) are given their concrete
interpretation.  Then
  1. every PRECONDITION of the contract must be valid under that interpretation (so the contract is not vacuous and ASTs built by
     the parser are inside its domain), and
  2. every POSTCONDITION must be valid for the table the real `NeurolucidaAscToSwc.from_ast` produces.
The clause functions are taken from the registered contract (nothing is re-typed here); validity is decided by z3 after
`substitute_funs`.

usage: tools/xcheck_C15_walk.py [n_random=40]        exit 0 = all agree
"""
import io
import os
import random
import sys
import types as _types

sys.path.insert(0, os.path.dirname(os.path.dirname(os.path.abspath(__file__))))
import vcheck  # noqa: E402
import z3  # noqa: E402

from pyvc import ext_C15 as X  # noqa: E402
from pyvc.values import PList, Sym  # noqa: E402

I = z3.IntSort()


def render(shape):
    """text of a document given in the shape language of contracts/C15.py (values: point k -> (k+1, -k/2, k/4, 1/2))"""
    k = [0]

    def go(n):
        if n[0] == "ROOT":
            return "(" + " ".join(go(c) for c in n[1]) + ")"
        if n[0] == "TREE":
            return f"({n[1]}) " + " ".join(go(c) for c in n[2])
        if n[0] == "COLOR":
            return "(Color Red)"
        if n[0] == "COMMENT":
            return "; note\n"
        raise ValueError(n)

    return go(shape)


def random_doc(rng, depth):
    """a document text from the supported grammar, with markers"""
    count = [0]

    def point():
        count[0] += 1
        c = count[0]
        return f"({c} {-c / 2} {c / 4} 0.5)"

    def marker():
        r = rng.random()
        return " (Color Blue) " if r < 0.15 else " ; c\n" if r < 0.3 else " "

    def branch(d, may_be_empty):
        n = rng.randint(0 if may_be_empty else 1, 4)
        out = marker()
        for _ in range(n):
            out += point() + marker()
        if n and d > 0 and rng.random() < 0.7:
            out += "(" + "|".join(branch(d - 1, True) for _ in range(rng.randint(2, 3))) + ")" + marker()
        return out

    return "(" + marker() + f"({rng.choice(['Axon', 'Dendrite', 'AXON'])})" + branch(depth, False) + ")"


def number(ast):
    """nodes in allocation order == pre-order with children in list order; returns [(node, parent_index)]"""
    out = []

    def go(n, par):
        k = len(out)
        out.append((n, par))
        for c in n.children:
            go(c, k)

    go(ast, None)
    return out


def interpretation(nodes, r0, m):
    """concrete bodies (over Var(0) [, Var(1)]) of the ghost functions for the numbered AST"""
    x, j = z3.Var(0, I), z3.Var(1, I)
    N = len(nodes)
    idx = {id(n): k for k, (n, _) in enumerate(nodes)}
    end = [0] * N
    for k in range(N - 1, -1, -1):
        n = nodes[k][0]
        end[k] = (end[idx[id(n.children[-1])]] if n.children else k + 1)

    def table(vals, default, sort_val=z3.IntVal):
        z = sort_val(default)
        for k in range(N - 1, -1, -1):
            z = z3.If(x == r0 + k, sort_val(vals[k]), z)
        return z

    kind = [n.type.value for n, _ in nodes]
    rank, r = [], 0
    for k in range(N):
        rank.append(r)
        r += kind[k] == m.ASTType.NODE.value
    rank_fn = z3.IntVal(r)  # rank of END (= r0 + N) and beyond
    for k in range(N - 1, -1, -1):
        rank_fn = z3.If(x == r0 + k, z3.IntVal(rank[k]), rank_fn)
    encl = [0] * N
    for k, (n, par) in enumerate(nodes):
        if par is not None:
            encl[k] = (r0 + par) if kind[par] == m.ASTType.TREE.value else encl[par]
    child = z3.IntVal(0)
    for k, (n, _) in enumerate(nodes):
        for jj, c in enumerate(n.children):
            child = z3.If(z3.And(x == r0 + k, j == jj), z3.IntVal(r0 + idx[id(c)]), child)
    label = [X.str_code(n.value) if n.type is m.ASTType.TREE else 0 for n, _ in nodes]
    val = lambda d: [float(n.value[d]) if n.type is m.ASTType.NODE else 0.0 for n, _ in nodes]
    realv = lambda v: z3.RealVal(repr(v))
    sub = [(X.W_KIND, table(kind, 0)), (X.W_NCH, table([len(n.children) for n, _ in nodes], 0)), (X.W_CHILD, child),
           (X.W_PAR, table([0 if p is None else r0 + p for _, p in nodes], 0)), (X.W_END, table([r0 + e for e in end], 0)),
           (X.W_LABEL, table(label, 0)), (X.W_RK, rank_fn), (X.W_ENCL, table(encl, 0))]
    for d in range(4):
        sub.append((X.W_V[d], table(val(d), 0.0, realv)))
    return sub, r


def valid(formula, sub):
    f = z3.substitute_funs(formula, *sub)
    s = z3.Solver()
    s.set("timeout", 60000)
    s.add(z3.Not(f))
    return s.check()


def const_array(values, sort_val):
    a = z3.K(I, sort_val(0))
    for k, v in enumerate(values):
        a = z3.Store(a, k, sort_val(v))
    return a


def main():
    n_random = int(sys.argv[1]) if len(sys.argv) > 1 else 40
    import swcgeom.transforms.neurolucida_asc as m
    from contracts import C15
    from pyvc.spec import split_label
    from swcgeom.core.swc_utils import get_names, get_types

    R = vcheck.load_registry("C15")
    cs = [c for c in R.alts[C15.WALK] if not c.variants]
    assert len(cs) == 1, "general walk_ast contract not found"
    c = cs[0]
    names, types = get_names(), get_types()
    texts = []
    # (the fixed shapes of contracts/C15.py are ASTs, some of which no document produces; the documents here go through the real parser)
    rng = random.Random(15)
    for k in range(n_random):
        texts.append((f"random-{k}", random_doc(rng, depth=rng.randint(0, 3))))
    texts.append(("long-branch", "((Axon) " + " ".join(f"({k} 0 0 1)" for k in range(300)) + ")"))
    bad = checked = 0
    for nm, text in texts:
        ast = m.Parser(io.StringIO(text)).parse()
        nodes = number(ast)
        r0 = 1 + (len(text) % 5)
        sub, npoints = interpretation(nodes, r0, m)
        tree = m.NeurolucidaAscToSwc.from_ast(ast)
        nd = tree.ndata
        cols = {col: [v.item() for v in nd[getattr(names, col)]] for col in C15.COLS7}
        if os.environ.get("XCHECK_TAMPER") and len(cols["pid"]) > 1:  # self-test of this tool: a wrong table must be noticed
            cols["pid"][-1] += 1
        kinds = dict(id="int", type="int", x="real", y="real", z="real", r="real", pid="int")
        mk = lambda col: const_array(cols[col], z3.IntVal if kinds[col] == "int" else (lambda v: z3.RealVal(repr(float(v)))))

        def plist(arr, n, kind):
            p = PList()
            p.items, p.kinds, p.tup, p.cols, p.n = None, [kind], False, [arr], z3.IntVal(n)
            return p

        typee0 = const_array([types.undefined], z3.IntVal)
        clo = dict(next_id=tree.number_of_nodes(), typee=plist(typee0, 1, "int"),
                   ndata=_types.SimpleNamespace(items={getattr(names, col): plist(mk(col), len(cols[col]), kinds[col]) for col in C15.COLS7}))
        empty = {col: z3.K(I, z3.IntVal(0) if kinds[col] == "int" else z3.RealVal(0)) for col in C15.COLS7}
        E = _types.SimpleNamespace(spec_extra=dict(clo=clo, R0=z3.IntVal(r0), s0=z3.IntVal(0), L0=z3.IntVal(0), t0=z3.IntVal(1), pid0=z3.IntVal(-1),
                                                   cols0=empty, typee0=typee0))
        for where, clauses in (("pre", c.requires), ("post", c.ensures)):
            for j, cl in enumerate(clauses):
                lab, fn = split_label(cl, f"{where}{j}")
                if lab == "accumulators-as-from_ast-hands-them-over":
                    continue  # about the state BEFORE the walk (empty accumulators here)
                checked += 1
                r = valid(fn(E, {}, None), sub)
                if r != z3.unsat:
                    bad += 1
                    print(f"DISAGREE {nm}: {where}/{lab}: {r}   document: {text[:200]!r}")
    print(f"xcheck_C15_walk: {len(texts)} documents ({sum(1 for _ in texts)} parsed by the real parser), {checked} clause instances, {bad} disagreements")
    return 1 if bad else 0


if __name__ == "__main__":
    sys.exit(main())
