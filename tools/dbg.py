"""debug: python tools/dbg.py <prop> <key-substring> [timeout_ms]  -- per-instance verdicts of one carrier"""
import sys, os
sys.path.insert(0, os.path.dirname(os.path.dirname(os.path.abspath(__file__))))
sys.argv, args = [sys.argv[0]], sys.argv[1:]
import vcheck
from pyvc.verify import Verifier, discharge_all
prop, sub = args[0], args[1]
R = vcheck.load_registry(prop)
R.current, R.scope = prop, tuple(vcheck.depends_closure(prop))
to = int(args[2]) if len(args) > 2 else 10000
for c in R.values():
    if c.prop == prop and sub in c.key and not c.trusted:
        v = Verifier(R, prop)
        for k_, val in c.options.items():
            setattr(v, k_, val)
        try:
            info = v.verify(c)
        except Exception as e:  # one registration refused (Unsupported): the others are still shown
            print(c.key, "NOT VERIFIED:", type(e).__name__, e)
            continue
        print(c.key, info["stats"])
        res = discharge_all(v.obligs, to)
        for name, rs in sorted(res.items()):
            for r in rs:
                if r["verdict"] != "unsat" or os.environ.get("ALL"):
                    print(" ", name, r["verdict"], r["backend"], round(r["seconds"], 2), r.get("note"), (r.get("reason") or "")[:80])
                    if r["verdict"] == "sat" and os.environ.get("MODEL"):
                        print((r.get("model") or "")[:3000])
        if os.environ.get("HYPS"):
            byname = {}
            for ob in v.obligs:
                byname.setdefault(ob.name, []).append(ob)
            for name, rs in res.items():
                obs = [o for o in byname[name] if not __import__("z3").is_true(__import__("z3").simplify(o.goal))]
                for ob, r in zip(obs, rs):
                    if r["verdict"] != "unsat":
                        print("=====", name, ob.note)
                        for h in ob.hyps[-int(os.environ["HYPS"]):]:
                            print("  H:", str(h)[:400].replace("\n", " "))
                        print("  G:", str(ob.goal)[:800])
        if os.environ.get("DUMP"):
            from pyvc import smt as _smt
            os.makedirs(os.environ["DUMP"], exist_ok=True)
            byname = {}
            for ob in v.obligs:
                byname.setdefault(ob.name, []).append(ob)
            for name, rs in res.items():
                obs = [o for o in byname[name] if not __import__("z3").is_true(__import__("z3").simplify(o.goal))]
                for k, (ob, r) in enumerate(zip(obs, rs)):
                    if r["verdict"] != "unsat":
                        fn = os.path.join(os.environ["DUMP"], name.replace("/", "_") + f"_{k}.smt2")
                        open(fn, "w").write(_smt.to_smt2(ob.hyps, ob.goal))
                        print("dumped", fn)
