"""Cross-check of the models added for C04 (pyvc/models.py: dict.fromkeys, dict.update on a symbolic dict; contracts/C04.py:
truthiness of callback values) against CPython.

Run:  /verif/.venv/bin/python tools/xcheck_c04_models.py      (exit 0 = the models agree on every case)

For each random concrete case the SYMBOLIC model is run on containers whose contents are pinned by the path condition; then, for
every key of a small universe, (1) CPython's answer satisfies the model's facts (sat) and (2) no other answer does (unsat).
The concrete-container branches of the models are compared directly.
"""
import os
import random
import sys

sys.path.insert(0, os.path.dirname(os.path.dirname(os.path.abspath(__file__))))
import z3

from pyvc import models
from pyvc.spec import Registry
from pyvc.values import PDict, PList, Sym, to_z3
from pyvc.verify import Verifier

random.seed(4)
UNIVERSE = range(-1, 8)
bad = 0


def engine():
    E = Verifier(Registry(), "C04")
    E.trace, E.pos, E.worklist = [], 0, []
    return E


def sym_list(E, vals, name):
    p = PList.fresh("int", n=len(vals), name=name)
    for i, v in enumerate(vals):
        E.pc.append(z3.Select(p.cols[0], i) == v)
    return p


def sym_dict(E, d, name):
    s = PDict.fresh("oref", name=name)
    k = z3.Int("k_" + name)
    E.pc.append(z3.ForAll([k], z3.Select(s.dom, k) == z3.Or(*[k == x for x in d], z3.BoolVal(False))))
    for x, v in d.items():
        E.pc.append(z3.Select(s.val, x) == v)
    return s


undecided = 0


def agree(E, s, want, what):
    """the symbolic dict `s` under the path condition of E is exactly the Python dict `want` on UNIVERSE:
    (2) the model ENTAILS CPython's answer for every key (unsat of the negation), and (1) the model's facts are consistent with it
    (sat; the ghost `last` function of the dict-from-pairs model sits under quantifiers, where z3 may answer `unknown`: counted, not failed)"""
    global bad, undecided
    sol = z3.Solver()
    sol.set("timeout", 3000)
    sol.add(*E.pc)
    facts = []
    for key in UNIVERSE:
        f = [z3.Select(s.dom, key) == z3.BoolVal(key in want)]
        if key in want:
            f.append(to_z3(Sym(z3.Select(s.val, key), s.vkind), "oref") == want[key])
        facts.append(z3.And(*f))
        sol.push()
        sol.add(z3.Not(facts[-1]))
        if sol.check() != z3.unsat:
            bad += 1
            print("MISMATCH: the model admits another result:", what, key)
        sol.pop()
    sol.add(*facts)
    r = sol.check()
    if r == z3.unsat:
        bad += 1
        print("MISMATCH: CPython's result is excluded by the model:", what)
    elif r != z3.sat:
        undecided += 1


fromkeys, update = models.BUILTIN_MODELS[dict.fromkeys], models.DICT_METHODS["update"]
for trial in range(40):
    keys = [random.choice(range(0, 7)) for _ in range(random.randint(0, 5))]  # with repetitions
    val = random.randint(1, 9)
    # --- dict.fromkeys over a symbolic-length list, one shared value
    E = engine()
    agree(E, fromkeys(E, [sym_list(E, keys, "ks"), Sym(z3.IntVal(val), "oref")], {}), dict.fromkeys(keys, val), f"fromkeys({keys}, {val})")
    E = engine()
    agree(E, fromkeys(E, [sym_list(E, keys, "ks")], {}), {k: 0 for k in keys}, f"fromkeys({keys})  (value None = null reference 0)")
    # --- concrete branch
    got = fromkeys(engine(), [PList(list(keys)), val], {})
    if got.items != dict.fromkeys(keys, val):
        bad += 1
        print("MISMATCH concrete fromkeys", keys, got.items)
    # --- d.update(other): symbolic by symbolic, symbolic by concrete dict, symbolic by list of pairs
    d0 = {random.choice(range(0, 7)): random.randint(1, 9) for _ in range(random.randint(0, 4))}
    d1 = {random.choice(range(0, 7)): random.randint(1, 9) for _ in range(random.randint(0, 4))}
    want = dict(d0)
    want.update(d1)
    E = engine()
    s = sym_dict(E, d0, "a")
    update(E, s, [sym_dict(E, d1, "b")], {})
    agree(E, s, want, f"{d0}.update(sym {d1})")
    E = engine()
    s = sym_dict(E, d0, "a")
    update(E, s, [PDict({k: Sym(z3.IntVal(v), "oref") for k, v in d1.items()})], {})
    agree(E, s, want, f"{d0}.update(concrete {d1})")
    E = engine()
    s = sym_dict(E, d0, "a")
    update(E, s, [PList([(k, Sym(z3.IntVal(v), "oref")) for k, v in d1.items()])], {})
    agree(E, s, want, f"{d0}.update(pairs {d1})")
    # --- fromkeys followed by update: the composition the seeded change C04-c uses
    E = engine()
    s = sym_dict(E, d0, "a")
    update(E, s, [fromkeys(E, [sym_list(E, keys, "ks"), Sym(z3.IntVal(val), "oref")], {})], {})
    w2 = dict(d0)
    w2.update(dict.fromkeys(keys, val))
    agree(E, s, w2, f"{d0}.update(fromkeys({keys}, {val}))")

# --- lst[::-1] on a symbolic-length list: a new list, reversed
from pyvc import npmodels

for trial in range(40):
    vals = [random.randint(0, 9) for _ in range(random.randint(0, 6))]
    E = engine()
    src = sym_list(E, vals, "src")
    r = npmodels.plist_slice(E, src, slice(None, None, -1))
    sol = z3.Solver()
    sol.add(*E.pc)
    want = vals[::-1]
    ok = [z3.simplify(r.nz() == len(want))] + [z3.Select(r.cols[0], i) == w for i, w in enumerate(want)]
    sol.add(z3.Not(z3.And(*ok)))
    if r is src or sol.check() != z3.unsat:
        bad += 1
        print("MISMATCH: reversed slice", vals)

# --- truthiness of an arbitrary callback value: None is false; for anything else both answers are possible (the model may not decide)
from contracts.C04 import truth_of_callback_values

E = engine()
v = Sym(z3.Int("v"), "oref")
t = truth_of_callback_values(E, v)
for obj, ref in ((None, 0), (0, 1), ("", 2), ([], 3), (False, 4), (7, 5), ("x", 6), ([0], 7), (0.0, 8)):
    sol = z3.Solver()
    sol.add(v.z == ref, to_z3(t, "bool") == z3.BoolVal(bool(obj)))
    if sol.check() != z3.sat:
        bad += 1
        print("MISMATCH: truthiness model excludes bool(%r) = %r" % (obj, bool(obj)))
sol = z3.Solver()
sol.add(v.z == 0, to_z3(t, "bool"))
if sol.check() != z3.unsat:
    bad += 1
    print("MISMATCH: None must be false")
if truth_of_callback_values(E, Sym(z3.Int("i"), "int")) is not NotImplemented:
    bad += 1
    print("MISMATCH: the hook must leave other kinds to the engine")

# --- fourth session: reversed() / list() over sequences of symbolic length (a symbolic list, the int list stored in a symbolic dict),
#     extend / pop / += on such a stored list, collections.deque against the real deque on random operation sequences
import collections


def pinned(E, r, want, what):
    """the symbolic list r is exactly the Python list `want` under the path condition"""
    global bad
    sol = z3.Solver()
    sol.add(*E.pc)
    ok = [z3.simplify(r.nz() == len(want))] + [z3.Select(r.cols[0], i) == w for i, w in enumerate(want)]
    sol.add(z3.Not(z3.And(*ok)))
    if sol.check() != z3.unsat:
        bad += 1
        print("MISMATCH:", what, want)


def stored_list(E, vals, key, name):
    """a symbolic dict of int lists whose entry `key` is pinned to vals; returns (dict, reference to the stored list)"""
    d = PDict.fresh("intlist", name=name)
    E.pc.append(z3.Select(d.dom, key))
    E.pc.append(z3.Select(d.lens, key) == len(vals))
    for i, v in enumerate(vals):
        E.pc.append(z3.Select(z3.Select(d.val, key), i) == v)
    return d, models.dict_get(E, d, key)


rev, lst = models.BUILTIN_MODELS[reversed], models.BUILTIN_MODELS[list]
for trial in range(40):
    vals = [random.randint(0, 9) for _ in range(random.randint(0, 6))]
    E = engine()
    pinned(E, rev(E, [sym_list(E, vals, "src")], {}), list(reversed(vals)), "reversed(symbolic list)")
    E = engine()
    d, ref = stored_list(E, vals, 3, "cm")
    pinned(E, rev(E, [ref], {}), list(reversed(vals)), "reversed(list stored in a symbolic dict)")
    pinned(E, lst(E, [ref], {}), list(vals), "list(list stored in a symbolic dict)")
    pinned(E, rev(E, [rev(E, [ref], {})], {}), list(vals), "reversed(reversed(..))")
    more = [random.randint(0, 9) for _ in range(random.randint(0, 3))]
    want = list(vals)
    want.extend(more)
    models.LIST_METHODS["extend"](E, ref, [PList(list(more))], {})
    pinned(E, lst(E, [ref], {}), want, "stored list .extend")
    if want:
        E.trace, E.pos = [True], 0
        got = models.LIST_METHODS["pop"](E, ref, [], {})
        w = want.pop()
        sol = z3.Solver()
        sol.add(*E.pc)
        sol.add(got.z != w)
        if sol.check() != z3.unsat:
            bad += 1
            print("MISMATCH: stored list .pop()", want, w)
        pinned(E, lst(E, [ref], {}), want, "stored list after .pop()")
    if rev(engine(), [PList(list(vals))], {}).items != list(reversed(vals)):
        bad += 1
        print("MISMATCH concrete reversed", vals)

dq_model = models.BUILTIN_MODELS[collections.deque]
for trial in range(200):
    init = [random.randint(0, 9) for _ in range(random.randint(0, 4))]
    E = engine()
    real, mine = collections.deque(init), dq_model(E, [PList(list(init))], {})
    for step in range(random.randint(1, 12)):
        op = random.choice(["append", "appendleft", "pop", "popleft", "extend", "extendleft", "clear", "len", "truth", "index"])
        arg = [random.randint(0, 9) for _ in range(random.randint(0, 3))]
        try:
            want = {"append": lambda: real.append(arg), "appendleft": lambda: real.appendleft(arg), "pop": real.pop, "popleft": real.popleft,
                    "extend": lambda: real.extend(arg), "extendleft": lambda: real.extendleft(arg), "clear": real.clear, "len": lambda: len(real),
                    "truth": lambda: bool(real), "index": lambda: real[0]}[op]()
        except IndexError:
            want = IndexError
        try:
            if op in ("len", "truth", "index"):
                got = {"len": lambda: len(mine.items), "truth": lambda: E.truth(mine), "index": lambda: models.getitem(E, mine, 0)}[op]()
            else:
                a = [] if op in ("pop", "popleft", "clear") else [arg if op in ("append", "appendleft") else PList(list(arg))]
                got = models.method_of(E, mine, op).model(E, mine, a, {})
        except Exception as e:  # ProgExc(IndexError)
            got = getattr(e, "cls", type(e))
        if got != want or list(real) != mine.items:
            bad += 1
            print("MISMATCH deque", init, op, arg, "->", got, want, mine.items, list(real))
            break
try:
    models.method_of(engine(), PList([1]), "popleft")
    bad += 1
    print("MISMATCH: a plain list has no popleft")
except Exception as e:
    if getattr(e, "cls", None) is not AttributeError:
        bad += 1
        print("MISMATCH: list.popleft must be an AttributeError", e)

# symbolic-length deque: appendleft / popleft
for trial in range(30):
    vals = [random.randint(0, 9) for _ in range(random.randint(1, 5))]
    E = engine()
    dq = dq_model(E, [sym_list(E, vals, "dq")], {})
    x = random.randint(0, 9)
    models.method_of(E, dq, "appendleft").model(E, dq, [x], {})
    pinned(E, dq, [x] + vals, "symbolic deque appendleft")
    E.trace, E.pos = [True], 0
    got = models.method_of(E, dq, "popleft").model(E, dq, [], {})
    sol = z3.Solver()
    sol.add(*E.pc)
    sol.add(got.z != x)
    if sol.check() != z3.unsat:
        bad += 1
        print("MISMATCH symbolic deque popleft", vals)
    pinned(E, dq, vals, "symbolic deque after popleft")

print("dict.fromkeys / dict.update (symbolic) / list[::-1] / reversed / list / deque / stored-list extend, pop / truthiness of callback values:", f"models entail CPython's result on 40 random cases x 7 uses x {len(UNIVERSE)} keys ({undecided} consistency checks left `unknown` by z3)" if not bad else f"{bad} MISMATCHES")
sys.exit(1 if bad else 0)
