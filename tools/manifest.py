#!/usr/bin/env python3
"""Regenerate /verif/MANIFEST.json from the table below (python3 tools/manifest.py)."""
import json
import os

HERE = os.path.dirname(os.path.dirname(os.path.abspath(__file__)))

TECH = ("contract-based deductive verification: sidecar pre/postconditions, loop invariants, frame and ghost clauses on the real "
        "functions; verification conditions generated from /repo's AST on every run (pyvc) and discharged by z3 (cvc5 for z3's unknowns)")

TECH_B = ("bounded stand-in of contract-based verification: the contract clauses are evaluated at run time on the real functions over an "
          "exhaustively enumerated small scope with independent oracles; no deductive obligation discharged yet for this property")
TECH_PB = TECH + "; clauses outside the verifier's reach by the bounded run-time-contract stand-in"
TECHNIQUE = {}

# property -> (category, what is proved, trusted base / what is only bounded, DESIGN section)
CLAIMED = {}

NOT_YET = {}


def claim(pid, category, text, note, ref):
    CLAIMED[pid] = (category, text, note, ref)


def na(pid, reason):
    NOT_YET[pid] = reason


exec(open(os.path.join(HERE, "tools", "claims.py")).read())

checks = []
for pid in sorted(CLAIMED):
    cat, text, note, ref = CLAIMED[pid]
    checks.append(dict(
        property_id=pid,
        quick_cmd=f"./check {pid} --tier quick",
        thorough_cmd=f"./check {pid} --tier thorough",
        evidence_file=f"evidence/{pid}.json",
        replay_cmd_template=f"./check {pid} --replay {{path}}",
        engine="pyvc",
        level_claimed=dict(category=cat, text=text, design_ref=ref),
        level_note=note,
        technique=TECHNIQUE.get(pid, TECH_PB),
    ))
ALL = [f"C{i:02d}" for i in range(1, 21)]
nas = [dict(property_id=p, reason=NOT_YET.get(p, "no check registered yet")) for p in ALL if p not in CLAIMED]
man = dict(
    version=1,
    setup_cmd="./setup.sh",
    hooks=dict(
        guard="SWCGEOM_VERIF",
        enable="no source hooks: contracts are sidecar files under /verif/contracts, monitors are installed by monkey-patching inside the check process",
        baseline_off_cmd="cd /repo && /venv/bin/python -m pytest -ra -q -p no:cacheprovider --timeout=900 --continue-on-collection-errors",
        source_commits=[],
        add_only=True,
    ),
    engines=[dict(name="pyvc", path="pyvc/", serves_properties=sorted(CLAIMED),
                  kind_free_text="AST->VC generator (symbolic executor with modular call rule, loop invariants, heap/ownership model) + z3/cvc5; bounded run-time-contract stand-ins under bounded/")],
    checks=checks,
    not_applicable=nas,
    notes="Exit codes of ./check: 0 held | 1 VIOLATION | 2 undecided (solver unknown, never reported as a violation) | 3 machinery error. "
          "Evidence separates obligations discharged deductively (coverage.obligations/discharged) from the bounded stand-in (coverage.bounded, labelled bounded, never counted as proved).",
)
json.dump(man, open(os.path.join(HERE, "MANIFEST.json"), "w"), indent=1)
print("claimed:", sorted(CLAIMED), "not claimed:", [n["property_id"] for n in nas])
