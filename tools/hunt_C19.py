"""Hunt for engine-error classes on C19's carriers: apply a named deliberate rewrite of swcgeom/core/population.py (correct ones:
expect exit 0, property-breaking ones: expect exit 1) to a scratch copy of /repo and run the proof side of the touched carrier.
A line starting with MISS is a rewrite that is not decided as expected (exit 3 = construct not modelled).
Run:  /verif/.venv/bin/python tools/hunt_C19.py [names...] [-v]      (docs/w4/c19.md section 3 lists the results)"""
import os, subprocess, sys, shutil, re
W = os.path.dirname(os.path.dirname(os.path.abspath(__file__)))  # the verification tree this tool belongs to
HERE = os.environ.get("HUNT_SCRATCH", "/var/tmp/w4-c19-hunt")     # scratch copy of /repo (created on demand; remove it when done)
SRC = "/repo/swcgeom/core/population.py"
DST = os.path.join(HERE, "repo/swcgeom/core/population.py")
if not os.path.isdir(os.path.join(HERE, "repo")):
    os.makedirs(HERE, exist_ok=True)
    shutil.copytree("/repo", os.path.join(HERE, "repo"))

GETITEM_OLD = '''        i, j = 1, len(self.trees)  # cumsum[0] === 0
        idx = _get_idx(key, len(self))
        while i < j:
            mid = (i + j) // 2
            if self.cumsum[mid] <= idx:
                i = mid + 1
            else:
                j = mid

        return self.trees[i - 1][idx - self.cumsum[i - 1]]
'''
GETIDX_OLD = '''    if key < -length or key >= length:
        raise IndexError(f"The index ({key}) is out of range.")

    if key < 0:  # Handle negative indices
        key += length

    return key
'''
CHAIN_LEN_OLD = '''    def __len__(self) -> int:
        return self.cumsum[-1].item()
'''
CHAIN_ITER_OLD = '''    def __len__(self) -> int:
        return self.cumsum[-1].item()

    def __iter__(self) -> Iterator[Tree]:
        return (self[i] for i in range(self.__len__()))
'''
CUMSUM_OLD = "        self.cumsum = np.cumsum([0] + [len(ts) for ts in self.trees])\n"
TOPOP_OLD = "        return Population(ChainTrees(p.trees for p in self.populations))\n"
LAZY_ITER_OLD = '''    def __iter__(self) -> Iterator[Tree]:
        return (self[i] for i in range(self.__len__()))

    def load(self, key: int) -> None:'''
POPS_GET_OLD = "        return [p[key] for p in self.populations]\n"
POP_GET_OLD = "            trees = NestTrees(self.trees, range(*key.indices(len(self))))\n"

R = {}
def rw(name, only, expect, *pairs, imports=""):
    R[name] = (only, expect, pairs, imports)

# --- ChainTrees.__getitem__
rw("bisect-right", "ChainTrees.__getitem__", 0, (GETITEM_OLD, '''        idx = _get_idx(key, len(self))
        i = bisect.bisect_right(self.cumsum, idx)
        return self.trees[i - 1][idx - self.cumsum[i - 1]]
'''), imports="import bisect\n")
rw("bisect-left-wrong", "ChainTrees.__getitem__", 1, (GETITEM_OLD, '''        idx = _get_idx(key, len(self))
        i = bisect.bisect_left(self.cumsum, idx)
        return self.trees[i - 1][idx - self.cumsum[i - 1]]
'''), imports="import bisect\n")
rw("bisect-fn-import", "ChainTrees.__getitem__", 0, (GETITEM_OLD, '''        idx = _get_idx(key, len(self))
        i = bisect_right(self.cumsum, idx, 1) 
        return self.trees[i - 1][idx - self.cumsum[i - 1]]
'''), imports="from bisect import bisect_right\n")
rw("bisect-tolist", "ChainTrees.__getitem__", 0, (GETITEM_OLD, '''        idx = _get_idx(key, len(self))
        i = bisect.bisect(self.cumsum.tolist(), idx)
        return self.trees[i - 1][idx - self.cumsum[i - 1]]
'''), imports="import bisect\n")
rw("searchsorted-right", "ChainTrees.__getitem__", 0, (GETITEM_OLD, '''        idx = _get_idx(key, len(self))
        i = int(np.searchsorted(self.cumsum, idx, side="right"))
        return self.trees[i - 1][idx - self.cumsum[i - 1]]
'''))
rw("searchsorted-method", "ChainTrees.__getitem__", 0, (GETITEM_OLD, '''        idx = _get_idx(key, len(self))
        i = self.cumsum.searchsorted(idx, side="right")
        return self.trees[i - 1][idx - self.cumsum[i - 1]]
'''))
rw("searchsorted-left-wrong", "ChainTrees.__getitem__", 1, (GETITEM_OLD, '''        idx = _get_idx(key, len(self))
        i = int(np.searchsorted(self.cumsum, idx, side="left"))
        return self.trees[i - 1][idx - self.cumsum[i - 1]]
'''))
rw("getitem-mod", "ChainTrees.__getitem__", 0, (GETITEM_OLD, '''        n = len(self)
        if not -n <= key < n:
            raise IndexError(key)
        idx = key % n
        i = int(np.searchsorted(self.cumsum, idx, side="right"))
        return self.trees[i - 1][idx - self.cumsum[i - 1]]
'''))
rw("getitem-linear-scan", "ChainTrees.__getitem__", 0, (GETITEM_OLD, '''        idx = _get_idx(key, len(self))
        for m, ts in enumerate(self.trees):
            if idx < self.cumsum[m + 1]:
                return ts[idx - self.cumsum[m]]
        raise IndexError(key)
'''))
# --- _get_idx
rw("getidx-mod", "_get_idx", 0, (GETIDX_OLD, '''    if not -length <= key < length:
        raise IndexError(f"The index ({key}) is out of range.")
    return key % length
'''))
rw("getidx-mod-wrong", "_get_idx", 1, (GETIDX_OLD, '''    if length == 0:
        raise IndexError(f"The index ({key}) is out of range.")
    return key % length
'''))
rw("getidx-range-index", "_get_idx", 0, (GETIDX_OLD, '''    return range(length)[key]
'''))
rw("getidx-operator-index", "_get_idx", 0, (GETIDX_OLD, '''    key = operator.index(key)
    if key < -length or key >= length:
        raise IndexError(f"The index ({key}) is out of range.")
    return key + length if key < 0 else key
'''), imports="import operator\n")
rw("getidx-divmod", "_get_idx", 0, (GETIDX_OLD, '''    q, r = divmod(key, length) if length else (1, 0)
    if q not in (0, -1):
        raise IndexError(f"The index ({key}) is out of range.")
    return r
'''))
# --- ChainTrees.__len__
rw("len-sum-map", "ChainTrees.__len__", 0, (CHAIN_LEN_OLD, '''    def __len__(self) -> int:
        return sum(map(len, self.trees))
'''))
rw("len-sum-genexp", "ChainTrees.__len__", 0, (CHAIN_LEN_OLD, '''    def __len__(self) -> int:
        return sum(len(ts) for ts in self.trees)
'''))
rw("len-int-last", "ChainTrees.__len__", 0, (CHAIN_LEN_OLD, '''    def __len__(self) -> int:
        return int(self.cumsum[len(self.trees)])
'''))
rw("len-wrong", "ChainTrees.__len__", 1, (CHAIN_LEN_OLD, '''    def __len__(self) -> int:
        return int(self.cumsum[-2]) if len(self.trees) > 0 else 0
'''))
# --- ChainTrees.__init__
rw("init-accumulate", "ChainTrees.__init__", 0, (CUMSUM_OLD, "        self.cumsum = np.array(list(itertools.accumulate((len(ts) for ts in self.trees), initial=0)))\n"), imports="import itertools\n")
rw("init-accumulate2", "ChainTrees.__init__", 0, (CUMSUM_OLD, "        self.cumsum = np.array([0] + list(itertools.accumulate(len(ts) for ts in self.trees)))\n"), imports="import itertools\n")
rw("init-accumulate-wrong", "ChainTrees.__init__", 1, (CUMSUM_OLD, "        self.cumsum = np.array(list(itertools.accumulate(len(ts) for ts in self.trees)))\n"), imports="import itertools\n")
rw("init-cumsum-map", "ChainTrees.__init__", 0, (CUMSUM_OLD, "        self.cumsum = np.cumsum([0, *map(len, self.trees)])\n"))
rw("init-concat", "ChainTrees.__init__", 0, (CUMSUM_OLD, "        self.cumsum = np.concatenate([[0], np.cumsum([len(ts) for ts in self.trees])])\n"))
rw("init-insert", "ChainTrees.__init__", 0, (CUMSUM_OLD, "        self.cumsum = np.insert(np.cumsum([len(ts) for ts in self.trees]), 0, 0)\n"))
# --- iterators
rw("chain-iter-yield-from", "ChainTrees.__iter__", 0, (CHAIN_ITER_OLD, '''    def __len__(self) -> int:
        return self.cumsum[-1].item()

    def __iter__(self) -> Iterator[Tree]:
        yield from (self[i] for i in range(len(self)))
'''))
rw("lazy-iter-yield-from-wrong", "LazyLoadingTrees.__iter__", 1, (LAZY_ITER_OLD, '''    def __iter__(self) -> Iterator[Tree]:
        yield from (self[i - 1] for i in range(len(self)))

    def load(self, key: int) -> None:'''))
rw("chain-iter-map", "ChainTrees.__iter__", 0, (CHAIN_ITER_OLD, '''    def __len__(self) -> int:
        return self.cumsum[-1].item()

    def __iter__(self) -> Iterator[Tree]:
        return map(self.__getitem__, range(len(self)))
'''))
rw("lazy-iter-yield-from", "LazyLoadingTrees.__iter__", 0, (LAZY_ITER_OLD, '''    def __iter__(self) -> Iterator[Tree]:
        yield from (self[i] for i in range(len(self)))

    def load(self, key: int) -> None:'''))
rw("lazy-iter-map", "LazyLoadingTrees.__iter__", 0, (LAZY_ITER_OLD, '''    def __iter__(self) -> Iterator[Tree]:
        return map(self.__getitem__, range(len(self)))

    def load(self, key: int) -> None:'''))
# --- to_population
rw("topop-chain-from-iterable", "to_population", 0, (TOPOP_OLD, "        return Population(ChainTrees(itertools.chain.from_iterable([p.trees] for p in self.populations)))\n"), imports="import itertools\n")
rw("topop-list-comp", "to_population", 0, (TOPOP_OLD, "        return Population(ChainTrees([p.trees for p in self.populations]))\n"))
rw("topop-map-attrgetter", "to_population", 0, (TOPOP_OLD, "        return Population(ChainTrees(map(operator.attrgetter('trees'), self.populations)))\n"), imports="import operator\n")
rw("topop-slice-all", "to_population", 0, (TOPOP_OLD, "        return Population(ChainTrees(p[:] for p in self.populations))\n"))
rw("topop-slice-len-p", "to_population", 0, (TOPOP_OLD, "        return Population(ChainTrees(p[: len(p)] for p in self.populations))\n"))
rw("topop-slice-min-wrong", "to_population", 1, (TOPOP_OLD, "        return Population(ChainTrees(self[: len(self)]))\n"))
rw("topop-slice-obj-wrong", "to_population", 1, (TOPOP_OLD, "        return Population(ChainTrees(self[slice(0, self.len)]))\n"))
rw("topop-skip-first-wrong", "to_population", 1, (TOPOP_OLD, "        return Population(ChainTrees(p[1:] for p in self.populations))\n"))
rw("topop-reversed-wrong", "to_population", 1, (TOPOP_OLD, "        return Population(ChainTrees(p.trees for p in reversed(self.populations)))\n"))
rw("topop-drop-last-wrong", "to_population", 1, (TOPOP_OLD, "        return Population(ChainTrees(p.trees for p in self.populations[:-1]))\n"))
rw("topop-list-slice-n", "to_population", 0, (TOPOP_OLD, "        n = self.num_of_populations()\n        return Population(ChainTrees(p.trees for p in self.populations[:n]))\n"))
# --- Population.__getitem__(slice)
rw("pop-slice-list-range", "Population.__getitem__", 0, (POP_GET_OLD, "            trees = NestTrees(self.trees, list(range(len(self)))[key])\n"))
rw("pop-slice-unpack", "Population.__getitem__", 0, (POP_GET_OLD, "            start, stop, step = key.indices(len(self))\n            trees = NestTrees(self.trees, range(start, stop, step))\n"))
rw("pop-slice-range-slice", "Population.__getitem__", 0, (POP_GET_OLD, "            trees = NestTrees(self.trees, range(len(self))[key])\n"))
rw("pop-slice-wrong", "Population.__getitem__", 1, (POP_GET_OLD, "            start, stop, step = key.indices(len(self))\n            trees = NestTrees(self.trees, range(start, stop - 1, step))\n"))
# --- Populations.__getitem__
rw("pops-get-map", "Populations.__getitem__", 0, (POPS_GET_OLD, "        return list(map(operator.itemgetter(key), self.populations))\n"), imports="import operator\n")
rw("pops-get-slice-branch", "Populations.__getitem__", 0, (POPS_GET_OLD, "        if isinstance(key, slice):\n            return [p[key] for p in self.populations]\n        return [p[int(key)] for p in self.populations]\n"))

def run(name):
    only, expect, pairs, imports = R[name]
    s = open(SRC).read()
    for old, new in pairs:
        assert s.count(old) >= 1, (name, old)
        s = s.replace(old, new, 1)
    if imports:
        s = s.replace("import os\n", imports + "import os\n", 1)
    open(DST, "w").write(s)
    env = dict(os.environ, VERIF_REPO=os.path.join(HERE, "repo"), VERIF_WORKERS="3", VERIF_EVIDENCE_DIR=os.path.join(HERE, ".evidence"))
    os.makedirs(env["VERIF_EVIDENCE_DIR"], exist_ok=True)
    p = subprocess.run([os.path.join(W, "check"), "C19", "--no-bounded", "-v", "--only", only], capture_output=True, text=True, env=env)
    out = p.stdout + p.stderr
    lines = [l for l in out.splitlines() if l.startswith(("MACHINERY", "VIOLATION", "UNDECIDED", "C19:"))]
    tag = "ok  " if p.returncode == expect else "MISS"
    print(f"{tag} {name}: exit={p.returncode} expect={expect}")
    for l in lines:
        print("      " + l[:260])
    if "-v" in sys.argv:
        print(out[-3000:])
    sys.stdout.flush()

names = [a for a in sys.argv[1:] if not a.startswith("-")] or list(R)
for nm in names:
    run(nm)
open(DST, "w").write(open(SRC).read())
