#!/usr/bin/env python3
"""keep both sides of merge conflicts in append-only documents: tools/resolve_guide.py file..."""
import re, sys
for p in sys.argv[1:]:
    t = open(p).read()
    t = re.sub(r'^(<<<<<<< .*|=======|>>>>>>> .*)\n', '', t, flags=re.M)
    open(p, 'w').write(t)
