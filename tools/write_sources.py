#!/usr/bin/env python3
"""(Re)write baseline/sources.json: the source text of every function under contract (and of the outermost function
around nested carriers) on the UNCHANGED tree.  pyvc/align.py compares against it to re-anchor contracts after a rename
of locals.  Run together with --write-baseline:  VERIF_NO_ALIGN=1 .venv/bin/python tools/write_sources.py"""
import json
import os
import sys

os.environ["VERIF_NO_ALIGN"] = "1"
HERE = os.path.dirname(os.path.dirname(os.path.abspath(__file__)))
sys.path.insert(0, HERE)
import vcheck  # noqa: E402
from pyvc import extract  # noqa: E402

keys = set()
for i in range(1, 21):
    R = vcheck.load_registry(f"C{i:02d}")
    for c in R.values():
        keys.add(c.key.replace("@setter", "") if False else c.key)
        for k in getattr(c, "inlined_loops", {}) or {}:
            keys.add(k)
out = {}
for k in sorted(keys):
    ks = [k]
    rel, qual = k.split(":")
    parts = qual.split(".")
    if "<locals>" in parts:
        ks.append(rel + ":" + ".".join(parts[: parts.index("<locals>")]))
    for kk in ks:
        try:
            _, seg, _ = extract.find(kk)
        except KeyError:
            continue
        out[kk.replace("@setter", "")] = seg
json.dump(out, open(os.path.join(HERE, "baseline", "sources.json"), "w"), indent=0, sort_keys=True)
print(len(out), "function sources written")
