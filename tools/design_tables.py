#!/usr/bin/env python3
"""Markdown tables for DESIGN.md section 9, generated from evidence/*.json and seeded/*/meta.json.

usage: tools/design_tables.py totals | seeds | harmless
"""
import glob
import json
import os
import sys

HERE = os.path.dirname(os.path.dirname(os.path.abspath(__file__)))


def totals():
    print("| property | obligations discharged | functions under contract (own + DEPENDS) | solver s | bounded evaluations | wall |")
    print("|---|---|---|---|---|---|")
    tot_o = tot_f = 0
    for f in sorted(glob.glob(os.path.join(HERE, "evidence", "C*.json"))):
        e = json.load(open(f))
        c = e["coverage"]
        b = (c.get("bounded") or {}).get("evaluations", 0)
        tot_o += c["discharged"]
        tot_f += len(c["functions_under_contract"])
        print(f"| {e['property_id']} | {c['discharged']} of {c['obligations']} | {len(c['functions_under_contract'])} | {c['solver_seconds']:.0f} | {b} | {e['wall_s']:.0f} s |")
    print(f"\n({tot_o} obligation names in total; a function re-verified under several properties is counted once per property: {tot_f} carrier verifications.)")


def _short(s, n=150):
    s = " ".join(str(s).split())
    return s if len(s) <= n else s[: n - 1] + "…"


def seeds():
    print("| seed | file(s) | needs | failed obligation(s) (proof side) | bounded clause(s) |")
    print("|---|---|---|---|---|")
    n = p = d = 0
    for dd in sorted(glob.glob(os.path.join(HERE, "seeded", "*"))):
        m = json.load(open(os.path.join(dd, "meta.json")))
        ev = m.get("evaluation") or {}
        cb = ev.get("caught_by") or []
        proof = [c.split("/", 1)[1] for c in cb if not c.startswith("bounded:")]
        bnd = [c[len("bounded:"):] for c in cb if c.startswith("bounded:")]
        n += 1
        p += bool(proof)
        d += bool(ev.get("detected"))
        files = ", ".join(os.path.basename(x) for x in (m.get("files") or []))
        ex = ""
        if not ev.get("detected"):
            ex = " **not detected: exit " + ",".join(str(c["exit"]) for c in ev.get("checks", {}).values()) + "**"
        print(f"| {os.path.basename(dd)} | {files} | {_short(m.get('needs'))} | {_short('; '.join(proof[:3]), 260) or '—'}{ex} | {_short('; '.join(bnd[:2]), 200) or '—'} |")
    print(f"\n{n} seeded changes; {d} detected (exit 1); {p} by at least one named deductive obligation.")


def harmless():
    print("| edit | file(s) | what | check exit |")
    print("|---|---|---|---|")
    for dd in sorted(glob.glob(os.path.join(HERE, "harmless", "*"))):
        m = json.load(open(os.path.join(dd, "meta.json")))
        ev = m.get("evaluation") or {}
        files = ", ".join(os.path.basename(x) for x in (m.get("files") or []))
        print(f"| {os.path.basename(dd)} | {files} | {_short(m.get('what'), 200)} | " + ", ".join(f"{k}: {v['exit']}" for k, v in ev.get("checks", {}).items()) + " |")


if __name__ == "__main__":
    {"totals": totals, "seeds": seeds, "harmless": harmless}[sys.argv[1]]()
