"""tools/callgraph_scan.py [key ...]: recursion reachable from carriers, by pyvc/callgraph.py (all registered carriers when no key is given).
Prints the carriers from which a cycle of the static call graph is reachable (and those whose cycle a declared measure bounds)."""
import os
import sys

sys.path.insert(0, os.path.dirname(os.path.dirname(os.path.abspath(__file__))))
sys.argv, keys = [sys.argv[0]], sys.argv[1:]
import vcheck  # noqa: E402
from pyvc import callgraph  # noqa: E402

R = vcheck.load_registry(None)
todo = keys or sorted({c.key.replace("@setter", "") for c in R.values()})
for key in todo:
    try:
        ok, text = callgraph.describe(key, R)
    except Exception as e:  # noqa: BLE001
        print("ERR", key, type(e).__name__, e)
        continue
    if keys or not ok or "bounded by" in text:
        print(key, "->", text)
print("carriers scanned:", len(todo))
