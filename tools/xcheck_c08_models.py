import itertools, random
random.seed(8)
for trial in range(2000):
    K = random.randint(0, 5)
    L = [[[random.randint(0, 9) for _ in range(random.randint(0, 3))] for _ in range(random.randint(0, 4))] for _ in range(K)]
    r = list(itertools.chain(*L))
    off = [0]
    for k in range(K):
        off.append(off[-1] + len(L[k]))
    assert len(r) == off[K] and all(off[a] <= off[b] for a in range(K + 1) for b in range(a, K + 1))
    for k in range(K):
        for j in range(len(L[k])):
            assert r[off[k] + j] is L[k][j]          # the very element objects, in order
    for i in range(len(r)):
        seg = [k for k in range(K) if off[k] <= i < off[k + 1]]
        assert len(seg) == 1 and r[i] is L[seg[0]][i - off[seg[0]]]
    # list.reverse / list.extend / append, pointwise
    a = [random.randint(0, 9) for _ in range(random.randint(0, 6))]; b = [random.randint(0, 9) for _ in range(random.randint(0, 6))]
    old = list(a); a.reverse(); assert all(a[i] == old[len(old) - 1 - i] for i in range(len(old)))
    old = list(a); n = len(a); a.extend(b); assert len(a) == n + len(b) and all(a[i] == (old[i] if i < n else b[i - n]) for i in range(len(a)))
    # by-value dict of lists: equal to the stored content as long as nobody writes the list afterwards
    d = {}; p = list(b); d[3] = p; assert d[3] == b and d[3] is p
    c = list(d[3]); assert c == b and c is not d[3]       # list(x) / x.copy(): new object, same entries
print("itertools.chain(*L), list.reverse, list.extend, dict-of-lists: model facts hold on 2000 random inputs")

# ---- third session: np.nonzero of a concrete mask (fixed-topology variants), the height witness `ht8` of Tree.Node.branch
import os, sys
sys.path.insert(0, os.path.dirname(os.path.dirname(os.path.abspath(__file__))))
import numpy as np
from pyvc import ext_C08
from pyvc.values import NArr


class _Eng:  # the model only records its name
    prop = "C08"

    def __init__(self):
        self.assumptions = set()

    def truth(self, x):
        return bool(x)


for trial in range(2000):
    m = [random.random() < 0.4 for _ in range(random.randint(0, 9))]
    (got,) = ext_C08._np_nonzero(_Eng(), [NArr((len(m),), list(m), "bool")], {})
    assert list(got.items) == [int(i) for i in np.nonzero(np.array(m, dtype=bool))[0]], (m, got.items)
    a = [random.randint(-1, 8) for _ in range(random.randint(0, 7))]
    a = list(dict.fromkeys(a)) if trial % 2 else a  # distinct or not: numpy itself computes the concrete case
    b = [random.randint(-1, 8) for _ in range(random.randint(0, 7))]
    got = ext_C08._np_setdiff1d(_Eng(), [NArr((len(a),), a, "int"), NArr((len(b),), b, "int")], dict(assume_unique=True))
    assert list(got.items) == [int(i) for i in np.setdiff1d(np.array(a, dtype=np.int64), np.array(b, dtype=np.int64), assume_unique=True)]
    # every finite tree (parents in any order) has a height function: ht(parent) > ht(child) >= 0  (precondition of the Node.branch proof)
    n = random.randint(1, 12)
    pid = [-1] + [random.randrange(i) for i in range(1, n)]
    perm = [0] + random.sample(range(1, n), n - 1)
    q = [0] * n
    for i in range(n):
        q[perm[i]] = -1 if pid[i] == -1 else perm[pid[i]]
    kids = {i: [j for j in range(n) if q[j] == i] for i in range(n)}
    ht = {}

    def height(i):
        if i not in ht:
            ht[i] = 1 + max((height(j) for j in kids[i]), default=-1)
        return ht[i]

    assert all(height(i) >= 0 for i in range(n)) and all(height(q[i]) > height(i) for i in range(n) if q[i] != -1)
print("np.nonzero / np.setdiff1d on concrete arrays agree with numpy; a height witness exists: 2000 random inputs")
