import itertools, random
random.seed(8)
for trial in range(2000):
    K = random.randint(0, 5)
    L = [[[random.randint(0, 9) for _ in range(random.randint(0, 3))] for _ in range(random.randint(0, 4))] for _ in range(K)]
    r = list(itertools.chain(*L))
    off = [0]
    for k in range(K):
        off.append(off[-1] + len(L[k]))
    assert len(r) == off[K] and all(off[a] <= off[b] for a in range(K + 1) for b in range(a, K + 1))
    for k in range(K):
        for j in range(len(L[k])):
            assert r[off[k] + j] is L[k][j]          # the very element objects, in order
    for i in range(len(r)):
        seg = [k for k in range(K) if off[k] <= i < off[k + 1]]
        assert len(seg) == 1 and r[i] is L[seg[0]][i - off[seg[0]]]
    # list.reverse / list.extend / append, pointwise
    a = [random.randint(0, 9) for _ in range(random.randint(0, 6))]; b = [random.randint(0, 9) for _ in range(random.randint(0, 6))]
    old = list(a); a.reverse(); assert all(a[i] == old[len(old) - 1 - i] for i in range(len(old)))
    old = list(a); n = len(a); a.extend(b); assert len(a) == n + len(b) and all(a[i] == (old[i] if i < n else b[i - n]) for i in range(len(a)))
    # by-value dict of lists: equal to the stored content as long as nobody writes the list afterwards
    d = {}; p = list(b); d[3] = p; assert d[3] == b and d[3] is p
    c = list(d[3]); assert c == b and c is not d[3]       # list(x) / x.copy(): new object, same entries
print("itertools.chain(*L), list.reverse, list.extend, dict-of-lists: model facts hold on 2000 random inputs")
