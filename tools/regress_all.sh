#!/bin/sh
# tools/regress_all.sh [dir-of-a-checkout] [props...]
# Proof side of every property on the unchanged tree (`./check Cxx --no-bounded`), VERIF_WORKERS=4, two properties at a time
# (a two-slot pool, slowest properties first).  One line per property:
#   name obligations discharged exit expected(= obligations in the committed evidence/Cxx.json) OK|DIFF
# Evidence files are rewritten by every run: they are saved first and put back afterwards, so nothing changed by --no-bounded runs is left behind.
if [ "$1" = "--one" ]; then
  DIR=$2; OUT=$3; p=$4
  ( cd "$DIR" && ./check "$p" --no-bounded -v >"$OUT/$p.log" 2>&1; echo $? >"$OUT/$p.exit" )
  line=$(grep "^$p: obligations=" "$OUT/$p.log" | tail -1)
  nob=$(echo "$line" | sed -n 's/.*obligations=\([0-9]*\).*/\1/p')
  dis=$(echo "$line" | sed -n 's/.*discharged=\([0-9]*\).*/\1/p')
  exp=$(/verif/.venv/bin/python -c "import json,sys; print(json.load(open(sys.argv[1]))['coverage']['obligations'])" "$OUT/evidence/$p.json" 2>/dev/null)
  ex=$(cat "$OUT/$p.exit")
  known=$(echo "$line" | sed -n 's/.*known=\([0-9]*\).*/\1/p')
  ok=OK   # evidence counts leave out obligations that fail by a KNOWN finding (C01 has one)
  [ "$ex" = 0 ] && [ "$dis" = "$exp" ] && [ "$((nob - ${known:-0}))" = "$exp" ] || ok=DIFF
  echo "$p obligations=$nob discharged=$dis known-findings=${known:-0} exit=$ex expected=$exp $ok"
  exit 0
fi
HERE="$(cd "$(dirname "$0")/.." && pwd)"
DIR="${1:-$HERE}"
[ $# -gt 0 ] && shift
PROPS="${*:-C03 C02 C01 C07 C17 C11 C06 C10 C14 C20 C08 C05 C18 C19 C04 C15 C09 C16 C12 C13}"
OUT="${REGRESS_OUT:-/var/tmp/w4-stock-regress.$$}"
mkdir -p "$OUT/evidence"
cp "$DIR"/evidence/C??.json "$OUT/evidence/"
export VERIF_WORKERS=4
echo $PROPS | tr ' ' '\n' | xargs -P 2 -I{} sh "$0" --one "$DIR" "$OUT" {}
cp "$OUT"/evidence/C??.json "$DIR/evidence/"
echo "logs: $OUT"
