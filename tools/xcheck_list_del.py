#!/usr/bin/env python3
"""python tools/xcheck_list_del.py [cases] -- cross-check of the list models `del lst[i]` and `lst.pop(i)` on lists of SYMBOLIC length
(pyvc/models.py: delitem, _m_pop) against CPython.  The real model functions run through a pyvc engine on a list of symbolic length whose
cells are pinned to the numbers of the case; the index is concrete or a pinned symbol.  In range (negative indices included): the resulting
list (length and every cell) and the popped value must be ENTAILED to equal CPython's; out of range: the model must leave with IndexError."""
import os
import random
import sys

sys.path.insert(0, os.path.dirname(os.path.dirname(os.path.abspath(__file__))))
import z3

from pyvc import models as M
from pyvc.engine import Infeasible, PathEnd, ProgExc
from pyvc.spec import Registry
from pyvc.values import PList, Sym
from pyvc.verify import Verifier

bad = 0


def engine():
    E = Verifier(Registry(), "C01")
    E.cur_key = "xcheck:models"
    E.strict_index = False  # an index outside the range is the IndexError path (in strict mode it is a failed safety obligation instead)
    return E


def sym_list(E, vals):
    p = PList.fresh("int", name="L")
    E.assume(p.n == len(vals))
    for i, x in enumerate(vals):
        E.assume(z3.Select(p.cols[0], i) == int(x))
    return p


def entailed(E, goal):
    s = z3.Solver()
    s.set("timeout", 20000)
    s.add(*E.pc)
    if s.check() == z3.unsat:  # (`unknown` is the usual answer for a satisfiable set with quantified axioms)
        return "axioms unsatisfiable"
    s.add(z3.Not(goal))
    r = s.check()
    return None if r == z3.unsat else str(r)


def main():
    global bad
    rng = random.Random(7)
    n_cases = int(sys.argv[1]) if len(sys.argv) > 1 else 40
    ran = 0
    for _ in range(n_cases):
        n = rng.randint(0, 6)
        vals = [rng.randint(-9, 9) for _ in range(n)]
        for idx in range(-n - 2, n + 2):
            for how in ("del", "pop"):
                for symbolic in (False, True):
                    try:
                        py = list(vals)
                        py.pop(idx)
                        want = "ok"
                    except IndexError:
                        want = "IndexError"
                    got = run_paths(vals, idx, how, symbolic)
                    ran += 1
                    if got != [want]:
                        bad += 1
                        print("MISMATCH", how, vals, idx, "symbolic index" if symbolic else "concrete index", "python:", want, "model:", got)
    print(f"{ran} cases, {bad} mismatches")
    return 1 if bad else 0


def run_paths(vals, idx, how, symbolic):
    """every feasible path of the model on this input (the engine forks by re-running with a decision prefix: `trace` / `worklist`)"""
    results, work = [], [[]]
    while work:
        E = engine()
        E.trace, E.pos, E.worklist = list(work.pop()), 0, []
        try:
            results.extend(one_path(E, vals, idx, how, symbolic))
        except (PathEnd, Infeasible):
            pass
        work.extend(E.worklist)
    return results


def one_path(E, vals, idx, how, symbolic):
    p = sym_list(E, vals)
    i = idx
    if symbolic:
        i = Sym(z3.Int("idx"), "int")
        E.assume(i.z == idx)
    try:
        got = M._m_pop(E, p, [i], {}) if how == "pop" else M.delitem(E, p, i)
    except ProgExc as e:
        return [e.cls.__name__]
    want = list(vals)
    try:
        wv = want.pop(idx)
    except IndexError:
        return ["no IndexError"]
    goal = z3.And(p.nz() == len(want), *[z3.Select(p.cols[0], j) == int(x) for j, x in enumerate(want)])
    if how == "pop":
        goal = z3.And(goal, (got.z if isinstance(got, Sym) else z3.IntVal(int(got))) == int(wv))
    why = entailed(E, goal)
    return ["ok" if why is None else f"NOT ENTAILED ({why})"]


if __name__ == "__main__":
    sys.exit(main())
