#!/bin/sh
# re-evaluate every harmless edit against the current checks: tools/harmless_eval_all.sh [jobs]
cd "$(dirname "$0")/.."
J=${1:-2}
ls harmless | xargs -P "$J" -I{} sh -c '.venv/bin/python tools/harmless_eval.py harmless/{} {} 2>&1 | grep "confirmed="'
