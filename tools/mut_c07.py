#!/usr/bin/env python3
"""usage: tools/mut_c07.py <name> <prop> [check args...]   -- apply the named edit of EDITS to a scratch copy of /repo and run ./check against it"""
import os, shutil, subprocess, sys
F = "swcgeom/core/tree_utils.py"
SWAP = "    path[0].type, path[-1].type = path[-1].type, path[0].type\n"
ROOT = "    path[0].pid = -1\n"
LOOP1 = "    for n, p in zip(path[1:], path[:-1]):\n        n.pid = p.id\n"
EDITS = {
    # ---- property-breaking
    "no-swap": [(SWAP, "")],
    "swap-reversed-zip": [("zip(path[1:], path[:-1])", "zip(path[:-1], path[1:])")],
    "no-root-mark": [(ROOT, "")],
    "radius-swapped-too": [(SWAP, SWAP + "    path[0].r, path[-1].r = path[-1].r, path[0].r\n")],
    "no-copy": [("    tree = tree.copy()\n    path = [tree.node(new_root)]", "    path = [tree.node(new_root)]")],
    "sort-a-copy": [("    if sort:\n        _sort_tree(tree)\n", "    if sort:\n        _sort_tree(tree.copy())\n")],
    "type-of-new-root-only": [(SWAP, "    path[0].type = path[-1].type\n")],
    "swap-with-parent": [(SWAP, "    path[0].type, path[min(1, len(path) - 1)].type = path[min(1, len(path) - 1)].type, path[0].type\n")],
    "skip-last-edge": [("zip(path[1:], path[:-1])", "zip(path[1:-1], path[:-2])")],
    "root-mark-before-walk": [("    path = [tree.node(new_root)]\n", "    path = [tree.node(new_root)]\n    old_parent = path[0].pid\n"), ],
    "x-shift": [(ROOT, ROOT + "    path[0].x = path[-1].x\n")],
    # ---- harmless
    "h-rename-locals": [(LOOP1, "    for child, par in zip(path[1:], path[:-1]):\n        child.pid = par.id\n")],
    "h-reorder": [(ROOT + SWAP, SWAP + ROOT)],
    "h-swap-after-loop": [(ROOT + SWAP + LOOP1, ROOT + LOOP1 + SWAP)],
    "h-temp-swap": [(SWAP, "    t_new, t_old = path[0].type, path[-1].type\n    path[0].type = t_old\n    path[-1].type = t_new\n")],
    "h-index-form": [("path[0].pid = -1", "path[0].pid = 0 - 1"), ("while (p := path[-1].parent()) is not None:", "while (p := path[len(path) - 1].parent()) is not None:")],
    "h-index-loop": [(LOOP1, "    for k in range(1, len(path)):\n        path[k].pid = path[k - 1].id\n")],
    "h-tree-getitem": [("path = [tree.node(new_root)]", "path = [tree[new_root]]")],
    "h-walrus-unrolled": [("    while (p := path[-1].parent()) is not None:\n        path.append(p)\n", "    p = path[-1].parent()\n    while p is not None:\n        path.append(p)\n        p = path[-1].parent()\n")],
}
name, prop, rest = sys.argv[1], sys.argv[2], sys.argv[3:]
S = f"/var/tmp/c07-mut-{name}-{os.getpid()}"
shutil.rmtree(S, ignore_errors=True)
subprocess.run(["rsync", "-a", "--exclude", ".git", "/repo/", S + "/"], check=True)
try:
    src = open(os.path.join(S, F)).read()
    for old, new in EDITS[name]:
        assert src.count(old) >= 1, f"edit does not apply: {old!r}"
        # only inside redirect_tree
        a = src.index("def redirect_tree("); b = src.index("def cat_tree(")
        body = src[a:b]
        assert old in body, f"edit not inside redirect_tree: {old!r}"
        src = src[:a] + body.replace(old, new) + src[b:]
    open(os.path.join(S, F), "w").write(src)
    env = dict(os.environ, VERIF_REPO=S, VERIF_EVIDENCE_DIR=os.path.join(S, ".evidence"))
    p = subprocess.run([os.path.join(os.path.dirname(os.path.dirname(os.path.abspath(__file__))), "check"), prop] + rest, env=env, stdout=subprocess.PIPE, stderr=subprocess.STDOUT, text=True)
    keep = [ln for ln in p.stdout.splitlines() if ln.startswith(("VIOLATION", "UNDECIDED", "MACHINERY", prop + ":"))]
    print(f"== {name}: exit={p.returncode}")
    for ln in keep:
        print("   ", ln.replace(S, "<scratch>")[:260])
finally:
    shutil.rmtree(S, ignore_errors=True)
