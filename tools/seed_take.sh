#!/bin/sh
# tools/seed_take.sh C05-e : take a finished sub-agent's seed out of its scratch worktree, remove the worktree, evaluate
cd "$(dirname "$0")/.."
id=$1; wt=/tmp/seedwt/$id
mkdir -p .scratch/newseeds/$id
if [ -d $wt/_seed ]; then cp $wt/_seed/patch.diff $wt/_seed/demo.py $wt/_seed/meta.json .scratch/newseeds/$id/ && git -C /repo worktree remove --force $wt; fi
.venv/bin/python tools/seed_eval.py .scratch/newseeds/$id $id 2>&1 | tail -1
