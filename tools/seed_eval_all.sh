#!/bin/sh
# re-evaluate every seeded change against the current checks: tools/seed_eval_all.sh [jobs] [pattern]
cd "$(dirname "$0")/.."
J=${1:-3}; PAT=${2:-C}
ls seeded | grep "^$PAT" | xargs -P "$J" -I{} sh -c '.venv/bin/python tools/seed_eval.py seeded/{} {} 2>&1 | tail -1'
