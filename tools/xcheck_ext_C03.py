"""Cross-check of the library models of pyvc/ext_C03.py (np.min / np.max of a 1-D array) against real numpy.

Run:  /verif/.venv/bin/python tools/xcheck_ext_C03.py      (exit 0 = the model agrees on every case)

The model says: ValueError for an empty array; otherwise the result m is attained at some position and bounds every entry.
For concrete arrays these facts determine m, so for each case we check (1) that numpy's value satisfies the model's facts
(the model does not exclude the real behaviour) and (2) that no other value does (the model is not weaker than numpy).
"""
import os
import sys

sys.path.insert(0, os.path.dirname(os.path.dirname(os.path.abspath(__file__))))
import numpy as np
import z3

from pyvc import ext_C03 as X
from pyvc.engine import ProgExc
from pyvc.spec import Registry
from pyvc.values import SArr
from pyvc.verify import Verifier

CASES = [[3.0], [1.0, 2.0, 3.0], [3.0, 2.0, 1.0], [-1.5, -0.25, -7.0], [0.0, 0.0], [2.0, -2.0, 2.0, -2.0], [5.0, 5.0, 4.0, 6.0, 6.0], [1e6, -1e6, 0.5]]
bad = 0

for fn in (np.min, np.max, np.amin, np.amax):
    is_min = fn in (np.min, np.amin)
    for vals in CASES:
        E = Verifier(Registry(), "C03")
        E.models = X.MODELS
        a = SArr.fresh("real", len(vals), name="a")
        E.pc = [z3.Select(a.arr, i) == z3.RealVal(repr(v)) for i, v in enumerate(vals)]
        m = E.models.lookup_model(fn)(E, [a], {})
        want = float(fn(np.array(vals)))
        s = z3.Solver()
        s.add(*E.pc)
        s.push()
        s.add(m.z == z3.RealVal(repr(want)))
        if s.check() != z3.sat:
            bad += 1
            print("MISMATCH: numpy's value is excluded by the model", fn.__name__, vals, want)
        s.pop()
        s.add(m.z != z3.RealVal(repr(want)))
        if s.check() != z3.unsat:
            bad += 1
            print("MISMATCH: the model admits another value", fn.__name__, vals, s.model().eval(m.z))
    # empty array: numpy raises ValueError, so does the model
    E = Verifier(Registry(), "C03")
    E.models = X.MODELS
    E.trace, E.pos, E.worklist = [], 0, []
    try:
        E.models.lookup_model(fn)(E, [SArr.fresh("real", 0, name="e")], {})
        bad += 1
        print("MISMATCH: the model returns a value for an empty array", fn.__name__)
    except ProgExc as e:
        try:
            fn(np.array([]))
            bad += 1
            print("MISMATCH: numpy returns a value for an empty array", fn.__name__)
        except ValueError:
            if e.cls is not ValueError:
                bad += 1
                print("MISMATCH: exception class", fn.__name__, e.cls)
    # other argument forms fall through to the stock models (axis=..., 2-D): not modelled here
# ---------------------------------------------------------------- np.array_equal of two 1-D arrays of symbolic length (pyvc/narr.py)
from pyvc import narr  # noqa: E402

PAIRS = [([1, 2, 3], [1, 2, 3]), ([1, 2, 3], [1, 2, 4]), ([1, 2], [1, 2, 3]), ([], []), ([0], [0]), ([0], [1]), ([1.5, 2.0], [1.5, 2.0]), ([3, 2, 1], [1, 2, 3])]
for xs, ys in PAIRS:
    E = Verifier(Registry(), "C03")
    kind = "real" if any(isinstance(v, float) for v in xs + ys) else "int"
    mk = (lambda v: z3.RealVal(repr(v))) if kind == "real" else z3.IntVal
    a, b = SArr.fresh(kind, len(xs), name="a"), SArr.fresh(kind, len(ys), name="b")
    facts = [z3.Select(a.arr, i) == mk(v) for i, v in enumerate(xs)] + [z3.Select(b.arr, i) == mk(v) for i, v in enumerate(ys)]
    r = narr.np_array_equal(E, [a, b], {})
    rz = z3.BoolVal(r) if isinstance(r, bool) else r.z
    want = bool(np.array_equal(np.array(xs), np.array(ys)))
    s = z3.Solver()
    s.add(*facts)
    s.add(rz != z3.BoolVal(want))
    if s.check() != z3.unsat:
        bad += 1
        print("MISMATCH np.array_equal", xs, ys, "numpy:", want)
print("cases:", 4 * (len(CASES) + 1) + len(PAIRS), "mismatches:", bad)
sys.exit(1 if bad else 0)
