"""Cross-check of the library models of pyvc/ext_C03.py (np.min / np.max of a 1-D array) against real numpy.

Run:  /verif/.venv/bin/python tools/xcheck_ext_C03.py      (exit 0 = the model agrees on every case)

The model says: ValueError for an empty array; otherwise the result m is attained at some position and bounds every entry.
For concrete arrays these facts determine m, so for each case we check (1) that numpy's value satisfies the model's facts
(the model does not exclude the real behaviour) and (2) that no other value does (the model is not weaker than numpy).
"""
import os
import sys

sys.path.insert(0, os.path.dirname(os.path.dirname(os.path.abspath(__file__))))
import numpy as np
import z3

from pyvc import ext_C03 as X
from pyvc.engine import ProgExc
from pyvc.spec import Registry
from pyvc.values import SArr
from pyvc.verify import Verifier

CASES = [[3.0], [1.0, 2.0, 3.0], [3.0, 2.0, 1.0], [-1.5, -0.25, -7.0], [0.0, 0.0], [2.0, -2.0, 2.0, -2.0], [5.0, 5.0, 4.0, 6.0, 6.0], [1e6, -1e6, 0.5]]
bad = 0

for fn in (np.min, np.max, np.amin, np.amax):
    is_min = fn in (np.min, np.amin)
    for vals in CASES:
        E = Verifier(Registry(), "C03")
        E.models = X.MODELS
        a = SArr.fresh("real", len(vals), name="a")
        E.pc = [z3.Select(a.arr, i) == z3.RealVal(repr(v)) for i, v in enumerate(vals)]
        m = E.models.lookup_model(fn)(E, [a], {})
        want = float(fn(np.array(vals)))
        s = z3.Solver()
        s.add(*E.pc)
        s.push()
        s.add(m.z == z3.RealVal(repr(want)))
        if s.check() != z3.sat:
            bad += 1
            print("MISMATCH: numpy's value is excluded by the model", fn.__name__, vals, want)
        s.pop()
        s.add(m.z != z3.RealVal(repr(want)))
        if s.check() != z3.unsat:
            bad += 1
            print("MISMATCH: the model admits another value", fn.__name__, vals, s.model().eval(m.z))
    # empty array: numpy raises ValueError, so does the model
    E = Verifier(Registry(), "C03")
    E.models = X.MODELS
    E.trace, E.pos, E.worklist = [], 0, []
    try:
        E.models.lookup_model(fn)(E, [SArr.fresh("real", 0, name="e")], {})
        bad += 1
        print("MISMATCH: the model returns a value for an empty array", fn.__name__)
    except ProgExc as e:
        try:
            fn(np.array([]))
            bad += 1
            print("MISMATCH: numpy returns a value for an empty array", fn.__name__)
        except ValueError:
            if e.cls is not ValueError:
                bad += 1
                print("MISMATCH: exception class", fn.__name__, e.cls)
    # other argument forms fall through to the stock models (axis=..., 2-D): not modelled here
print("cases:", 4 * (len(CASES) + 1), "mismatches:", bad)
sys.exit(1 if bad else 0)
